#!/usr/bin/env python3
"""Run every check against behaviour-preserving refactorings of /repo (seeded/refactorings/*.diff):
a check that fires there is a false alarm (it depends on an internal name, not on the property).

usage: tools_refactor.py [r1 r2 ...] [--checks C01,C02]"""
import glob
import os
import shutil
import sys

import tools_seeded as T

VERIF = os.path.dirname(os.path.abspath(__file__))
ALL = [f"C{i:02d}" for i in range(1, 19)]


def main() -> None:
    args = [a for a in sys.argv[1:] if not a.startswith("--")]
    checks = ALL
    for a in sys.argv[1:]:
        if a.startswith("--checks"):
            checks = a.split("=", 1)[1].split(",")
    names = args or sorted(os.path.basename(p)[:-5] for p in
                           glob.glob(os.path.join(VERIF, "seeded", "refactorings", "*.diff")))
    for n in names:
        patch = os.path.join(VERIF, "seeded", "refactorings", n + ".diff")
        d = T.scratch(patch)
        try:
            rc, tail = T.run_tests(d)
            print(f"{n} tests: exit={rc} {tail}", flush=True)
            for c in checks:
                rc, sigs, last = T.run_check(d, c)
                print(f"{n} {c}: {'ok' if rc == 0 else 'ALARM' if rc == 1 else 'INCONCLUSIVE'} {last[:140]}",
                      flush=True)
                for s in sigs[:5]:
                    print("    ", s[:200], flush=True)
        finally:
            shutil.rmtree(d)


if __name__ == "__main__":
    main()
