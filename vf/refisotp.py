"""Reference ISO 15765-2 segmenter (normal addressing) and envelope checker.

Written from the standard, shares no code with odxtools.
"""
from __future__ import annotations

from typing import Dict, List, Optional, Sequence, Tuple

FD_DLCS = [8, 12, 16, 20, 24, 32, 48, 64]


def _pad(frame: bytes, tx_dl: int, padding: Optional[int]) -> bytes:
    """Classic frames: optional padding to 8 bytes.  FD frames longer than 8 bytes must be
    padded to the next legal DLC (mandatory, 0xCC if no padding byte was chosen)."""
    n = len(frame)
    if n <= 8:
        if padding is None:
            return frame
        return frame + bytes([padding]) * (8 - n)
    target = next(d for d in FD_DLCS if d >= n)
    pb = 0xCC if padding is None else padding
    return frame + bytes([pb]) * (target - n)


def segment(payload: bytes, tx_dl: int = 8, padding: Optional[int] = None) -> List[bytes]:
    """Frames (data bytes) transmitting `payload`."""
    L = len(payload)
    assert 1 <= L <= 4095 and tx_dl in FD_DLCS
    if L <= 7:
        return [_pad(bytes([L]) + payload, tx_dl, padding)]
    if tx_dl > 8 and L <= tx_dl - 2:
        return [_pad(bytes([0x00, L]) + payload, tx_dl, padding)]
    frames = [bytes([0x10 | (L >> 8), L & 0xFF]) + payload[:tx_dl - 2]]
    pos = tx_dl - 2
    sn = 1
    while pos < L:
        chunk = payload[pos:pos + tx_dl - 1]
        frames.append(_pad(bytes([0x20 | sn]) + chunk, tx_dl, padding))
        pos += len(chunk)
        sn = (sn + 1) % 16
    return frames


def flow_control(flag: int = 0, block_size: int = 0, st_min: int = 0,
                 padding: Optional[int] = None) -> bytes:
    return _pad(bytes([0x30 | flag, block_size, st_min]), 8, padding)


def kind_of(frame: bytes) -> str:
    if len(frame) == 0:
        return "empty"
    t = frame[0] >> 4
    return {0: "SF", 1: "FF", 2: "CF", 3: "FC"}.get(t, "unknown")


class Envelope:
    """Per-ID checker for arbitrary (faulty) frame sequences.

    feed(frame, reported) -> None or (clause, text) describing why `reported` (the list of
    telegrams the implementation reported for this frame on this ID) is not allowed.
    """

    def __init__(self) -> None:
        self.active = False
        self.buf = b""
        self.L = 0
        self.expected = 1
        self.reported = True
        self.ff_index = -1
        self.index = -1

    def feed(self, frame: bytes, reported: Sequence[bytes]) -> Optional[Tuple[str, str]]:
        self.index += 1
        k = kind_of(frame)
        rep = [bytes(x) for x in reported]
        if k in ("empty", "unknown", "FC"):
            if rep:
                return ("fabricated", f"{k} frame made the decoder report {rep!r}")
            return None
        if k == "SF":
            n = frame[0] & 0x0F
            allowed: List[Optional[bytes]]
            must = None
            if 1 <= n <= 7 and len(frame) >= 1 + n and len(frame) <= 8:
                must = frame[1:1 + n]
            elif n == 0 and len(frame) > 8 and len(frame) >= 2 and 8 <= frame[1] <= len(frame) - 2:
                must = frame[2:2 + frame[1]]
            if must is not None:
                if rep != [must]:
                    return ("sf-not-reported",
                            f"well-formed single frame {frame.hex()} reported as {rep!r}")
                return None
            # malformed single frame: nothing, or one of the literal readings
            readings = [frame[1:1 + n]]
            if n == 0 and len(frame) >= 2:
                readings.append(frame[2:2 + frame[1]])
            if len(rep) > 1 or (rep and rep[0] not in readings):
                return ("fabricated", f"malformed single frame {frame.hex()} reported as {rep!r}")
            return None
        if k == "FF":
            if len(frame) >= 2:
                self.active = True
                self.L = ((frame[0] & 0x0F) << 8) | frame[1]
                self.buf = frame[2:]
                self.expected = 1
                self.reported = False
                self.ff_index = self.index
                if rep:
                    if len(self.buf) >= self.L and rep == [self.buf[:self.L]]:
                        self.reported = True
                        return None
                    return ("fabricated", f"first frame {frame.hex()} reported as {rep!r}")
            else:
                # truncated FF (no length byte): it announces nothing, so it is garbage.  An
                # implementation may ignore it (an open transfer continues - that is still "one
                # first frame followed by its in-sequence consecutive frames") or abort the open
                # transfer (silence is always acceptable), so the envelope state is kept.
                if rep:
                    return ("fabricated", f"truncated first frame reported as {rep!r}")
            return None
        # CF
        sn = frame[0] & 0x0F
        complete_now = None
        if self.active and not self.reported and sn == self.expected:
            self.buf += frame[1:]
            self.expected = (self.expected + 1) % 16
            if len(self.buf) >= self.L:
                complete_now = self.buf[:self.L]
        if not rep:
            if complete_now is not None:
                # an implementation that aborted the transfer after an earlier fault may stay
                # silent; whether silence is acceptable is decided by the caller (fault-free
                # streams and the recovery suffix must report)
                self.pending_silent = True
            return None
        if len(rep) > 1:
            return ("duplicate-report", f"consecutive frame produced {len(rep)} telegrams")
        if complete_now is None:
            if not self.active or self.reported:
                return ("fabricated",
                        f"consecutive frame without an open transfer reported {rep[0].hex()[:40]}")
            return ("fabricated", f"telegram reported before {self.L} in-sequence bytes arrived "
                    f"or from out-of-sequence frames: {rep[0].hex()[:40]}")
        if rep[0] != complete_now:
            return ("fabricated", f"reported {rep[0].hex()[:40]} but in-sequence data is "
                    f"{complete_now.hex()[:40]}")
        self.reported = True
        return None
