"""C10 helper: multi-document database model -> ODX XML, reference sites, independent resolver.

The model is a plain JSON-able dict (so that a failing database can be stored in a replay
file).  Every object that odxtools can bind a reference to carries a *marker* in its
LONG-NAME, ``<container>/<layer>/<local id>``, so the identity of a bound object can be read
off the public ``long_name`` attribute.

model   = {"dup": bool, "cps": [CPS..], "docs": [{"name", "layers": [LAYER..]}..],
           "fault": None | {...}}
LAYER   = {"kind", "name", "id", "parents": [REF], "imports": [REF], "cps": REF?,
           "pstack": name?, "fcs", "pdims", "units", "dops", "structs", "fields", "muxes",
           "envdatas", "envdescs", "tables", "requests", "pos", "neg", "services"}
REF     = {"f": "id", "id": local id, "dr": [DOCTYPE, name] | None} | {"f": "sn", "sn": name}
PARAM   = {"p": "CODED-CONST"|"VALUE"|"LENGTH-KEY"|"TABLE-KEY"|"TABLE-STRUCT", "name", ...}

Nothing in this file imports odxtools.  The resolver below is written from the ODX rule
(ISO 22901-1 7.3.13 / 7.3.2.4), not from odxtools:

* ODXLINK with DOCREF: the ID is looked up in the named fragment only.
* ODXLINK without DOCREF: the referring layer first, then -- for that layer only -- the
  objects of the ECU-SHARED-DATA layers it imports, then the enclosing container.  (The
  relative order of "imported" and "container" is not fixed by the rule: both are accepted.)
* SNREF: the named object in the layer's view after value inheritance (local objects
  override inherited ones by short name), the enclosing parameter list (TABLE-KEY-SNREF), or
  the table (TABLE-ROW-SNREF); exactly one candidate, else the reference is unresolvable.
"""
from __future__ import annotations

import copy
import random
from typing import Any, Dict, Iterable, Iterator, List, Optional, Sequence, Set, Tuple
from xml.sax.saxutils import escape, quoteattr

J = Dict[str, Any]

HDR = ('<?xml version="1.0" encoding="UTF-8" standalone="no" ?>\n'
       '<ODX MODEL-VERSION="2.2.0" xmlns:xsi="http://www.w3.org/2001/XMLSchema-instance" '
       'xsi:noNamespaceSchemaLocation="odx.xsd">')

GROUPS = [("ECU-SHARED-DATA", "ECU-SHARED-DATAS"), ("PROTOCOL", "PROTOCOLS"),
          ("FUNCTIONAL-GROUP", "FUNCTIONAL-GROUPS"), ("BASE-VARIANT", "BASE-VARIANTS"),
          ("ECU-VARIANT", "ECU-VARIANTS")]


def marker(cont: str, layer: str, oid: str) -> str:
    return f"{cont}/{layer}/{oid}"


def rid(i: str, dr: Optional[Sequence[str]] = None) -> J:
    return {"f": "id", "id": i, "dr": list(dr) if dr else None}


def rsn(n: str) -> J:
    return {"f": "sn", "sn": n}


# ---------------------------------------------------------------------------
# XML emission


def _names(name: str, mk: str) -> str:
    return f"<SHORT-NAME>{escape(name)}</SHORT-NAME><LONG-NAME>{escape(mk)}</LONG-NAME>"


def _ref(tag: str, ref: Optional[J], extra: str = "") -> str:
    """tag without the -REF / -SNREF suffix"""
    if ref is None:
        return ""
    if ref["f"] == "sn":
        return f'<{tag}-SNREF SHORT-NAME={quoteattr(ref["sn"])}/>'
    s = f'<{tag}-REF ID-REF={quoteattr(ref["id"])}'
    if ref.get("dr"):
        s += f' DOCREF={quoteattr(ref["dr"][1])} DOCTYPE={quoteattr(ref["dr"][0])}'
    return s + extra + "/>"


_DCT8 = ('<DIAG-CODED-TYPE BASE-DATA-TYPE="A_UINT32" xsi:type="STANDARD-LENGTH-TYPE">'
         '<BIT-LENGTH>8</BIT-LENGTH></DIAG-CODED-TYPE>')


def _param(p: J, c: str, l: str, owner: str) -> str:
    k = p["p"]
    pid = p.get("id")
    mk = marker(c, l, pid if pid else owner + "#" + p["name"])
    a = f" ID={quoteattr(pid)}" if pid else ""
    s = f'<PARAM{a} xsi:type="{k}">' + _names(p["name"], mk)
    if p.get("byte") is not None:
        s += f'<BYTE-POSITION>{p["byte"]}</BYTE-POSITION>'
    if k == "CODED-CONST":
        s += f'<CODED-VALUE>{p["value"]}</CODED-VALUE>' + _DCT8
    elif k in ("VALUE", "LENGTH-KEY"):
        s += _ref("DOP", p["dop"])
    elif k == "TABLE-KEY":
        s += _ref("TABLE", p.get("table")) + _ref("TABLE-ROW", p.get("row"))
    elif k == "TABLE-STRUCT":
        s += _ref("TABLE-KEY", p["key"])
    return s + "</PARAM>"


def _params(ps: List[J], c: str, l: str, owner: str) -> str:
    return "<PARAMS>" + "".join(_param(p, c, l, owner) for p in ps) + "</PARAMS>"


def emit_layer(L: J, c: str) -> str:
    l = L["name"]
    tag = L["kind"]

    def hd(o: J) -> str:
        return f' ID={quoteattr(o["id"])}>' + _names(o["name"], marker(c, l, o["id"]))

    x = f"<{tag}" + hd(L)
    if L.get("fcs"):
        x += "<FUNCT-CLASSS>" + "".join(f"<FUNCT-CLASS{hd(o)}</FUNCT-CLASS>" for o in L["fcs"]) + \
            "</FUNCT-CLASSS>"
    d = ""
    if L.get("envdescs"):
        d += "<ENV-DATA-DESCS>"
        for o in L["envdescs"]:
            d += f"<ENV-DATA-DESC{hd(o)}<PARAM-SNREF SHORT-NAME=\"dtc\"/><ENV-DATA-REFS>" + \
                "".join(_ref("ENV-DATA", r) for r in o["envdatas"]) + \
                "</ENV-DATA-REFS></ENV-DATA-DESC>"
        d += "</ENV-DATA-DESCS>"
    if L.get("dops"):
        d += "<DATA-OBJECT-PROPS>"
        for o in L["dops"]:
            d += f"<DATA-OBJECT-PROP{hd(o)}<COMPU-METHOD><CATEGORY>IDENTICAL</CATEGORY></COMPU-METHOD>"
            if o.get("lk") is not None:
                d += ('<DIAG-CODED-TYPE BASE-DATA-TYPE="A_UINT32" '
                      'xsi:type="PARAM-LENGTH-INFO-TYPE">' + _ref("LENGTH-KEY", o["lk"]) +
                      "</DIAG-CODED-TYPE>")
            else:
                d += _DCT8
            d += '<PHYSICAL-TYPE BASE-DATA-TYPE="A_UINT32"/>' + _ref("UNIT", o.get("unit")) + \
                "</DATA-OBJECT-PROP>"
        d += "</DATA-OBJECT-PROPS>"
    if L.get("structs"):
        d += "<STRUCTURES>" + "".join(
            f"<STRUCTURE{hd(o)}" + _params(o["params"], c, l, o["id"]) + "</STRUCTURE>"
            for o in L["structs"]) + "</STRUCTURES>"
    sf = [o for o in L.get("fields", []) if o["t"] == "SFIELD"]
    if sf:
        d += "<STATIC-FIELDS>" + "".join(
            f"<STATIC-FIELD{hd(o)}" + _ref("BASIC-STRUCTURE", o["struct"]) +
            "<FIXED-NUMBER-OF-ITEMS>2</FIXED-NUMBER-OF-ITEMS><ITEM-BYTE-SIZE>1</ITEM-BYTE-SIZE>"
            "</STATIC-FIELD>" for o in sf) + "</STATIC-FIELDS>"
    ef = [o for o in L.get("fields", []) if o["t"] == "EOP"]
    if ef:
        d += "<END-OF-PDU-FIELDS>" + "".join(
            f"<END-OF-PDU-FIELD{hd(o)}" + _ref("BASIC-STRUCTURE", o["struct"]) +
            "</END-OF-PDU-FIELD>" for o in ef) + "</END-OF-PDU-FIELDS>"
    if L.get("muxes"):
        d += "<MUXS>"
        for o in L["muxes"]:
            d += f"<MUX{hd(o)}<BYTE-POSITION>1</BYTE-POSITION><SWITCH-KEY>" \
                 "<BYTE-POSITION>0</BYTE-POSITION>" + _ref("DATA-OBJECT-PROP", o["swkey"]) + \
                 "</SWITCH-KEY>"
            dc = o.get("default")
            if dc is not None:
                d += "<DEFAULT-CASE>" + _names(dc["name"], marker(c, l, o["id"] + "#case." + dc["name"])) + \
                    _ref("STRUCTURE", dc.get("struct")) + "</DEFAULT-CASE>"
            d += "<CASES>"
            for n, cs in enumerate(o["cases"]):
                d += "<CASE>" + _names(cs["name"], marker(c, l, o["id"] + "#case." + cs["name"])) + \
                    _ref("STRUCTURE", cs.get("struct")) + \
                    f"<LOWER-LIMIT>{n * 10}</LOWER-LIMIT><UPPER-LIMIT>{n * 10 + 5}</UPPER-LIMIT></CASE>"
            d += "</CASES></MUX>"
        d += "</MUXS>"
    if L.get("envdatas"):
        d += "<ENV-DATAS>" + "".join(
            f"<ENV-DATA{hd(o)}" + _params(o["params"], c, l, o["id"]) + "<ALL-VALUE/></ENV-DATA>"
            for o in L["envdatas"]) + "</ENV-DATAS>"
    if L.get("units") or L.get("pdims"):
        d += "<UNIT-SPEC><UNITS>"
        for o in L.get("units", []):
            d += f"<UNIT{hd(o)}<DISPLAY-NAME>u</DISPLAY-NAME>" + \
                _ref("PHYSICAL-DIMENSION", o.get("pdim")) + "</UNIT>"
        d += "</UNITS><PHYSICAL-DIMENSIONS>" + "".join(
            f"<PHYSICAL-DIMENSION{hd(o)}</PHYSICAL-DIMENSION>" for o in L.get("pdims", [])) + \
            "</PHYSICAL-DIMENSIONS></UNIT-SPEC>"
    if L.get("tables"):
        d += "<TABLES>"
        for o in L["tables"]:
            d += f"<TABLE{hd(o)}" + _ref("KEY-DOP", o.get("keydop"))
            for rw in o["rows"]:
                d += f"<TABLE-ROW{hd(rw)}<KEY>{rw['key']}</KEY>" + \
                    _ref("DATA-OBJECT-PROP", rw.get("dop")) + _ref("STRUCTURE", rw.get("struct")) + \
                    "</TABLE-ROW>"
            d += "</TABLE>"
        d += "</TABLES>"
    if d:
        x += "<DIAG-DATA-DICTIONARY-SPEC>" + d + "</DIAG-DATA-DICTIONARY-SPEC>"
    if L.get("services") or L.get("dcrefs"):
        x += "<DIAG-COMMS>"
        for o in L.get("services", []):
            x += f"<DIAG-SERVICE{hd(o)}"
            if o.get("fcs"):
                x += "<FUNCT-CLASS-REFS>" + "".join(_ref("FUNCT-CLASS", r) for r in o["fcs"]) + \
                    "</FUNCT-CLASS-REFS>"
            x += _ref("REQUEST", o["request"])
            if o.get("pos"):
                x += "<POS-RESPONSE-REFS>" + "".join(_ref("POS-RESPONSE", r) for r in o["pos"]) + \
                    "</POS-RESPONSE-REFS>"
            if o.get("neg"):
                x += "<NEG-RESPONSE-REFS>" + "".join(_ref("NEG-RESPONSE", r) for r in o["neg"]) + \
                    "</NEG-RESPONSE-REFS>"
            x += "</DIAG-SERVICE>"
        for r in L.get("dcrefs", []):
            x += _ref("DIAG-COMM", r)
        x += "</DIAG-COMMS>"
    for key, sec, tg in (("requests", "REQUESTS", "REQUEST"), ("pos", "POS-RESPONSES", "POS-RESPONSE"),
                         ("neg", "NEG-RESPONSES", "NEG-RESPONSE"),
                         ("gneg", "GLOBAL-NEG-RESPONSES", "GLOBAL-NEG-RESPONSE")):
        if L.get(key):
            x += f"<{sec}>" + "".join(
                f"<{tg}{hd(o)}" + _params(o["params"], c, l, o["id"]) + f"</{tg}>"
                for o in L[key]) + f"</{sec}>"
    if L.get("imports"):
        x += "<IMPORT-REFS>" + "".join(_ref("IMPORT", r) for r in L["imports"]) + "</IMPORT-REFS>"
    if L.get("cprefs"):
        x += "<COMPARAM-REFS>" + "".join(
            _ref("COMPARAM", r)[:-2] + f"><SIMPLE-VALUE>{n + 1}</SIMPLE-VALUE></COMPARAM-REF>"
            for n, r in enumerate(L["cprefs"])) + "</COMPARAM-REFS>"
    if L["kind"] == "PROTOCOL":
        x += _ref("COMPARAM-SPEC", L["cps"])
        if L.get("pstack"):
            x += f'<PROT-STACK-SNREF SHORT-NAME={quoteattr(L["pstack"])}/>'
    if L.get("parents"):
        x += "<PARENT-REFS>" + "".join(_parent_ref(r) for r in L["parents"]) + "</PARENT-REFS>"
    return x + f"</{tag}>"


def _parent_ref(r: J) -> str:
    x = _ref("PARENT", r, f' xsi:type="{r.get("xt", "BASE-VARIANT")}-REF"')
    ni = r.get("ni") or {}
    if not (ni.get("dops") or ni.get("tables")):
        return x
    x = x[:-2] + ">"
    if ni.get("dops"):
        x += "<NOT-INHERITED-DOPS>" + "".join(
            f"<NOT-INHERITED-DOP><DOP-BASE-SNREF SHORT-NAME={quoteattr(n)}/></NOT-INHERITED-DOP>"
            for n in ni["dops"]) + "</NOT-INHERITED-DOPS>"
    if ni.get("tables"):
        x += "<NOT-INHERITED-TABLES>" + "".join(
            f"<NOT-INHERITED-TABLE><TABLE-SNREF SHORT-NAME={quoteattr(n)}/></NOT-INHERITED-TABLE>"
            for n in ni["tables"]) + "</NOT-INHERITED-TABLES>"
    return x + "</PARENT-REF>"


def emit_doc(doc: J, reverse_layers: bool = False) -> str:
    c = doc["name"]
    layers = list(reversed(doc["layers"])) if reverse_layers else doc["layers"]
    x = HDR + f'<DIAG-LAYER-CONTAINER ID={quoteattr(doc.get("id", "DLC"))}>' + \
        _names(c, marker(c, "", doc.get("id", "DLC")))
    for kind, grp in GROUPS:
        ls = [L for L in layers if L["kind"] == kind]
        if ls:
            x += f"<{grp}>" + "".join(emit_layer(L, c) for L in ls) + f"</{grp}>"
    return x + "</DIAG-LAYER-CONTAINER></ODX>"


def emit_cps(cps: J) -> str:
    c = cps["name"]
    x = HDR + f'<COMPARAM-SPEC ID={quoteattr(cps["id"])}>' + _names(c, marker(c, "", cps["id"]))
    x += "<PROT-STACKS>"
    for ps in cps["stacks"]:
        x += f'<PROT-STACK ID={quoteattr(ps["id"])}>' + _names(ps["name"], marker(c, "", ps["id"])) + \
            "<PDU-PROTOCOL-TYPE>ISO_15765_3</PDU-PROTOCOL-TYPE>" \
            "<PHYSICAL-LINK-TYPE>ISO_11898_2_DWCAN</PHYSICAL-LINK-TYPE>" \
            "<COMPARAM-SUBSET-REFS/></PROT-STACK>"
    return x + "</PROT-STACKS></COMPARAM-SPEC></ODX>"


def emit_css(css: J) -> str:
    """a COMPARAM-SUBSET document (communication parameters COMPARAM-REFs point to)"""
    c = css["name"]
    dop_id = "CSS.dop"
    x = HDR + f'<COMPARAM-SUBSET ID={quoteattr(css["id"])} CATEGORY="TRANS">' + \
        _names(c, marker(c, "", css["id"])) + "<COMPARAMS>"
    for cp in css["comparams"]:
        x += (f'<COMPARAM ID={quoteattr(cp["id"])} PARAM-CLASS="COM" CPTYPE="STANDARD" '
              f'CPUSAGE="ECU-COMM">' + _names(cp["name"], marker(c, "", cp["id"])) +
              f'<PHYSICAL-DEFAULT-VALUE>{cp["default"]}</PHYSICAL-DEFAULT-VALUE>'
              f'<DATA-OBJECT-PROP-REF ID-REF={quoteattr(dop_id)}/></COMPARAM>')
    x += ("</COMPARAMS>" f'<DATA-OBJECT-PROPS><DATA-OBJECT-PROP ID={quoteattr(dop_id)}>'
          "<SHORT-NAME>dop_any</SHORT-NAME><COMPU-METHOD><CATEGORY>IDENTICAL</CATEGORY></COMPU-METHOD>"
          + _DCT8 + '<PHYSICAL-TYPE BASE-DATA-TYPE="A_UINT32"/></DATA-OBJECT-PROP></DATA-OBJECT-PROPS>')
    return x + "</COMPARAM-SUBSET></ODX>"


def emit_all(model: J, reverse_layers: bool = False) -> List[str]:
    """one XML string per document: containers first, then comparam specs and subsets"""
    return [emit_doc(d, reverse_layers) for d in model["docs"]] + \
        [emit_cps(s) for s in model.get("cps", [])] + [emit_css(s) for s in model.get("css", [])]


# ---------------------------------------------------------------------------
# reference sites


class Site:
    """one reference in the model"""
    __slots__ = ("key", "kind", "ref", "cont", "layer", "sncat", "plist", "tk", "owner", "where")

    def __init__(self, key: Tuple[str, str], kind: str, ref: J, cont: str, layer: str,
                 sncat: Optional[str] = None, plist: Optional[List[J]] = None,
                 tk: Optional[J] = None, owner: Optional[J] = None) -> None:
        self.key = key  # (referrer marker, slot)
        self.kind = kind
        self.ref = ref
        self.cont = cont
        self.layer = layer
        self.sncat = sncat  # namespace an SNREF is resolved in
        self.plist = plist  # enclosing parameter list
        self.tk = tk  # the TABLE-KEY parameter (for the row reference)
        self.owner = owner
        self.where = ""  # kind of object owning the parameter list (parameter references only)

    @property
    def label(self) -> str:
        """reference kind, qualified by where the referring parameter lives"""
        return self.kind + ("@" + self.where if self.where else "")

    @property
    def form(self) -> str:
        if self.ref["f"] == "sn":
            return "sn"
        if not self.ref.get("dr"):
            return "id-nodocref"
        return "id-docref-" + self.ref["dr"][0].lower()


def _param_sites(ps: List[J], c: str, l: str, owner: str, where: str) -> Iterator[Site]:
    for st in _param_sites0(ps, c, l, owner):
        st.where = where
        yield st


def _param_sites0(ps: List[J], c: str, l: str, owner: str) -> Iterator[Site]:
    for p in ps:
        pid = p.get("id")
        mk = marker(c, l, pid if pid else owner + "#" + p["name"])
        k = p["p"]
        if k in ("VALUE", "LENGTH-KEY"):
            yield Site((mk, "dop"), "DOP", p["dop"], c, l, sncat="dopbase", owner=p)
        elif k == "TABLE-KEY":
            if p.get("table") is not None:
                yield Site((mk, "table"), "TK-TABLE", p["table"], c, l, sncat="tables", owner=p)
            if p.get("row") is not None:
                yield Site((mk, "row"), "TK-ROW", p["row"], c, l, sncat="rows", tk=p, owner=p)
                if p.get("table") is None and p["row"]["f"] == "id":
                    # the table of a key that names only a row is the table owning that row
                    yield Site((mk, "table"), "TK-ROW-TABLE", p["row"], c, l, tk=p, owner=p)
        elif k == "TABLE-STRUCT":
            yield Site((mk, "key"), "TS-KEY", p["key"], c, l, sncat="params", plist=ps, owner=p)


def sites(model: J) -> List[Site]:
    out: List[Site] = []
    for doc in model["docs"]:
        c = doc["name"]
        for L in doc["layers"]:
            l = L["name"]
            lm = marker(c, l, L["id"])
            for n, r in enumerate(L.get("parents", [])):
                out.append(Site((lm, f"parent:{n}"), "PARENT", r, c, l))
            for n, r in enumerate(L.get("cprefs", [])):
                out.append(Site((lm, f"cp:{n}"), "COMPARAM", r, c, l))
            if L["kind"] == "PROTOCOL":
                out.append(Site((lm, "cps"), "COMPARAM-SPEC", L["cps"], c, l))
                if L.get("pstack"):
                    out.append(Site((lm, "pstack"), "PROT-STACK", rsn(L["pstack"]), c, l,
                                    sncat="pstacks", owner=L))
            for o in L.get("units", []):
                if o.get("pdim") is not None:
                    out.append(Site((marker(c, l, o["id"]), "pdim"), "PHYS-DIM", o["pdim"], c, l))
            for o in L.get("dops", []):
                m = marker(c, l, o["id"])
                if o.get("unit") is not None:
                    out.append(Site((m, "unit"), "UNIT", o["unit"], c, l))
                if o.get("lk") is not None:
                    out.append(Site((m, "lk"), "LENGTH-KEY", o["lk"], c, l))
            for o in L.get("structs", []):
                out.extend(_param_sites(o["params"], c, l, o["id"], "STRUCTURE"))
            for o in L.get("envdatas", []):
                out.extend(_param_sites(o["params"], c, l, o["id"], "ENV-DATA"))
            for o in L.get("fields", []):
                out.append(Site((marker(c, l, o["id"]), "struct"), "FIELD-STRUCT", o["struct"], c, l,
                                sncat="structs"))
            for o in L.get("muxes", []):
                m = marker(c, l, o["id"])
                out.append(Site((m, "swkey"), "SWITCH-KEY", o["swkey"], c, l))
                for cs in o["cases"]:
                    if cs.get("struct") is not None:
                        out.append(Site((marker(c, l, o["id"] + "#case." + cs["name"]), "struct"),
                                        "MUX-CASE", cs["struct"], c, l, sncat="structs"))
                dc = o.get("default")
                if dc is not None and dc.get("struct") is not None:
                    out.append(Site((marker(c, l, o["id"] + "#case." + dc["name"]), "struct"),
                                    "MUX-DEFAULT", dc["struct"], c, l, sncat="structs"))
            for o in L.get("envdescs", []):
                for n, r in enumerate(o["envdatas"]):
                    out.append(Site((marker(c, l, o["id"]), f"env:{n}"), "ENV-DATA", r, c, l))
            for o in L.get("tables", []):
                if o.get("keydop") is not None:
                    out.append(Site((marker(c, l, o["id"]), "keydop"), "KEY-DOP", o["keydop"], c, l))
                for rw in o["rows"]:
                    m = marker(c, l, rw["id"])
                    if rw.get("struct") is not None:
                        out.append(Site((m, "struct"), "ROW-STRUCTURE", rw["struct"], c, l,
                                        sncat="structs"))
                    if rw.get("dop") is not None:
                        out.append(Site((m, "dop"), "ROW-DOP", rw["dop"], c, l, sncat="dops"))
            for key, wh in (("requests", "REQUEST"), ("pos", "RESPONSE"), ("neg", "RESPONSE"),
                            ("gneg", "RESPONSE")):
                for o in L.get(key, []):
                    out.extend(_param_sites(o["params"], c, l, o["id"], wh))
            for o in L.get("services", []):
                m = marker(c, l, o["id"])
                out.append(Site((m, "req"), "REQUEST", o["request"], c, l))
                for n, r in enumerate(o.get("pos", [])):
                    out.append(Site((m, f"pos:{n}"), "POS-RESPONSE", r, c, l))
                for n, r in enumerate(o.get("neg", [])):
                    out.append(Site((m, f"neg:{n}"), "NEG-RESPONSE", r, c, l))
                for n, r in enumerate(o.get("fcs", [])):
                    out.append(Site((m, f"fc:{n}"), "FUNCT-CLASS", r, c, l))
            for n, r in enumerate(L.get("dcrefs", [])):
                out.append(Site((lm, f"dcref:{n}"), "DIAG-COMM", r, c, l))
    return out


SNREF_KINDS = ["DOP", "ROW-STRUCTURE", "ROW-DOP", "TK-TABLE", "TK-ROW", "TS-KEY", "MUX-CASE",
               "MUX-DEFAULT", "FIELD-STRUCT", "PROT-STACK"]
LAYER_SN_KINDS = ["DOP", "ROW-STRUCTURE", "ROW-DOP", "TK-TABLE", "MUX-CASE", "MUX-DEFAULT",
                  "FIELD-STRUCT"]
ID_KINDS = ["DOP", "REQUEST", "POS-RESPONSE", "NEG-RESPONSE", "ROW-STRUCTURE", "ROW-DOP",
            "TK-TABLE", "TK-ROW", "TS-KEY", "MUX-CASE", "MUX-DEFAULT", "FIELD-STRUCT", "PARENT",
            "FUNCT-CLASS", "UNIT", "PHYS-DIM", "LENGTH-KEY", "ENV-DATA", "KEY-DOP", "SWITCH-KEY",
            "COMPARAM-SPEC"]

# ---------------------------------------------------------------------------
# independent resolver


class Expect:
    __slots__ = ("accept", "raise_ok", "note")

    def __init__(self, accept: Iterable[str], raise_ok: bool = False, note: str = "") -> None:
        self.accept: Set[str] = set(accept)
        self.raise_ok = raise_ok  # the rule is unclear: raising is one accepted reading
        self.note = note

    @property
    def must_raise(self) -> bool:
        return not self.accept and not self.raise_ok

    @property
    def unresolvable(self) -> bool:
        return not self.accept


def _add(d: Dict[str, List[str]], k: str, v: str) -> None:
    lst = d.setdefault(k, [])
    if v not in lst:
        lst.append(v)


class Resolver:

    def __init__(self, model: J) -> None:
        self.model = model
        self.by_layer: Dict[str, Dict[str, List[str]]] = {}
        self.by_cont: Dict[str, Dict[str, List[str]]] = {}
        self.by_cps: Dict[str, Dict[str, List[str]]] = {}
        self.layer: Dict[str, J] = {}
        self.cont_of: Dict[str, str] = {}
        self.layer_of_marker: Dict[str, str] = {}  # layer marker -> layer name
        self.table_of_row: Dict[str, str] = {}  # row marker -> table marker
        self.table_obj: Dict[str, J] = {}  # table marker -> table
        self.cps_obj: Dict[str, J] = {}  # cps marker -> cps
        self.imports_unresolved = False
        for s in model.get("cps", []):
            fr = self.by_cps.setdefault(s["name"], {})
            _add(fr, s["id"], marker(s["name"], "", s["id"]))
            self.cps_obj[marker(s["name"], "", s["id"])] = s
            for ps in s["stacks"]:
                _add(fr, ps["id"], marker(s["name"], "", ps["id"]))
        self.by_css: Dict[str, Dict[str, List[str]]] = {}
        for s in model.get("css", []):
            fr = self.by_css.setdefault(s["name"], {})
            _add(fr, s["id"], marker(s["name"], "", s["id"]))
            for cp in s["comparams"]:
                _add(fr, cp["id"], marker(s["name"], "", cp["id"]))
        for doc in model["docs"]:
            c = doc["name"]
            cf = self.by_cont.setdefault(c, {})
            _add(cf, doc.get("id", "DLC"), marker(c, "", doc.get("id", "DLC")))
            for L in doc["layers"]:
                l = L["name"]
                self.layer[l] = L
                self.cont_of[l] = c
                lf = self.by_layer.setdefault(l, {})

                def reg(oid: str) -> str:
                    m = marker(c, l, oid)
                    _add(lf, oid, m)
                    _add(cf, oid, m)
                    return m

                self.layer_of_marker[reg(L["id"])] = l
                for key in ("fcs", "pdims", "units", "dops", "fields", "muxes", "envdescs",
                            "services"):
                    for o in L.get(key, []):
                        reg(o["id"])
                for key in ("structs", "envdatas", "requests", "pos", "neg", "gneg"):
                    for o in L.get(key, []):
                        reg(o["id"])
                        for p in o["params"]:
                            if p.get("id"):
                                reg(p["id"])
                for t in L.get("tables", []):
                    tm = reg(t["id"])
                    self.table_obj[tm] = t
                    for rw in t["rows"]:
                        self.table_of_row[reg(rw["id"])] = tm
        self._parents: Dict[str, List[Tuple[str, J]]] = {}
        self._views: Dict[str, Dict[str, Dict[str, List[str]]]] = {}

    # -- ODXLINK -----------------------------------------------------------
    def imports(self, l: str) -> List[str]:
        out = []
        for r in self.layer[l].get("imports", []):
            ms = self.resolve_id(r, l, use_imports=False)
            names = {self.layer_of_marker.get(m) for m in ms}
            if len(names) != 1 or None in names:
                self.imports_unresolved = True
                continue
            out.append(names.pop())
        return out  # type: ignore

    def resolve_id(self, ref: J, l: str, use_imports: bool = True) -> List[str]:
        i = ref["id"]
        dr = ref.get("dr")
        if dr:
            table = {"LAYER": self.by_layer, "CONTAINER": self.by_cont,
                     "COMPARAM-SPEC": self.by_cps, "COMPARAM-SUBSET": self.by_css}.get(dr[0], {})
            return list(table.get(dr[1], {}).get(i, []))
        loc = self.by_layer[l].get(i, [])
        if loc:
            return list(loc)
        cands: List[str] = []
        if use_imports:
            for s in self.imports(l):
                for m in self.by_layer[s].get(i, []):
                    if m not in cands:
                        cands.append(m)
        for m in self.by_cont[self.cont_of[l]].get(i, []):
            if m not in cands:
                cands.append(m)
        return cands

    # -- inheritance -------------------------------------------------------
    def parents(self, l: str) -> List[str]:
        return [p for p, _ in self.parent_refs(l)]

    def parent_refs(self, l: str) -> List[Tuple[str, J]]:
        """(parent layer, its PARENT-REF) in document order"""
        if l not in self._parents:
            out: List[Tuple[str, J]] = []
            for r in self.layer[l].get("parents", []):
                names = {self.layer_of_marker.get(m) for m in self.resolve_id(r, l)}
                if len(names) == 1 and None not in names:
                    out.append((names.pop(), r))  # type: ignore
            self._parents[l] = out
        return self._parents[l]

    def closure(self, l: str) -> List[str]:
        seen = [l]
        for p in self.parents(l):
            for x in self.closure(p):
                if x not in seen:
                    seen.append(x)
        return seen

    def view(self, l: str) -> Dict[str, Dict[str, List[str]]]:
        """category -> short name -> markers of the objects visible in layer l"""
        if l in self._views:
            return self._views[l]
        L = self.layer[l]
        c = self.cont_of[l]
        local: Dict[str, Dict[str, List[str]]] = {k: {} for k in
                                                   ("dops", "structs", "tables", "other")}
        for o in L.get("dops", []):
            local["dops"].setdefault(o["name"], []).append(marker(c, l, o["id"]))
        for o in L.get("structs", []):
            local["structs"].setdefault(o["name"], []).append(marker(c, l, o["id"]))
        for o in L.get("tables", []):
            local["tables"].setdefault(o["name"], []).append(marker(c, l, o["id"]))
        for key in ("fields", "muxes", "envdatas", "envdescs"):
            for o in L.get(key, []):
                local["other"].setdefault(o["name"], []).append(marker(c, l, o["id"]))
        v: Dict[str, Dict[str, List[str]]] = {}
        for cat in local:
            merged: Dict[str, List[str]] = {}
            for p, pref in self.parent_refs(l):
                # what this PARENT-REF (and only this one) declares NOT-INHERITED
                ni = (pref.get("ni") or {}).get("tables" if cat == "tables" else "dops", [])
                for name, ms in self.view(p)[cat].items():
                    if name in local[cat] or name in ni:
                        continue
                    for m in ms:
                        _add(merged, name, m)
            merged.update(local[cat])
            v[cat] = merged
        self._views[l] = v
        return v

    def lookup_sn(self, name: str, ctx: str, sncat: str) -> List[str]:
        v = self.view(ctx)
        if sncat == "dopbase":
            out: List[str] = []
            for cat in ("dops", "structs", "other"):
                out += v[cat].get(name, [])
            return out
        return list(v[sncat].get(name, []))

    def imported_names(self, l: str, name: str, sncat: str) -> List[str]:
        out: List[str] = []
        for s in self.imports(l):
            out += self.lookup_sn(name, s, sncat)
        return out

    # -- one site ----------------------------------------------------------
    def expect(self, st: Site, ctx: Optional[str] = None) -> Expect:
        """ctx: the layer whose view SNREFs are resolved in (default: the owning layer)"""
        ctx = ctx or st.layer
        ref = st.ref
        if ref["f"] == "id":
            ms = self.resolve_id(ref, st.layer)
            if st.kind == "TK-ROW-TABLE":
                ms = [self.table_of_row[m] for m in ms if m in self.table_of_row]
            return Expect(ms)
        name = ref["sn"]
        if st.sncat == "params":
            cs = [p for p in (st.plist or []) if p["name"] == name]
            if len(cs) == 1 and cs[0]["p"] == "TABLE-KEY":
                return Expect([marker(st.cont, st.layer, cs[0]["id"])])
            return Expect([])
        if st.sncat == "rows":
            # (several candidate tables only if the table reference itself is ambiguous by rule)
            acc: List[str] = []
            tms = self.tables_of_key(st, ctx)
            tref = (st.tk or {}).get("table")
            if not tms and tref is not None and tref["f"] == "sn":
                imp = self.imported_names(ctx, tref["sn"], "tables")
                if len(imp) == 1:  # table only visible through IMPORT-REF: unclear, see below
                    e = Expect([], raise_ok=True, note="snref-to-imported")
                    t = self.table_obj.get(imp[0])
                    c_, l_, _ = imp[0].split("/", 2)
                    rows = [marker(c_, l_, rw["id"]) for rw in (t or {"rows": []})["rows"]
                            if rw["name"] == name]
                    if len(rows) == 1:
                        e.accept = set(rows)
                    return e
            for tm in tms:
                t = self.table_obj.get(tm)
                if t is None:
                    continue
                c_, l_, _ = tm.split("/", 2)
                rows = [marker(c_, l_, rw["id"]) for rw in t["rows"] if rw["name"] == name]
                if len(rows) != 1:
                    return Expect([])
                acc += rows
            return Expect(acc)
        if st.sncat == "pstacks":
            cps = self.resolve_id(self.layer[st.layer]["cps"], st.layer)
            if len(cps) != 1 or cps[0] not in self.cps_obj:
                return Expect([])
            s = self.cps_obj[cps[0]]
            ps = [marker(s["name"], "", p["id"]) for p in s["stacks"] if p["name"] == name]
            return Expect(ps if len(ps) == 1 else [])
        ms = self.lookup_sn(name, ctx, st.sncat or "dopbase")
        if len(ms) == 1:
            return Expect(ms)
        if not ms:
            imp = self.imported_names(ctx, name, st.sncat or "dopbase")
            if len(imp) == 1:
                # is an object that is only IMPORTed visible to short-name references?  The
                # rule text can be read either way.
                return Expect(imp, raise_ok=True, note="snref-to-imported")
        return Expect([])

    def tables_of_key(self, st: Site, ctx: str) -> List[str]:
        """the table(s) a TABLE-KEY is bound to (through TABLE-(SN)REF or its row)"""
        tk = st.tk or {}
        tref = tk.get("table")
        if tref is not None:
            if tref["f"] == "id":
                return self.resolve_id(tref, st.layer)
            return self.lookup_sn(tref["sn"], ctx, "tables")
        rref = tk.get("row")
        if rref is not None and rref["f"] == "id":
            return [self.table_of_row[m] for m in self.resolve_id(rref, st.layer)
                    if m in self.table_of_row]
        return []


# ---------------------------------------------------------------------------
# generator

BASES = {
    "DOP": ["DOP.x", "DOP.y", "DOP.only"],
    "ST": ["ST.x", "ST.only"],
    "TAB": ["TAB.x", "TAB.only"],
    "ROW": ["TAB.x.r1", "TAB.x.r2", "TAB.only.r1", "TAB.only.r2"],
    "FNC": ["FNC.x"],
    "UNIT": ["UNIT.x"],
    "PDIM": ["PDIM.x"],
    "ENV": ["ENV.x"],
    "RQ": ["RQ.x"],
    "PR": ["PR.x"],
    "NR": ["NR.x"],
    "LK": ["RQ.x.lk"],
    "TK": ["RQ.x.tk"],
}
IMP_CATS = {"DOP": ["DOP.x"], "ST": ["ST.x"], "TAB": ["TAB.x"], "ROW": ["TAB.x.r1", "TAB.x.r2"],
            "FNC": ["FNC.x"], "UNIT": ["UNIT.x"]}
NAME_OF_BASE = {"DOP.x": "dop_x", "DOP.y": "dop_y", "DOP.only": "dop_only", "ST.x": "st_x",
                "ST.only": "st_only", "TAB.x": "tab_x", "TAB.only": "tab_only"}


class Topo:
    """who is where, before any content exists"""

    def __init__(self) -> None:
        self.layers: List[J] = []  # {"name","kind","cont","slot","parents":[names],"imports":[names]}
        self.conts: List[str] = []
        self.dup = False
        # one kind of field per database: an inherited STATIC-FIELD and a local END-OF-PDU-FIELD
        # of the same short name are a value-inheritance question (C09), not a C10 one
        self.field_kind = "SFIELD"
        self.ni: Dict[Tuple[str, str], Dict[str, List[str]]] = {}  # (child, parent) -> lists

    def visible_only(self, t: J, stem: str) -> List[str]:
        """the <stem>_only_* names visible in t after inheritance (NOT-INHERITED applied)"""
        out = [f"{stem}_only_{t['name']}"]
        for pn in t["parents"]:
            ni = self.ni.get((t["name"], pn), {}).get("tables" if stem == "tab" else "dops", [])
            for n in self.visible_only(self.get(pn), stem):
                if n not in ni and n not in out:
                    out.append(n)
        return out

    def get(self, name: str) -> J:
        return next(t for t in self.layers if t["name"] == name)

    def in_cont(self, c: str) -> List[J]:
        return [t for t in self.layers if t["cont"] == c]

    def pre(self, t: J) -> str:
        return "" if self.dup else f"L{t['slot']}."

    def oid(self, t: J, base: str) -> str:
        if base.startswith("IMP."):
            return base
        if "only" in base:
            return base.replace("only", "only_" + t["name"])
        return self.pre(t) + base

    def lid(self, t: J) -> str:
        return f"DL{t['slot']}"  # unique inside a container, colliding across containers

    def ancestors(self, t: J) -> List[J]:
        out: List[J] = []
        for p in t["parents"]:
            pt = self.get(p)
            if pt not in out:
                out.append(pt)
            for a in self.ancestors(pt):
                if a not in out:
                    out.append(a)
        return out


def make_topology(r: random.Random, force_leak: bool = False) -> Topo:
    for _ in range(200):
        tp = Topo()
        tp.dup = r.random() < 0.5
        tp.field_kind = r.choice(["SFIELD", "EOP"])
        ncont = r.choice([2, 2, 3])
        tp.conts = [f"c{i}" for i in range(ncont)]
        roles: List[Tuple[str, str]] = []
        if r.random() < 0.5:
            roles.append(("PROTOCOL", "pr"))
        for i in range(r.choice([1, 1, 2])):
            roles.append(("ECU-SHARED-DATA", f"sd{i}"))
        nbv = r.choice([1, 2, 2])
        for i in range(nbv):
            roles.append(("BASE-VARIANT", f"bv{i}"))
        for i in range(r.choice([1, 2, 3])):
            roles.append(("ECU-VARIANT", f"ev{i}"))
        lo, hi = 2 * ncont, 4 * ncont
        while len(roles) < lo:
            roles.append(("ECU-VARIANT", f"ev{len(roles)}"))
        roles = roles[:hi]
        # distribute over the containers: 2..4 layers each
        cnt = {c: 0 for c in tp.conts}
        order = list(roles)
        r.shuffle(order)
        assign: Dict[str, str] = {}
        for n, (_, nm) in enumerate(order):
            need = [c for c in tp.conts if cnt[c] < 2]
            remaining = len(order) - n
            short = sum(2 - cnt[c] for c in need)
            pool = need if short >= remaining else [c for c in tp.conts if cnt[c] < 4]
            if not pool:
                break
            c = r.choice(pool)
            assign[nm] = c
            cnt[c] += 1
        if len(assign) != len(order) or any(v < 2 for v in cnt.values()):
            continue
        slot = {c: 0 for c in tp.conts}
        for kind, nm in roles:
            c = assign[nm]
            tp.layers.append({"name": nm, "kind": kind, "cont": c, "slot": slot[c], "parents": [],
                              "imports": []})
            slot[c] += 1
        bvs = [t for t in tp.layers if t["kind"] == "BASE-VARIANT"]
        sds = [t for t in tp.layers if t["kind"] == "ECU-SHARED-DATA"]
        prs = [t for t in tp.layers if t["kind"] == "PROTOCOL"]
        for t in tp.layers:
            if t["kind"] == "ECU-VARIANT":
                t["parents"].append(r.choice(bvs)["name"])
            if t["kind"] == "BASE-VARIANT":
                if prs and r.random() < 0.7:
                    t["parents"].append(prs[0]["name"])
                if r.random() < 0.3:
                    t["parents"].append(r.choice(sds)["name"])
            if t["kind"] != "ECU-SHARED-DATA" and r.random() < 0.5:
                s = r.choice(sds)
                if s["name"] not in t["parents"]:
                    t["imports"].append(s["name"])
        # NOT-INHERITED lists of some PARENT-REFs: names the parent offers (they are hidden from
        # the child and its descendants unless another parent offers them too) and names that only
        # ANOTHER parent offers (no effect at all: a list belongs to its PARENT-REF)
        for t in tp.layers:
            for pn in t["parents"]:
                if r.random() >= 0.4:
                    continue
                p = tp.get(pn)
                through = [p] + tp.ancestors(p)
                others = [a for q in t["parents"] if q != pn
                          for a in [tp.get(q)] + tp.ancestors(tp.get(q)) if a not in through]
                lst: Dict[str, List[str]] = {"dops": [], "tables": []}
                for _ in range(r.choice([1, 1, 2])):
                    src = r.choice(others) if others and r.random() < 0.5 else r.choice(through)
                    stem = r.choice(["dop", "dop", "st", "tab"])
                    nm = f"{stem}_only_{src['name']}"
                    key = "tables" if stem == "tab" else "dops"
                    if nm not in lst[key]:
                        lst[key].append(nm)
                tp.ni[(t["name"], pn)] = lst
        if force_leak and not leak_pairs(tp):
            # make one: importer A and a non-importing sibling B in one container, S elsewhere
            ok = False
            for c in tp.conts:
                ls = [t for t in tp.in_cont(c) if t["kind"] != "ECU-SHARED-DATA"]
                ss = [s for s in sds if s["cont"] != c]
                if len(ls) >= 2 and ss and not any(s["cont"] == c for s in sds):
                    a, b = r.sample(ls, 2)
                    s = r.choice(ss)
                    if s["name"] in a["parents"] or any(
                            s["name"] == x["name"] for x in tp.ancestors(b)):
                        continue
                    a["imports"] = [s["name"]]
                    b["imports"] = []
                    ok = True
                    break
            if not ok:
                continue
        return tp
    raise RuntimeError("no topology")


def leak_pairs(tp: Topo) -> List[Tuple[J, J, J]]:
    """(A, B, S): A imports S, B is a sibling of A in the same container that neither imports
    nor inherits from nor shares a container with any shared-data layer offering the IMP ids"""
    out = []
    sds = [t for t in tp.layers if t["kind"] == "ECU-SHARED-DATA"]
    for a in tp.layers:
        for sn in a["imports"]:
            s = tp.get(sn)
            for b in tp.in_cont(a["cont"]):
                if b is a or b["kind"] == "ECU-SHARED-DATA" or b["imports"]:
                    continue
                if any(x["cont"] == b["cont"] for x in sds):
                    continue
                out.append((a, b, s))
    return out


class Builder:

    def __init__(self, r: random.Random, tp: Topo, unclear: bool = False) -> None:
        self.r = r
        self.tp = tp
        self.unclear = unclear
        # importers that also define the "IMP" IDs / names locally (local definitions win); leaf
        # layers only, so that no question of inheritance priority arises (that is C09)
        self.shadow = {t["name"]: (bool(t["imports"]) and t["kind"] == "ECU-VARIANT" and
                                   r.random() < 0.4) for t in tp.layers}

    # -- choosing references ----------------------------------------------
    def id_ref(self, t: J, cat: str, variants: Optional[Sequence[str]] = None) -> J:
        r, tp = self.r, self.tp
        bases = BASES[cat]
        opts = ["local", "local", "layer", "layer", "container"]
        sibs = [x for x in tp.in_cont(t["cont"]) if x is not t]
        if not tp.dup and sibs:
            opts.append("sibling")
        if t["imports"] and cat in IMP_CATS:
            opts += ["imported", "imported"]
        if variants:
            opts = [o for o in opts if o in variants] or ["local"]
        v = r.choice(opts)
        if v == "local":
            return rid(tp.oid(t, r.choice(bases)))
        if v == "layer":
            x = r.choice(tp.layers)
            return rid(tp.oid(x, r.choice(bases)), ["LAYER", x["name"]])
        if v == "container":
            x = r.choice(tp.layers)
            only = [b for b in bases if "only" in b]
            b = r.choice(only) if (tp.dup and only and r.random() < 0.8) else r.choice(bases)
            return rid(tp.oid(x, b), ["CONTAINER", x["cont"]])
        if v == "sibling":
            x = r.choice(sibs)
            return rid(tp.oid(x, r.choice(bases)))
        return rid("IMP." + r.choice(IMP_CATS[cat]))

    def visible_names(self, t: J, cat: str) -> List[str]:
        """short names of category DOP / ST / TAB visible in t after inheritance"""
        stem = {"DOP": "dop", "ST": "st", "TAB": "tab"}[cat]
        out = [f"{stem}_x"] + self.tp.visible_only(t, stem)
        if cat == "DOP":
            out.insert(2, "dop_y")
        for a in self.tp.ancestors(t):
            if a["kind"] == "ECU-SHARED-DATA":
                out.append(f"{stem}_imp")
        if t["kind"] == "ECU-SHARED-DATA" or self.shadow[t["name"]]:
            out.append(f"{stem}_imp")
        return out

    def sn_ref(self, t: J, cat: str, common: float = 0.0) -> J:
        names = self.visible_names(t, cat)
        if self.r.random() < common:
            names = names[:1] + (["dop_y"] if cat == "DOP" else [])
        stem = {"DOP": "dop", "ST": "st", "TAB": "tab"}[cat]
        if self.unclear and t["imports"] and f"{stem}_imp" not in names and self.r.random() < 0.5:
            return rsn(f"{stem}_imp")
        return rsn(self.r.choice(names))

    def ref(self, t: J, cat: str, sn: bool = True, p_sn: float = 0.4) -> J:
        if sn and cat in ("DOP", "ST", "TAB") and self.r.random() < p_sn:
            return self.sn_ref(t, cat)
        return self.id_ref(t, cat)

    # -- content -----------------------------------------------------------
    def dop_objs(self, t: J, imp: bool) -> List[J]:
        tp = self.tp
        out = []
        if imp:
            out.append({"id": "IMP.DOP.x", "name": "dop_imp", "unit": None})
            return out
        for b in BASES["DOP"]:
            nm = NAME_OF_BASE[b] + ("_" + t["name"] if "only" in b else "")
            out.append({"id": tp.oid(t, b), "name": nm,
                        "unit": self.id_ref(t, "UNIT") if self.r.random() < 0.7 else None})
        out.append({"id": tp.oid(t, "DOP.plen"), "name": "dop_plen", "unit": None,
                    "lk": self.id_ref(t, "LK")})
        return out

    def struct(self, t: J, oid: str, name: str) -> J:
        return {"id": oid, "name": name, "params": [
            {"p": "VALUE", "name": "a", "byte": 0, "dop": self.ref(t, "DOP")},
            {"p": "VALUE", "name": "b", "byte": 1, "dop": self.ref(t, "DOP")}]}

    def table(self, t: J, oid: str, name: str) -> J:
        rows = []
        for n, rn in enumerate(("r1", "r2")):
            rw: J = {"id": f"{oid}.{rn}", "name": rn, "key": n + 1}
            if self.r.random() < 0.5:
                rw["struct"] = self.ref(t, "ST")
            else:
                rw["dop"] = self.ref(t, "DOP")
            rows.append(rw)
        return {"id": oid, "name": name,
                "keydop": self.id_ref(t, "DOP") if self.r.random() < 0.8 else None, "rows": rows}

    def table_key(self, t: J, oid: str, name: str, byte: int) -> J:
        r = self.r
        p: J = {"p": "TABLE-KEY", "name": name, "id": oid, "byte": byte}
        x = r.random()
        if x < 0.3:
            p["row"] = self.id_ref(t, "ROW")
        elif x < 0.6:
            p["table"] = self.ref(t, "TAB", p_sn=0.5)
        else:
            p["table"] = self.ref(t, "TAB", p_sn=0.5)
            p["row"] = rsn(r.choice(["r1", "r2"]))
        return p

    def message(self, t: J, oid: str, name: str, sid: int, rich: bool) -> J:
        r = self.r
        ps: List[J] = [{"p": "CODED-CONST", "name": "sid", "byte": 0, "value": sid}]
        if rich:
            ps.append({"p": "LENGTH-KEY", "name": "lk", "id": oid + ".lk", "byte": 1,
                       "dop": self.id_ref(t, "DOP") if r.random() < 0.6 else self.sn_ref(t, "DOP")})
            ps.append(self.table_key(t, oid + ".tk", "tk", 2))
            ps.append({"p": "TABLE-STRUCT", "name": "ts", "byte": 3,
                       "key": rsn("tk") if r.random() < 0.5 else self.id_ref(t, "TK")})
            ps.append({"p": "VALUE", "name": "p_plen", "byte": 4,
                       "dop": rid(self.tp.oid(t, "DOP.plen"))})
            ps.append({"p": "VALUE", "name": "p_mux", "byte": 8,
                       "dop": rsn("mux_x") if r.random() < 0.5 else rid(self.tp.oid(t, "MUX.x"))})
            ps.append({"p": "VALUE", "name": "p_fld", "byte": 20,
                       "dop": rsn("fld_x") if r.random() < 0.5 else rid(self.tp.oid(t, "FLD.x"))})
        else:
            ps.append({"p": "VALUE", "name": "p_st", "byte": 1,
                       "dop": self.ref(t, "ST", p_sn=0.5)})
        ps.append({"p": "VALUE", "name": "p_dop", "byte": 30, "dop": self.ref(t, "DOP", p_sn=0.5)})
        return {"id": oid, "name": name, "params": ps}

    def layer(self, t: J) -> J:
        r, tp = self.r, self.tp
        o = lambda b: tp.oid(t, b)  # noqa: E731
        L: J = {"kind": t["kind"], "name": t["name"], "id": tp.lid(t), "parents": [], "imports": []}
        for pn in t["parents"]:
            p = tp.get(pn)
            same = p["cont"] == t["cont"]
            # (a layer that imports gets the IDs of the imported layer -- including that layer's
            # own ID, which collides with a sibling's -- so its PARENT-REFs carry a DOCREF)
            v = r.choice(["none", "layer", "container"]) if same and not t["imports"] \
                else r.choice(["layer", "container"])
            dr = None if v == "none" else (["LAYER", p["name"]] if v == "layer"
                                           else ["CONTAINER", p["cont"]])
            pr = rid(tp.lid(p), dr)
            pr["xt"] = p["kind"]
            if (t["name"], pn) in tp.ni:
                pr["ni"] = tp.ni[(t["name"], pn)]
            L["parents"].append(pr)
        for sn in t["imports"]:
            s = tp.get(sn)
            same = s["cont"] == t["cont"]
            v = r.choice(["none", "layer", "container"]) if same else r.choice(["layer", "container"])
            dr = None if v == "none" else (["LAYER", s["name"]] if v == "layer"
                                           else ["CONTAINER", s["cont"]])
            L["imports"].append(rid(tp.lid(s), dr))
        L["fcs"] = [{"id": o("FNC.x"), "name": "fc_x"}]
        L["pdims"] = [{"id": o("PDIM.x"), "name": "pdim_x"}]
        L["units"] = [{"id": o("UNIT.x"), "name": "unit_x", "pdim": self.id_ref(t, "PDIM")}]
        L["dops"] = self.dop_objs(t, False)
        L["structs"] = [self.struct(t, o("ST.x"), "st_x"),
                        self.struct(t, o("ST.only"), "st_only_" + t["name"])]
        L["fields"] = [{"id": o("FLD.x"), "name": "fld_x", "t": tp.field_kind,
                        "struct": self.ref(t, "ST")}]
        L["muxes"] = [{"id": o("MUX.x"), "name": "mux_x", "swkey": self.id_ref(t, "DOP"),
                       "cases": [{"name": "c1", "struct": self.ref(t, "ST")},
                                 {"name": "c2", "struct": self.ref(t, "ST")}],
                       "default": {"name": "dflt", "struct": self.ref(t, "ST")}
                       if r.random() < 0.7 else None}]
        L["envdatas"] = [{"id": o("ENV.x"), "name": "env_x", "params": [
            {"p": "VALUE", "name": "e", "byte": 0,
             "dop": self.sn_ref(t, "DOP", common=0.85) if r.random() < 0.4
             else self.id_ref(t, "DOP")}]}]
        L["envdescs"] = [{"id": o("EDD.x"), "name": "edd_x",
                          "envdatas": [self.id_ref(t, "ENV", ["local"]),
                                       self.id_ref(t, "ENV") if r.random() < 0.35
                                       else self.id_ref(t, "ENV", ["local"])]}]
        L["tables"] = [self.table(t, o("TAB.x"), "tab_x"),
                       self.table(t, o("TAB.only"), "tab_only_" + t["name"])]
        L["requests"] = [self.message(t, o("RQ.x"), "rq_x", 0x10, True)]
        L["pos"] = [self.message(t, o("PR.x"), "pr_x", 0x50, r.random() < 0.3)]
        L["neg"] = [self.message(t, o("NR.x"), "nr_x", 0x7F, False)]
        if r.random() < 0.5:
            # references inside a global negative response are resolved like any others
            L["gneg"] = [self.message(t, o("GNR.x"), "gnr_x", 0x7F, False)]
        L["services"] = [{"id": o("SVC.x"), "name": "svc_x", "request": self.id_ref(t, "RQ"),
                          "pos": [self.id_ref(t, "PR")], "neg": [self.id_ref(t, "NR")],
                          "fcs": [self.id_ref(t, "FNC")]}]
        if t["kind"] == "ECU-SHARED-DATA" or self.shadow[t["name"]]:
            # objects whose IDs exist only in shared-data layers (and in shadowing importers)
            L["dops"] += self.dop_objs(t, True)
            L["structs"].append(self.struct(t, "IMP.ST.x", "st_imp"))
            L["tables"].append(self.table(t, "IMP.TAB.x", "tab_imp"))
            L["fcs"].append({"id": "IMP.FNC.x", "name": "fc_imp"})
            L["units"].append({"id": "IMP.UNIT.x", "name": "unit_imp", "pdim": None})
        if t["kind"] == "PROTOCOL":
            L["cps"] = None  # filled by generate()
        return L


def generate(r: random.Random, force_leak: bool = False, unclear: bool = False) -> Tuple[J, Topo]:
    tp = make_topology(r, force_leak)
    b = Builder(r, tp, unclear)
    model: J = {"dup": tp.dup, "cps": [], "docs": [], "fault": None}
    ncps = r.choice([1, 2])
    for i in range(ncps):
        model["cps"].append({"name": f"cps{i}", "id": "CPS.spec",
                             "stacks": [{"id": "PS.x", "name": "ps_x"},
                                        {"id": "PS.y", "name": "ps_y"}]})
    # communication parameter subsets: the same local IDs in every document (the DOCREF of a
    # COMPARAM-REF says which one is meant)
    for i in range(r.choice([1, 2, 2])):
        model.setdefault("css", []).append(
            {"name": f"css{i}", "id": "CSS.sub",
             "comparams": [{"id": "CP.x", "name": "cp_x", "default": str(10 + i)},
                           {"id": "CP.y", "name": "cp_y", "default": str(20 + i)}]})
    for c in tp.conts:
        layers = []
        for t in tp.in_cont(c):
            L = b.layer(t)
            if t["kind"] != "ECU-SHARED-DATA" and r.random() < 0.6:
                L["cprefs"] = [rid(r.choice(["CP.x", "CP.y"]),
                                   ["COMPARAM-SUBSET", r.choice(model["css"])["name"]])
                               for _ in range(r.choice([1, 2, 3]))]
            if t["kind"] == "PROTOCOL":
                L["cps"] = rid("CPS.spec", ["COMPARAM-SPEC", r.choice(model["cps"])["name"]])
                L["pstack"] = r.choice(["ps_x", "ps_y"])
            layers.append(L)
        r.shuffle(layers)
        model["docs"].append({"name": c, "id": "DLC", "layers": layers})
    return model, tp


def _walk_refs(o: Any) -> Iterator[J]:
    if isinstance(o, dict):
        if o.get("f") == "id" and "id" in o:
            yield o
        for v in o.values():
            yield from _walk_refs(v)
    elif isinstance(o, list):
        for v in o:
            yield from _walk_refs(v)


def add_second_import(r: random.Random, model: J, tp: Topo) -> bool:
    """Model transformation: one importing layer gets a second IMPORT-REF.  The newly imported
    library s2 (imported by nobody else) has its import-only IDs renamed IMP.* -> IMP2.*, and
    some of the importer's DOCREF-less references are re-pointed to the IMP2 objects, so that
    the importer depends on *both* libraries.  The expectations follow from the model through
    the generic resolver.  Returns False if the topology has no suitable layers."""
    sds = [t for t in tp.layers if t["kind"] == "ECU-SHARED-DATA"]
    if len(sds) < 2:
        return False
    imported = {n for t in tp.layers for n in t["imports"]}
    cands = []
    for t in tp.layers:
        if t["kind"] == "ECU-SHARED-DATA" or len(t["imports"]) != 1:
            continue
        Lt = _layer_of(model, t["name"])
        if any(o["id"].startswith("IMP.") for o in Lt["dops"]):
            continue  # shadowing importer
        anc = {a["name"] for a in tp.ancestors(t)}
        for s2 in sds:
            if s2["name"] not in imported and s2["name"] not in anc and s2["name"] != t["imports"][0]:
                cands.append((t, s2))
    if not cands:
        return False
    t, s2 = r.choice(cands)
    L2 = _layer_of(model, s2["name"])
    def rename(o: Any) -> None:
        if isinstance(o, dict):
            if "f" not in o and isinstance(o.get("id"), str) and o["id"].startswith("IMP."):
                o["id"] = "IMP2." + o["id"][4:]   # a definition (objects, table rows, keys)
            for v in o.values():
                rename(v)
        elif isinstance(o, list):
            for v in o:
                rename(v)

    rename({k: v for k, v in L2.items() if k not in ("parents", "imports", "id")})
    for ref in _walk_refs({k: v for k, v in L2.items() if k not in ("parents", "imports")}):
        if ref["id"].startswith("IMP.") and not ref.get("dr"):
            ref["id"] = "IMP2." + ref["id"][4:]
    Lt = _layer_of(model, t["name"])
    dr = r.choice([["LAYER", s2["name"]], ["CONTAINER", s2["cont"]]])
    Lt["imports"].insert(r.randrange(0, 2), rid(tp.lid(s2), dr))
    t["imports"].append(s2["name"])
    n = 0
    for ref in _walk_refs({k: v for k, v in Lt.items() if k not in ("parents", "imports")}):
        if ref["id"].startswith("IMP.") and not ref.get("dr") and r.random() < 0.5:
            ref["id"] = "IMP2." + ref["id"][4:]
            n += 1
    model["second_import"] = {"importer": t["name"], "library": s2["name"], "repointed": n}
    return True


# ---------------------------------------------------------------------------
# fault injection: exactly one reference becomes unresolvable

FAULTS = ["dangling-id", "dangling-sn", "docref-lacks-id", "ambiguous-sn", "leak"]


def _layer_of(model: J, name: str) -> J:
    for d in model["docs"]:
        for L in d["layers"]:
            if L["name"] == name:
                return L
    raise KeyError(name)


def inject(r: random.Random, model: J, tp: Topo, fclass: str) -> Optional[J]:
    """Mutate the model in place; returns the fault record or None if not applicable."""
    sts = sites(model)
    r.shuffle(sts)
    if fclass == "leak":
        pairs = leak_pairs(tp)
        if not pairs:
            return None
        a, b, s = r.choice(pairs)
        if any(_has_imp(model, x["name"]) for x in tp.in_cont(b["cont"])):
            return None  # the IMP ids would be visible through the container
        variant = r.choice(["id-imported-by-sibling", "id-imported-by-sibling", "docref-to-importer"])
        cats = {"DOP": "DOP", "ROW-STRUCTURE": "ST", "ROW-DOP": "DOP", "TK-TABLE": "TAB",
                "TK-ROW": "ROW", "MUX-CASE": "ST", "FIELD-STRUCT": "ST", "FUNCT-CLASS": "FNC",
                "UNIT": "UNIT", "KEY-DOP": "DOP", "SWITCH-KEY": "DOP", "MUX-DEFAULT": "ST"}
        for st in sts:
            if st.layer != b["name"] or st.kind not in cats or st.ref["f"] != "id":
                continue
            if st.kind == "TK-ROW" and st.tk and st.tk.get("table") is not None:
                continue
            if st.kind == "TK-TABLE" and st.owner and st.owner.get("row") is not None:
                continue  # (the row reference would become unresolvable as well)
            if st.kind == "TK-ROW" and variant == "docref-to-importer":
                continue  # (two sites share this reference)
            i = "IMP." + r.choice(IMP_CATS[cats[st.kind]])
            st.ref["id"] = i
            st.ref["dr"] = ["LAYER", a["name"]] if variant == "docref-to-importer" else None
            return {"class": "leak", "variant": variant, "kind": st.kind, "key": list(st.key),
                    "importer": a["name"], "victim": b["name"], "shared": s["name"]}
        return None
    for st in sts:
        t = tp.get(st.layer) if any(x["name"] == st.layer for x in tp.layers) else None
        if t is None:
            continue
        if fclass == "dangling-id":
            if st.ref["f"] != "id" or st.kind in ("PARENT", "COMPARAM-SPEC"):
                continue
            others = [x for x in tp.layers if x["cont"] != t["cont"] and
                      x["name"] not in t["imports"]]
            variant = r.choice(["nowhere", "other-container"] if others else ["nowhere"])
            if variant == "nowhere":
                st.ref["id"] = "NOPE." + st.ref["id"]
                st.ref["dr"] = None if r.random() < 0.5 else st.ref.get("dr")
            else:
                x = r.choice(others)
                base = {"DOP": "DOP.only", "ROW-DOP": "DOP.only", "KEY-DOP": "DOP.only",
                        "SWITCH-KEY": "DOP.only", "ROW-STRUCTURE": "ST.only", "MUX-CASE": "ST.only",
                        "MUX-DEFAULT": "ST.only", "FIELD-STRUCT": "ST.only",
                        "TK-TABLE": "TAB.only", "TK-ROW": "TAB.only.r1"}.get(st.kind)
                if base is None:
                    continue
                st.ref["id"] = tp.oid(x, base)
                st.ref["dr"] = None
            return {"class": fclass, "variant": variant, "kind": st.kind, "key": list(st.key)}
        if fclass == "dangling-sn":
            if st.ref["f"] != "sn" or st.kind not in LAYER_SN_KINDS + ["TK-ROW", "TS-KEY", "PROT-STACK"]:
                continue
            stem = {"dopbase": "dop", "dops": "dop", "structs": "st", "tables": "tab"}.get(st.sncat or "")
            anc = [a["name"] for a in tp.ancestors(t)] + [t["name"]]
            unrelated = [x for x in tp.layers if x["name"] not in anc and
                         x["name"] not in t["imports"]]
            hidden = [] if not stem else [
                f"{stem}_only_{a['name']}" for a in tp.ancestors(t)
                if f"{stem}_only_{a['name']}" not in tp.visible_only(t, stem) and
                a["name"] not in t["imports"]]  # (IMPORTed as well: the unclear reading)
            if hidden and r.random() < 0.7:
                variant = "hidden-by-not-inherited"
                st.ref["sn"] = r.choice(hidden)
            elif stem and unrelated and r.random() < 0.6:
                variant = "unrelated-layer"
                st.ref["sn"] = f"{stem}_only_{r.choice(unrelated)['name']}"
            else:
                variant = "nowhere"
                st.ref["sn"] = "nope_" + st.ref["sn"]
            if st.kind == "PROT-STACK":
                _layer_of(model, st.layer)["pstack"] = st.ref["sn"]
            return {"class": fclass, "variant": variant, "kind": st.kind, "key": list(st.key)}
        if fclass == "docref-lacks-id":
            if st.ref["f"] != "id" or st.kind in ("PARENT", "COMPARAM-SPEC"):
                continue
            base = {"DOP": "DOP.only", "ROW-DOP": "DOP.only", "KEY-DOP": "DOP.only",
                    "SWITCH-KEY": "DOP.only", "ROW-STRUCTURE": "ST.only", "MUX-CASE": "ST.only",
                    "MUX-DEFAULT": "ST.only", "FIELD-STRUCT": "ST.only", "TK-TABLE": "TAB.only",
                    "TK-ROW": "TAB.only.r1"}.get(st.kind)
            if base is None:
                continue
            variant = r.choice(["layer-lacks", "container-lacks", "ghost-fragment"])
            st.ref["id"] = tp.oid(t, base)  # exists in the referring layer ...
            if variant == "layer-lacks":
                x = r.choice([x for x in tp.layers if x is not t])
                st.ref["dr"] = ["LAYER", x["name"]]  # ... but not in the fragment named
            elif variant == "container-lacks":
                st.ref["dr"] = ["CONTAINER", r.choice([c for c in tp.conts if c != t["cont"]])]
            else:
                st.ref["dr"] = [r.choice(["LAYER", "CONTAINER"]), "ghost"]
            return {"class": fclass, "variant": variant, "kind": st.kind, "key": list(st.key)}
        if fclass == "ambiguous-sn":
            if st.ref["f"] != "sn":
                continue
            L = _layer_of(model, st.layer)
            name = st.ref["sn"]
            hier = L["kind"] != "ECU-SHARED-DATA"
            if st.kind == "TS-KEY":
                twin = copy.deepcopy(next(p for p in st.plist or [] if p["name"] == name))
                twin["id"] += ".twin"
                twin["byte"] = 40
                (st.plist or []).append(twin)
                return {"class": fclass, "variant": "param-list-duplicate", "kind": st.kind,
                        "key": list(st.key)}
            if st.kind == "TK-ROW":
                res = Resolver(model)
                tms = res.tables_of_key(st, st.layer)
                if len(tms) != 1 or tms[0] not in res.table_obj:
                    continue
                tb = res.table_obj[tms[0]]
                twin = copy.deepcopy(next(rw for rw in tb["rows"] if rw["name"] == name))
                twin["id"] += ".twin"
                tb["rows"].append(twin)
                return {"class": fclass, "variant": "table-duplicate", "kind": st.kind,
                        "key": list(st.key)}
            if st.kind not in LAYER_SN_KINDS:
                continue
            opts = ["same-layer-duplicate"]
            if st.kind == "DOP" and name.startswith("dop_"):
                opts.append("cross-category")
            if hier and st.kind == "DOP":
                opts.append("inheritance-conflict")
            variant = r.choice(opts)
            if variant == "inheritance-conflict":
                doc = next(d for d in model["docs"] if d["name"] == st.cont)
                for n in ("cfa", "cfb"):
                    doc["layers"].append({"kind": "ECU-SHARED-DATA", "name": n, "id": "DL." + n,
                                          "parents": [], "imports": [],
                                          "dops": [{"id": "DOP.conf", "name": "dop_conf",
                                                    "unit": None}]})
                    pr = rid("DL." + n)
                    pr["xt"] = "ECU-SHARED-DATA"
                    L["parents"].append(pr)
                st.ref["sn"] = "dop_conf"
                return {"class": fclass, "variant": variant + ":" + ("hier" if hier else "shared"),
                        "kind": st.kind, "key": list(st.key)}
            # the twin goes into the layer that provides the object in the view
            res = Resolver(model)
            ms = res.lookup_sn(name, st.layer, st.sncat or "dopbase")
            if len(ms) != 1:
                continue
            _, lname, oid = ms[0].split("/", 2)
            PL = _layer_of(model, lname)
            phier = PL["kind"] != "ECU-SHARED-DATA"
            src = None
            for key in ("dops", "structs", "tables", "fields", "muxes"):
                for o in PL.get(key, []):
                    if o["id"] == oid:
                        src = (key, o)
            if src is None:
                continue
            key, o = src
            if variant == "cross-category":
                if key != "dops":
                    continue
                PL["structs"].append({"id": oid + ".twin", "name": name, "params": []})
            else:
                twin = copy.deepcopy(o)
                twin["id"] = oid + ".twin"
                for rw in twin.get("rows", []):
                    rw["id"] += ".twin"
                for p in twin.get("params", []):
                    if p.get("id"):
                        p["id"] += ".twin"
                PL[key].append(twin)
            where = "own" if lname == st.layer else "inherited"
            return {"class": fclass, "variant": f"{variant}:{'hier' if phier else 'shared'}:{where}",
                    "kind": st.kind, "key": list(st.key)}
    return None


def _has_imp(model: J, lname: str) -> bool:
    L = _layer_of(model, lname)
    return any(o["id"].startswith("IMP.") for o in L.get("dops", []))
