"""Reference model of ODX value inheritance (ISO 22901-1 / ASAM MCD-2 D 2.2, section 7.3.2.4),
written from the rule and sharing no code with odxtools.  Works on the plain description
model of `layergen` (dicts); imports nothing from odxtools.

Rule implemented
----------------
For a layer L and a namespace N (objects of one namespace override each other by SHORT-NAME):

  offered(L, N) = for every PARENT-REF r of L, in any order:
                     visible(r.layer, N) minus the names listed in r's NOT-INHERITED list of
                     the exclusion class of N
  For every name n offered at least once, only the offers made by parents of the highest
  priority among the offering parents count
        ECU-SHARED-DATA > ECU-VARIANT > BASE-VARIANT > FUNCTIONAL-GROUP > PROTOCOL
  (the priority is that of the *direct parent* the object is inherited through, not of the
  layer that originally defined it).
  * L defines n locally              -> the local object is visible ("local-overrides")
  * the counting offers are all the same definition (diamond) -> that object
  * they are distinct definitions    -> unresolvable clash: loading must fail (strict mode)
    - except when the distinct definitions are content-identical "twins": the standard does
      not say whether identical content counts as "the same object", so both outcomes are
      accepted (verdict "either")
  visible(L, N) = inherited winners + local objects.
ECU-SHARED-DATA layers have no parents: visible = local.

Each visible entry is an `Entry` (marker, definer layer, category, relation, via) where
`relation` classifies how it got there (for coverage accounting and signatures):
  local-only | local-overrides | single-parent | same-object-multi-path |
  priority:<WINNER-KIND>-vs-<LOSER-KIND> | twin-either
`resolve()` additionally reports, per layer/namespace, the names that are hidden by an exclusion
(`excluded`), and the clashes.
"""
from __future__ import annotations

from typing import Any, Dict, List, NamedTuple, Optional, Set, Tuple

J = Dict[str, Any]

# priorities as stated by the standard (7.3.2.4.4: objects of an ECU-SHARED-DATA parent
# override those inherited from any other parent)
PRIORITY = {"PROTOCOL": 1, "FUNCTIONAL-GROUP": 2, "BASE-VARIANT": 3, "ECU-VARIANT": 4,
            "ECU-SHARED-DATA": 5}


class Entry(NamedTuple):
    marker: str          # content of LONG-NAME
    definer: str         # layer that defines the object
    cat: str             # category key (service, job, dop, ...)
    relation: str
    via: Tuple[str, ...]  # kinds of the direct parents whose offer counted (sorted)
    losers: Tuple[str, ...] = ()  # markers of the offers that lost on priority


class Clash(NamedTuple):
    layer: str
    ns: str
    name: str
    parents: Tuple[str, ...]
    markers: Tuple[str, ...]
    twin: bool  # every contender has identical content -> either outcome accepted


class Resolution:

    def __init__(self) -> None:
        self.views: Dict[str, Dict[str, Dict[str, Entry]]] = {}
        # names offered by some parent but visible nowhere because of NOT-INHERITED
        self.excluded: Dict[str, Dict[str, Set[str]]] = {}
        # names for which some PARENT-REF exclusion removed an offer although the name stays
        # visible through another path / a local definition
        self.partially_excluded: Dict[str, Dict[str, Set[str]]] = {}
        self.clashes: List[Clash] = []
        # layers whose view is undefined because they (or an ancestor) have a hard clash
        self.tainted: Set[str] = set()
        # would-be clashes (>= 2 distinct definitions offered at one priority level) that the
        # rule settles: (layer, ns, name, how) with how in local | higher-priority
        self.settled: List[Tuple[str, str, str, str]] = []

    @property
    def hard_clashes(self) -> List[Clash]:
        return [c for c in self.clashes if not c.twin]

    @property
    def twin_clashes(self) -> List[Clash]:
        return [c for c in self.clashes if c.twin]


def _marker(layer_name: str, obj: J) -> str:
    # deliberately re-stated here (the reference must not depend on the generator's helper)
    if obj.get("twin"):
        return "twin/%s/%s" % (obj["cat"], obj["name"])
    if obj.get("ref"):  # DIAG-COMM-REF: the named layer's object, local here as well
        return "%s/%s/%s" % (obj["ref"], obj["cat"], obj["name"])
    return "%s/%s/%s" % (layer_name, obj["cat"], obj["name"])


def resolve(hier: J, cats: Dict[str, Tuple[str, Optional[str]]],
            ignore_exclusions: bool = False,
            not_applicable: Optional[Dict[str, Set[str]]] = None) -> Resolution:
    """cats: category -> (namespace, exclusion class or None).
    not_applicable: layer kind -> namespaces that do not exist for that kind of layer (ODX has
    no DIAG-VARIABLES in a PROTOCOL): the view is empty there and nothing is inherited."""
    by_name = {l["name"]: l for l in hier["layers"]}
    namespaces = sorted(set(ns for ns, _ in cats.values()))
    excl_of = {ns: ex for ns, ex in cats.values()}
    res = Resolution()
    done: Set[str] = set()

    def visit(lname: str, stack: Tuple[str, ...] = ()) -> None:
        if lname in done:
            return
        if lname in stack:
            raise ValueError("cyclic PARENT-REFs")
        layer = by_name[lname]
        if layer["kind"] == "ECU-SHARED-DATA" and layer["parents"]:
            raise ValueError("ECU-SHARED-DATA with parents")
        for p in layer["parents"]:
            visit(p["layer"], stack + (lname,))
            if p["layer"] in res.tainted:
                res.tainted.add(lname)
        views: Dict[str, Dict[str, Entry]] = {}
        res.excluded[lname] = {}
        res.partially_excluded[lname] = {}
        for ns in namespaces:
            if not_applicable and ns in not_applicable.get(layer["kind"], ()):
                views[ns] = {}
                res.excluded[lname][ns] = set()
                res.partially_excluded[lname][ns] = set()
                continue
            local: Dict[str, J] = {}
            for o in layer["objects"]:
                if cats[o["cat"]][0] == ns:
                    if o["name"] in local:
                        raise ValueError("duplicate local short name")
                    local[o["name"]] = o
            offers: Dict[str, List[Tuple[int, str, Entry]]] = {}
            hidden: Set[str] = set()
            for p in layer["parents"]:
                parent = by_name[p["layer"]]
                ex = excl_of[ns]
                banned = set() if (ex is None or ignore_exclusions) else set(
                    p.get("ni", {}).get(ex, []))
                for name, ent in res.views[parent["name"]][ns].items():
                    if name in banned:
                        hidden.add(name)
                        continue
                    offers.setdefault(name, []).append(
                        (PRIORITY[parent["kind"]], parent["name"], ent))
            view: Dict[str, Entry] = {}
            for name, offs in offers.items():
                top = max(pr for pr, _, _ in offs)
                for level in set(pr for pr, _, _ in offs):
                    if len(set(e.definer for pr, _, e in offs if pr == level)) > 1:
                        if name in local:
                            res.settled.append((lname, ns, name, "local"))
                        elif level != top:
                            res.settled.append((lname, ns, name, "higher-priority"))
                if name in local:
                    continue
                counting = [(pn, e) for pr, pn, e in offs if pr == top]
                losing = [(pn, e) for pr, pn, e in offs if pr != top]
                via = tuple(sorted(set(by_name[pn]["kind"] for pn, _ in counting)))
                definers = sorted(set(e.definer for _, e in counting))
                lose_markers = tuple(sorted(set(e.marker for _, e in losing
                                                if e.definer not in definers)))
                first = counting[0][1]
                if len(definers) == 1:
                    if lose_markers:
                        lk = sorted(set(by_name[pn]["kind"] for pn, e in losing
                                        if e.definer not in definers))
                        rel = "priority:%s-vs-%s" % (via[0], "+".join(lk))
                    elif len(offs) == 1:
                        rel = "single-parent"
                    else:
                        rel = "same-object-multi-path"
                    view[name] = Entry(first.marker, first.definer, first.cat, rel, via,
                                       lose_markers)
                    continue
                markers = tuple(sorted(set(e.marker for _, e in counting)))
                cats_ = set(e.cat for _, e in counting)
                twin = len(markers) == 1 and len(cats_) == 1
                res.clashes.append(Clash(lname, ns, name, tuple(sorted(pn for pn, _ in counting)),
                                         markers, twin))
                if twin:
                    view[name] = Entry(first.marker, "|".join(definers), first.cat, "twin-either",
                                       via, lose_markers)
                else:
                    res.tainted.add(lname)
                    view[name] = Entry("<clash>", "|".join(definers), first.cat, "clash", via)
            for name, o in local.items():
                rel = "local-overrides" if name in offers else "local-only"
                lose = tuple(sorted(set(e.marker for _, _, e in offers.get(name, []))))
                view[name] = Entry(_marker(lname, o), lname, o["cat"], rel, (), lose)
            views[ns] = view
            res.excluded[lname][ns] = set(n for n in hidden if n not in view)
            res.partially_excluded[lname][ns] = set(n for n in hidden if n in view)
        res.views[lname] = views
        done.add(lname)

    for l in hier["layers"]:
        visit(l["name"])
    return res


def view_pairs(view: Dict[str, Entry], only_cats: Optional[Set[str]] = None) -> List[List[str]]:
    """sorted [[short_name, marker]] as the public API is expected to show it."""
    return sorted([n, e.marker] for n, e in view.items()
                  if only_cats is None or e.cat in only_cats)
