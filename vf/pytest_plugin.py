"""pytest plugin: run the repository's own tests with the monitors attached.

  cd /repo && PYTHONPATH=/verif:/verif/.deps /venv/bin/python -m pytest -q -p vf.pytest_plugin

Only active when ODXTOOLS_VERIF=1 (the guard named in MANIFEST.hooks).  A monitor that fires
makes the session fail with a report; counts are printed at the end.
"""
import os

from . import monitors


def pytest_configure(config):  # noqa
    if os.environ.get("ODXTOOLS_VERIF") != "1":
        return
    config._verif_attached = monitors.install_nil_invariant(raise_on_failure=False)


def pytest_terminal_summary(terminalreporter, exitstatus, config):  # noqa
    if os.environ.get("ODXTOOLS_VERIF") != "1":
        return
    tr = terminalreporter
    tr.write_line(f"verif monitors: attached={getattr(config, '_verif_attached', False)} "
                  f"NamedItemList invariant evaluations={monitors.COUNTS['nil_invariant_evals']} "
                  f"failures={monitors.COUNTS['nil_invariant_failures']}")
    for f in monitors.FAILURES[:10]:
        tr.write_line(f"  invariant broken: {f}")


def pytest_sessionfinish(session, exitstatus):  # noqa
    if os.environ.get("ODXTOOLS_VERIF") == "1" and monitors.COUNTS["nil_invariant_failures"]:
        session.exitstatus = 1
