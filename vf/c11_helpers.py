"""Helpers of the C11 check (PDX write / load round trip).

* in-memory PDX handling through the public API only (write_pdx_file / add_pdx_file / refresh)
* structural walk over dataclasses.fields of everything reachable from the three top-level
  collections of a Database, and a comparison that reports *every* differing (class, field)
* the inventory of perturbable (class, field) pairs and the value domains used to perturb them
* a small encode/decode corpus that is evaluated on two databases
"""
from __future__ import annotations

import dataclasses
import enum
import io
import re
import typing
import zipfile
from typing import Any, Callable, Dict, Iterable, List, Optional, Sequence, Tuple

TOPS = ("diag_layer_containers", "comparam_subsets", "comparam_specs")
WHITESPACE = "tab\there line\nfeed"  # survives in element text; attributes need &#9; / &#10;
META = "a<b&\"c'>d"
PLAIN = "c11_plain_x"
XHTML = "<p>c11 other <b>markup</b></p>"

Path = Tuple[Any, ...]


# ---------------------------------------------------------------------------
# PDX in memory


def make_pdx(files: Sequence[Tuple[str, str]], aux: Optional[Dict[str, bytes]] = None,
             order: Optional[Sequence[str]] = None) -> bytes:
    members: Dict[str, bytes] = {n: x.encode("utf-8") for n, x in files}
    members.update(aux or {})
    names = list(order) if order is not None else list(members)
    b = io.BytesIO()
    with zipfile.ZipFile(b, "w", compression=zipfile.ZIP_DEFLATED) as z:
        for n in names:
            z.writestr(n, members[n])
    return b.getvalue()


def pdx_members(pdx: bytes) -> Dict[str, bytes]:
    with zipfile.ZipFile(io.BytesIO(pdx)) as z:
        return {n: z.read(n) for n in z.namelist()}


def rezip(pdx: bytes, order: Sequence[str]) -> bytes:
    m = pdx_members(pdx)
    b = io.BytesIO()
    with zipfile.ZipFile(b, "w", compression=zipfile.ZIP_DEFLATED) as z:
        for n in order:
            z.writestr(n, m[n])
    return b.getvalue()


def is_odx_name(name: str) -> bool:
    import os
    return os.path.splitext(name)[1].lower().startswith(".odx")


def odx_members(pdx: bytes) -> Dict[str, bytes]:
    return {n: c for n, c in pdx_members(pdx).items() if is_odx_name(n)}


def load_bytes(pdx: bytes) -> Any:
    from odxtools.database import Database
    db = Database()
    db.add_pdx_file(io.BytesIO(pdx))
    db.refresh()
    return db


def write_bytes(db: Any) -> bytes:
    from odxtools.writepdxfile import write_pdx_file
    b = io.BytesIO()
    write_pdx_file(b, db)  # type: ignore[arg-type]
    return b.getvalue()


# ---------------------------------------------------------------------------
# template compilation cache (pure acceleration, see ASSUMPTIONS of the check)

_JINJA_PATCHED = False


def install_jinja_cache() -> None:
    """write_pdx_file builds a fresh jinja2.Environment per call and recompiles ~50 templates
    (0.5 s of the 0.6 s).  Give every Environment a per-process in-memory bytecode cache; jinja
    keys the cache by template name and validates it by the checksum of the template *source*,
    so an edited template is recompiled.  The check verifies once per run that cached and
    uncached writes are byte-identical."""
    global _JINJA_PATCHED
    if _JINJA_PATCHED:
        return
    import jinja2
    from jinja2.bccache import Bucket, BytecodeCache

    class _MemCache(BytecodeCache):
        store: Dict[str, bytes] = {}

        def load_bytecode(self, bucket: Bucket) -> None:
            raw = self.store.get(bucket.key)
            if raw is not None:
                bucket.bytecode_from_string(raw)

        def dump_bytecode(self, bucket: Bucket) -> None:
            self.store[bucket.key] = bucket.bytecode_to_string()

    cache = _MemCache()
    orig_init = jinja2.Environment.__init__

    def patched(self: Any, *a: Any, **kw: Any) -> None:
        kw.setdefault("bytecode_cache", cache)
        orig_init(self, *a, **kw)

    jinja2.Environment.__init__ = patched  # type: ignore[method-assign]
    _JINJA_PATCHED = True


# ---------------------------------------------------------------------------
# structural walk


def is_dc(o: Any) -> bool:
    return dataclasses.is_dataclass(o) and not isinstance(o, type)


def tops(db: Any) -> Iterable[Tuple[str, Any]]:
    for t in TOPS:
        yield t, getattr(db, t)


def walk(db: Any, visit: Callable[[Any, Path], None]) -> None:
    """visit(obj, path) for every dataclass instance reachable through dataclass fields."""

    def rec(o: Any, path: Path, depth: int) -> None:
        if depth > 60:
            return
        if is_dc(o):
            visit(o, path)
            for f in dataclasses.fields(o):
                rec(getattr(o, f.name, None), path + (f.name,), depth + 1)
        elif isinstance(o, (list, tuple)):
            for i, x in enumerate(o):
                rec(x, path + (i,), depth + 1)
        elif isinstance(o, dict):
            for k, x in o.items():
                rec(x, path + (k,), depth + 1)

    for t, coll in tops(db):
        for item in coll:
            rec(item, (t, item.short_name), 0)


def get_path(db: Any, path: Path) -> Any:
    coll = getattr(db, path[0])
    cur = None
    for item in coll:
        if item.short_name == path[1]:
            cur = item
            break
    else:
        raise LookupError(f"no {path[0]} named {path[1]}")
    for step in path[2:]:
        if isinstance(step, int):
            cur = cur[step]
        elif is_dc(cur):
            cur = getattr(cur, step)
        else:
            cur = cur[step]
    return cur


def path_str(path: Path) -> str:
    s = ""
    for p in path:
        s += f"[{p}]" if isinstance(p, int) else ("." if s else "") + str(p)
    return s


def _leaf_equal(a: Any, b: Any) -> bool:
    if type(a) is not type(b) and not (isinstance(a, (int, float)) and isinstance(b, (int, float))
                                       and not isinstance(a, bool) and not isinstance(b, bool)):
        if isinstance(a, (bytes, bytearray)) and isinstance(b, (bytes, bytearray)):
            return bytes(a) == bytes(b)
        return False
    if isinstance(a, float) and a != a:
        return b != b
    try:
        return bool(a == b)
    except Exception:
        return False


def _empty(x: Any) -> bool:
    return x is None or (isinstance(x, (str, list, tuple, dict, bytes)) and len(x) == 0)


Diff = Dict[str, Any]


def _is_named(o: Any) -> bool:
    try:
        return isinstance(getattr(o, "short_name", None), str)
    except Exception:
        return False


def compare(a: Any, b: Any, path: Path, owner: Tuple[str, str], out: List[Diff],
            depth: int = 0, named: str = "", rel: Tuple[str, ...] = ()) -> None:
    """Append one entry per differing leaf / list length / element type.

    `named` / `rel`: class of the nearest enclosing element that has a short name and the field
    names leading from it to the object that owns the differing field.  They give the
    categorical *context* of a difference inside anonymous sub-elements (a LIMIT of a PHYS-CONSTR
    is not a LIMIT of a COMPU-SCALE); the context is empty if the owner itself is named."""

    def add(kind: str, va: Any, vb: Any) -> None:
        ctx = (named + "." + ".".join(rel[:-1])) if len(rel) > 1 else ""
        out.append({"kind": kind, "cls": owner[0], "field": owner[1], "ctx": ctx,
                    "path": path_str(path), "first": _short(va), "second": _short(vb)})

    if depth > 60:
        return
    if is_dc(a) or is_dc(b):
        if not (is_dc(a) and is_dc(b)) or type(a).__name__ != type(b).__name__:
            add("attr-lost" if _empty(b) else "attr-altered", a, b)
            return
        if _is_named(a):
            named, rel = type(a).__name__, ()
        for f in dataclasses.fields(a):
            compare(getattr(a, f.name, None), getattr(b, f.name, None), path + (f.name,),
                    (type(a).__name__, f.name), out, depth + 1, named, rel + (f.name,))
        return
    if isinstance(a, (list, tuple)) and isinstance(b, (list, tuple)):
        if len(a) != len(b):
            add("attr-lost" if len(b) < len(a) else "attr-altered", f"{len(a)} item(s)",
                f"{len(b)} item(s)")
        for i, (x, y) in enumerate(zip(a, b)):
            compare(x, y, path + (i,), owner, out, depth + 1, named, rel)
        return
    if isinstance(a, dict) and isinstance(b, dict):
        if set(a) != set(b):
            add("attr-altered", sorted(map(str, a)), sorted(map(str, b)))
        for k in a:
            if k in b:
                compare(a[k], b[k], path + (k,), owner, out, depth + 1, named, rel)
        return
    if not _leaf_equal(a, b):
        add("attr-lost" if (_empty(b) and not _empty(a)) else "attr-altered", a, b)


def compare_dbs(db1: Any, db2: Any) -> List[Diff]:
    """Top-level collections are matched by short name (their order is not part of the oracle)."""
    out: List[Diff] = []
    for t in TOPS:
        c1 = {x.short_name: x for x in getattr(db1, t)}
        c2 = {x.short_name: x for x in getattr(db2, t)}
        for n in c1:
            if n not in c2:
                out.append({"kind": "attr-lost", "cls": "Database", "field": t, "ctx": "",
                            "path": f"{t}.{n}", "first": n, "second": None})
        for n in c2:
            if n not in c1:
                out.append({"kind": "attr-altered", "cls": "Database", "field": t, "ctx": "",
                            "path": f"{t}.{n}", "first": None, "second": n})
        for n in c1:
            if n in c2:
                compare(c1[n], c2[n], (t, n), ("Database", t), out)
    return out


def _short(x: Any) -> Any:
    if x is None or isinstance(x, (bool, int, float)):
        return x
    if isinstance(x, enum.Enum):
        return f"{type(x).__name__}.{x.name}"
    if isinstance(x, (bytes, bytearray)):
        return "hex:" + bytes(x).hex()[:80]
    if isinstance(x, str):
        return x[:200]
    if is_dc(x):
        return f"<{type(x).__name__}>"
    return repr(x)[:200]


def diff_keys(diffs: List[Diff]) -> Dict[Tuple[str, ...], Diff]:
    """first diff per (kind, class, field[, context])"""
    res: Dict[Tuple[str, ...], Diff] = {}
    for d in diffs:
        k: Tuple[str, ...] = (d["kind"], d["cls"], d["field"])
        if d.get("ctx"):
            k += (d["ctx"],)
        res.setdefault(k, d)
    return res


# ---------------------------------------------------------------------------
# inventory of perturbable fields

# fields whose value the parser receives from the *enclosing* element (a data type handed down,
# the tag name ...), i.e. that are not attributes read from the element itself
CONTEXT_FIELDS = {"internal_type", "physical_type", "domain_type", "range_type", "value_type",
                  "data_type", "variant_type", "response_type"}
KEY_NAMES = {"short_name", "odx_id", "ref_id", "ref_docs", "local_id", "doc_fragments",
             "doc_name", "doc_type"}
KEY_SUFFIXES = ("_ref", "_refs", "_snref", "_snrefs", "_snpathref", "_snpathrefs")
# strings that the parser hands to a typed conversion (numeric-as-string domain) when the
# current value gives no hint
NUMERIC_STR_FIELDS = {"value_raw", "v", "key_raw", "physical_default_value",
                      "physical_default_value_raw", "physical_constant_value_raw",
                      "expected_value", "termination_value_raw"}

PRESENCE_FLAGS = {("EnvironmentData", "all_value")}

_HINTS: Dict[type, Dict[str, Any]] = {}


def hints_of(cls: type) -> Dict[str, Any]:
    h = _HINTS.get(cls)
    if h is None:
        try:
            h = typing.get_type_hints(cls)
        except Exception:
            h = {}
        _HINTS[cls] = h
    return h


def _strip_optional(h: Any) -> Tuple[Any, ...]:
    if typing.get_origin(h) is typing.Union:
        return tuple(a for a in typing.get_args(h) if a is not type(None))
    return (h,)


def scalar_kind(cls: type, fname: str, value: Any) -> Optional[str]:
    """'bool' | 'int' | 'float' | 'str' | 'enum' | 'bytes' | None (not a scalar attribute)."""
    h = hints_of(cls).get(fname)
    alts: Tuple[Any, ...] = _strip_optional(h) if h is not None else ()
    kinds = set()
    for a in alts:
        if a is bool:
            kinds.add("bool")
        elif a is int:
            kinds.add("int")
        elif a is float:
            kinds.add("float")
        elif a is str:
            kinds.add("str")
        elif a in (bytes, bytearray):
            kinds.add("bytes")
        elif isinstance(a, type) and issubclass(a, enum.Enum):
            kinds.add("enum")
        else:
            kinds.add("other")
    if not kinds or "other" in kinds:
        return None
    if len(kinds) == 1:
        return kinds.pop()
    # union of scalars (AtomicOdxType): decide by the live value
    if isinstance(value, bool):
        return "bool"
    if isinstance(value, int):
        return "int"
    if isinstance(value, float):
        return "float"
    if isinstance(value, str):
        return "str"
    if isinstance(value, (bytes, bytearray)):
        return "bytes"
    return None


def enum_type(cls: type, fname: str) -> Optional[type]:
    for a in _strip_optional(hints_of(cls).get(fname)):
        if isinstance(a, type) and issubclass(a, enum.Enum):
            return a
    return None


def perturbable_fields(obj: Any) -> List[Tuple[str, str]]:
    """[(field name, kind)] of obj's class that the perturbation pass touches."""
    cls = type(obj)
    params = getattr(cls, "__dataclass_params__", None)
    if params is not None and params.frozen:
        return []
    res = []
    for f in dataclasses.fields(obj):
        n = f.name
        if n.startswith("_") or n in KEY_NAMES or n.endswith(KEY_SUFFIXES) or n in CONTEXT_FIELDS:
            continue
        k = scalar_kind(cls, n, getattr(obj, n, None))
        if k is not None:
            res.append((n, k))
    return res


_INT_RE = re.compile(r"^\s*-?\d+\s*$")
_FLOAT_RE = re.compile(r"^\s*-?(\d+\.\d*|\.\d+|\d+)([eE][-+]?\d+)?\s*$")


def candidates(cls_name: str, fname: str, kind: str, cur: Any,
               etype: Optional[type]) -> List[Tuple[str, Any]]:
    """Ordered (label, value) candidates; later ones are fall-backs if an earlier one makes the
    database invalid.  For free text the list is [plain, metacharacters] and BOTH are judged."""
    if (cls_name, fname) in PRESENCE_FLAGS:
        # the parser only ever produces None (element absent) or True (element present)
        return [("presence", None if cur else True)]
    if kind == "bool":
        if cur is None:
            return [("explicit-false", False), ("true", True)]
        return [("opposite", not cur)]
    if kind == "int":
        if cur is None:
            return [("int", 1), ("int", 2), ("int", 8)]
        return [("int", cur + 1), ("int", cur + 8), ("int", cur - 1), ("int", cur * 2)]
    if kind == "float":
        if cur is None:
            return [("float", 2.5)]
        return [("float", cur + 1.5), ("float", cur * 2 + 0.25)]
    if kind == "bytes":
        if not cur:
            return [("bytes", b"\x5a")]
        b = bytes(cur)
        return [("bytes", b[:-1] + bytes([b[-1] ^ 0x01]))]
    if kind == "enum":
        assert etype is not None
        members = list(etype)  # type: ignore[call-overload]
        if cur in members:
            i = members.index(cur)
            members = members[i + 1:] + members[:i]
        return [("enum", m) for m in members]
    if kind == "str":
        if cls_name == "Description" and fname == "text":
            return [("xhtml", XHTML)]
        # a value that looks numeric gets the next number first; the free-text candidates follow
        # and are dropped by the validity filter where the field really is typed
        if isinstance(cur, str) and _INT_RE.match(cur):
            return [("numstr", str(int(cur) + 1)), ("numstr", str(int(cur) + 8)),
                    ("plain", PLAIN), ("meta", META)]
        if isinstance(cur, str) and _FLOAT_RE.match(cur):
            return [("numstr", repr(float(cur) + 1.5)), ("plain", PLAIN), ("meta", META)]
        if cur is None and fname in NUMERIC_STR_FIELDS:
            return [("numstr", "7"), ("plain", PLAIN), ("meta", META)]
        return [("plain", PLAIN), ("meta", META), ("whitespace", WHITESPACE)]
    return []


# ---------------------------------------------------------------------------
# encode / decode corpus


def norm(x: Any, depth: int = 0) -> Any:
    """Structure-preserving, identity-free normal form of a decoded value."""
    if depth > 12:
        return "..."
    if x is None or isinstance(x, (bool, int, str)):
        return x
    if isinstance(x, float):
        return repr(x)
    if isinstance(x, (bytes, bytearray)):
        return "hex:" + bytes(x).hex()
    if isinstance(x, enum.Enum):
        return f"{type(x).__name__}.{x.name}"
    if isinstance(x, dict):
        return {str(k): norm(v, depth + 1) for k, v in x.items()}
    if isinstance(x, (list, tuple)):
        return [norm(v, depth + 1) for v in x]
    if is_dc(x):
        # public dataclass fields only (e.g. DiagnosticTroubleCode)
        return [type(x).__name__,
                {f.name: norm(getattr(x, f.name, None), depth + 1) for f in dataclasses.fields(x)
                 if not f.name.endswith(("sdgs", "admin_data"))}]
    return f"<{type(x).__name__}>"


def _simple_value(dop: Any, depth: int = 0, variant: int = 0) -> Any:
    """A simple valid physical value for a DOP-like object (best effort)."""
    from odxtools.odxtypes import DataType
    tn = type(dop).__name__
    if depth > 4 or dop is None:
        return 1
    if tn in ("Structure", "BasicStructure", "EnvironmentData"):
        return {p.short_name: _param_value(p, depth + 1, variant) for p in dop.parameters
                if getattr(p, "is_required", False)}
    if tn in ("StaticField",):
        return [_simple_value(dop.structure, depth + 1, variant) for _ in range(dop.fixed_number_of_items)]
    if tn in ("DynamicLengthField", "EndOfPduField", "DynamicEndmarkerField"):
        n = max(1, getattr(dop, "min_number_of_items", None) or 1)
        return [_simple_value(dop.structure, depth + 1, variant) for _ in range(n)]
    if tn == "Multiplexer":
        for c in dop.cases:
            if getattr(c, "structure", None) is not None:
                return (c.short_name, _simple_value(c.structure, depth + 1, variant))
        return 1
    if tn == "DtcDop":
        # the alternative takes the last one: with LINKED-DTC-DOPS that is an inherited DTC
        return dop.dtcs[-1 if variant else 0].trouble_code if dop.dtcs else 1
    pt = getattr(getattr(dop, "physical_type", None), "base_data_type", None)
    cm = getattr(dop, "compu_method", None)
    if cm is not None and type(cm).__name__ == "TexttableCompuMethod":
        for sc in cm.compu_internal_to_phys.compu_scales:
            if sc.compu_const is not None and sc.compu_const.vt is not None:
                return sc.compu_const.vt
    if cm is not None and type(cm).__name__ not in ("IdenticalCompuMethod", "CompuCodeCompuMethod"):
        for iv in (4, 1, 0, 2, 10, 100, 20, 150):
            try:
                pv = cm.convert_internal_to_physical(iv)
                if cm.is_valid_physical_value(pv):
                    return pv
            except Exception:
                continue
    if pt in (DataType.A_UNICODE2STRING, DataType.A_ASCIISTRING, DataType.A_UTF8STRING):
        return "ab"
    if pt == DataType.A_BYTEFIELD:
        bl = getattr(getattr(dop, "diag_coded_type", None), "bit_length", None)
        return bytes([0x12] * ((bl // 8) if isinstance(bl, int) and bl >= 8 else 2))
    if pt in (DataType.A_FLOAT32, DataType.A_FLOAT64):
        return 4.0 if variant == 0 else -2.5
    if variant:
        bl = getattr(getattr(dop, "diag_coded_type", None), "bit_length", None)
        if isinstance(bl, int) and bl > 3 and type(cm).__name__ == "IdenticalCompuMethod":
            return 0x12345678 & ((1 << min(bl, 31)) - 1)  # a bit pattern (masks, byte order)
        return 3
    return 4


def _param_value(p: Any, depth: int = 0, variant: int = 0) -> Any:
    tn = type(p).__name__
    if tn == "TableKeyParameter":
        t = getattr(p, "table", None)
        if t is not None and len(t.table_rows):
            return t.table_rows[0].short_name
        return 1
    if tn == "TableStructParameter":
        tk = getattr(p, "table_key", None)
        t = getattr(tk, "table", None)
        if t is not None and len(t.table_rows):
            r = t.table_rows[0]
            if getattr(r, "structure", None) is not None:
                return (r.short_name, _simple_value(r.structure, depth + 1, variant))
            if getattr(r, "dop", None) is not None:
                return (r.short_name, _simple_value(r.dop, depth + 1, variant))
        return 1
    return _simple_value(getattr(p, "dop", None), depth, variant)


def _kwargs_for(codec: Any, variant: int = 0) -> Dict[str, Any]:
    kw = {p.short_name: _param_value(p, 0, variant) for p in codec.required_parameters}
    for p in codec.parameters:
        # SYSTEM parameters default to the wall clock: pin them, the corpus must be deterministic
        if type(p).__name__ == "SystemParameter":
            kw[p.short_name] = _param_value(p, 0, variant)
    return kw


def corpus(db: Any) -> Dict[str, Any]:
    """{key: normalised outcome} of encoding every service's request (and its first positive
    response) with simple values and decoding the PDUs again.  Outcomes are values or the
    exception type + message, so two databases can be compared item by item."""
    res: Dict[str, Any] = {}

    def attempt(key: str, fn: Callable[[], Any]) -> Any:
        try:
            v = fn()
            res[key] = ["ok", norm(v)]
            return v
        except Exception as e:  # the outcome is data here
            res[key] = ["raises", type(e).__name__, str(e)[:300]]
            return None

    for layer in db.diag_layers:
        ln = layer.short_name
        try:
            services = list(layer.services)
        except Exception as e:
            res[f"{ln}/<services>"] = ["raises", type(e).__name__, str(e)[:300]]
            continue
        try:  # derived while loading, no dataclass field: the DTCs each DTC-DOP ends up with
            for dd in layer.diag_data_dictionary_spec.dtc_dops:
                res[f"{ln}/<dtcs>/{dd.short_name}"] = [[d.short_name, d.trouble_code] for d in dd.dtcs]
        except Exception as e:
            res[f"{ln}/<dtcs>"] = ["raises", type(e).__name__, str(e)[:300]]
        for svc, variant in [(x, v) for x in services for v in (0, 1)]:
            key = f"{ln}/{svc.short_name}" + ("/alt" if variant else "")
            req = getattr(svc, "request", None)
            if req is None:
                continue
            try:
                kwargs = _kwargs_for(req, variant)
            except Exception as e:
                res[key + "/values"] = ["raises", type(e).__name__, str(e)[:300]]
                kwargs = {}
            res[key + "/kwargs"] = norm(kwargs)
            pdu = attempt(key + "/encode_request", lambda: bytes(svc.encode_request(**kwargs)))
            if pdu is None:
                continue
            attempt(key + "/decode_request", lambda: req.decode(pdu))
            attempt(key + "/layer_decode",
                    lambda: sorted(repr(norm(m.param_dict)) for m in layer.decode(pdu)))
            for n, resp in enumerate(list(svc.positive_responses)[:1]):
                try:
                    rk = _kwargs_for(resp, variant)
                except Exception:
                    rk = {}
                rpdu = attempt(f"{key}/encode_pos{n}",
                               lambda: bytes(resp.encode(coded_request=pdu, **rk)))
                if rpdu is not None:
                    attempt(f"{key}/decode_pos{n}", lambda: resp.decode(rpdu))
    return res
