"""Shared infrastructure of the runtime-monitoring checks.

* path set-up (odxtools is always imported from VERIF_REPO, default /repo)
* Collector: picklable, mergeable record of what the monitors observed
* known-findings matching, evidence writing, verdict / exit code
* process pool helper
"""
from __future__ import annotations

import hashlib
import json
import os
import random
import subprocess
import sys
import threading
import time
import traceback
from collections import Counter
from concurrent.futures import ProcessPoolExecutor, as_completed
from typing import Any, Callable, Dict, Iterable, List, Optional, Sequence, Tuple

ROOT = os.path.dirname(os.path.dirname(os.path.abspath(__file__)))
REPO = os.environ.get("VERIF_REPO", "/repo")
DEPS = os.path.join(ROOT, ".deps")
WHEELS = "/opt/veriftools/wheels"
GUARD = "ODXTOOLS_VERIF"
NCPU = int(os.environ.get("VERIF_JOBS", "0")) or min(16, os.cpu_count() or 4)

EXIT_HELD = 0
EXIT_VIOLATION = 1
EXIT_INCONCLUSIVE = 2


def ensure_deps() -> None:
    """Install icontract/deal into /verif/.deps from the offline wheelhouse if absent."""
    if not os.path.isdir(os.path.join(DEPS, "icontract")):
        os.makedirs(DEPS, exist_ok=True)
        subprocess.run(
            [
                sys.executable, "-m", "pip", "install", "--quiet", "--no-index", "--find-links",
                WHEELS, "--target", DEPS, "icontract", "deal"
            ],
            check=False,
            stdout=subprocess.DEVNULL,
            stderr=subprocess.DEVNULL,
        )


def setup_paths() -> None:
    """Put the repository under test first on sys.path, then the helper deps."""
    os.environ[GUARD] = "1"
    for p in (DEPS, ROOT, REPO):
        if p in sys.path:
            sys.path.remove(p)
    sys.path.insert(0, DEPS)
    sys.path.insert(0, ROOT)
    sys.path.insert(0, REPO)


def seed() -> int:
    return int(os.environ.get("VERIF_SEED", "0") or 0)


def rng(worker: int = 0, salt: str = "") -> random.Random:
    h = int(hashlib.sha256(salt.encode()).hexdigest()[:8], 16) if salt else 0
    return random.Random(seed() * 1000003 + worker * 7919 + h)


def jsonable(x: Any, depth: int = 0) -> Any:
    """Best-effort conversion of a case description into JSON."""
    if depth > 12:
        return repr(x)
    if x is None or isinstance(x, (bool, int, str)):
        return x
    if isinstance(x, float):
        if x != x or x in (float("inf"), float("-inf")):
            return repr(x)
        return x
    if isinstance(x, (bytes, bytearray)):
        return {"hex": bytes(x).hex()}
    if isinstance(x, dict):
        return {str(k): jsonable(v, depth + 1) for k, v in x.items()}
    if isinstance(x, (list, tuple, set, frozenset)):
        return [jsonable(v, depth + 1) for v in x]
    return repr(x)


def unjson(x: Any) -> Any:
    """Inverse of jsonable for the {"hex": ..} convention."""
    if isinstance(x, dict):
        if set(x.keys()) == {"hex"}:
            return bytes.fromhex(x["hex"])
        return {k: unjson(v) for k, v in x.items()}
    if isinstance(x, list):
        return [unjson(v) for v in x]
    return x


class Collector:
    """What the monitors of one run (or one worker) observed."""

    MAX_WITNESS = 3

    def __init__(self) -> None:
        self.evaluations = 0
        self.distinct: set = set()
        self.violations: Dict[Tuple, Dict[str, Any]] = {}
        self.samples: List[Any] = []
        self.counters: Counter = Counter()
        self.notes: Dict[str, Any] = {}
        self.inconclusive: List[str] = []

    # -- recording -----------------------------------------------------
    def ev(self, n: int = 1) -> None:
        self.evaluations += n

    def nontrivial(self, key: Any) -> None:
        """Record one distinct non-trivial case (by a hashable categorical key)."""
        if not isinstance(key, (int, str)):
            key = hashlib.blake2b(repr(key).encode(), digest_size=8).hexdigest()
        self.distinct.add(key)

    def count(self, key: str, n: int = 1) -> None:
        self.counters[key] += n

    def sample(self, obj: Any, limit: int = 6) -> None:
        if len(self.samples) < limit:
            self.samples.append(jsonable(obj))

    def violation(self, signature: Sequence[Any], detail: Dict[str, Any]) -> None:
        sig = tuple(str(s) for s in signature)
        ent = self.violations.setdefault(sig, {"count": 0, "witnesses": []})
        ent["count"] += 1
        if len(ent["witnesses"]) < self.MAX_WITNESS:
            ent["witnesses"].append(jsonable(detail))

    def fail_inconclusive(self, reason: str) -> None:
        if reason not in self.inconclusive:
            self.inconclusive.append(reason)

    # -- merging -------------------------------------------------------
    def merge(self, other: "Collector") -> None:
        self.evaluations += other.evaluations
        self.distinct |= other.distinct
        for sig, ent in other.violations.items():
            mine = self.violations.setdefault(sig, {"count": 0, "witnesses": []})
            mine["count"] += ent["count"]
            for w in ent["witnesses"]:
                if len(mine["witnesses"]) < self.MAX_WITNESS:
                    mine["witnesses"].append(w)
        for s in other.samples:
            if len(self.samples) < 10:
                self.samples.append(s)
        self.counters.update(other.counters)
        for k, v in other.notes.items():
            if k not in self.notes:
                self.notes[k] = v
            elif isinstance(v, (int, float)) and isinstance(self.notes[k], (int, float)):
                self.notes[k] += v
            elif isinstance(v, list) and isinstance(self.notes[k], list):
                for e in v:
                    if e not in self.notes[k]:
                        self.notes[k].append(e)
            elif isinstance(v, dict) and isinstance(self.notes[k], dict):
                for kk, vv in v.items():
                    if isinstance(vv, (int, float)) and isinstance(self.notes[k].get(kk), (int, float)):
                        self.notes[k][kk] += vv
                    else:
                        self.notes[k].setdefault(kk, vv)
        for r in other.inconclusive:
            self.fail_inconclusive(r)


# ---------------------------------------------------------------------------
# process pool


def _run_task(args: Tuple[Callable, Any]) -> Collector:
    fn, task = args
    setup_paths()
    col = Collector()
    try:
        fn(task, col)
    except (Exception, CallTimeout, StepLimit):  # harness failure: never a verdict
        col.fail_inconclusive("worker crashed: " + traceback.format_exc()[-1500:])
    return col


def pmap(fn: Callable[[Any, Collector], None], tasks: Sequence[Any], col: Collector,
         jobs: Optional[int] = None, timeout: Optional[float] = None) -> None:
    """Run fn(task, collector) for every task on a process pool and merge the collectors."""
    jobs = jobs or NCPU
    tasks = list(tasks)
    if not tasks:
        return
    if timeout is None:
        # generous wall-clock watchdog; its firing is INCONCLUSIVE, never a verdict
        timeout = float(os.environ.get("VERIF_WATCHDOG", "0") or 0) or \
            (900.0 if os.environ.get("VERIF_TIER", "quick") == "quick" else 7200.0)
    ex = ProcessPoolExecutor(max_workers=max(1, min(jobs, len(tasks))))
    try:
        futs = [ex.submit(_run_task, (fn, t)) for t in tasks]
        for f in as_completed(futs, timeout=timeout):
            col.merge(f.result())
        ex.shutdown(wait=True)
    except TimeoutError:
        col.fail_inconclusive(f"watchdog: worker pool did not finish within {timeout:.0f} s "
                              "(a worker hangs or the machine is overloaded)")
        _kill_pool(ex)
    except Exception as e:  # BrokenProcessPool etc.
        col.fail_inconclusive(f"worker pool failed: {type(e).__name__}: {e}")
        _kill_pool(ex)


def _kill_pool(ex: ProcessPoolExecutor) -> None:
    procs = list(getattr(ex, "_processes", {}).values())
    ex.shutdown(wait=False, cancel_futures=True)
    for p in procs:
        try:
            p.kill()
        except Exception:
            pass


class CallTimeout(BaseException):
    """Raised inside the monitored call by the per-call deadline (SIGALRM)."""


class deadline:
    """Wall-clock deadline around ONE call of the code under test (POSIX, main thread of a
    worker).  Its firing is only a trigger: the caller has to confirm non-termination by a
    logical step budget before calling it a violation."""

    def __init__(self, seconds: float):
        self.seconds = seconds
        self.fired = False

    def __enter__(self) -> "deadline":
        import signal

        def handler(signum: int, frame: Any) -> None:
            self.fired = True
            raise CallTimeout()

        self._armed = False
        if threading.current_thread() is not threading.main_thread():
            return self  # signals reach the main thread only: no trigger here
        self._old = signal.signal(signal.SIGALRM, handler)
        signal.setitimer(signal.ITIMER_REAL, self.seconds)
        self._armed = True
        return self

    def __exit__(self, et: Any, ev: Any, tb: Any) -> bool:
        import signal
        if self._armed:
            signal.setitimer(signal.ITIMER_REAL, 0)
            signal.signal(signal.SIGALRM, self._old)
        return et is CallTimeout


class StepLimit(BaseException):
    pass


class Overloaded(Exception):
    """The wall-clock trigger fired on a call that does terminate: inconclusive, never a verdict."""


def runs_beyond(fn: Callable[[], Any], max_lines: int) -> bool:
    """Execute fn() counting executed source lines (sys.monitoring LINE events); True if the
    call was still running after max_lines lines (it is then aborted)."""
    mon = sys.monitoring
    tool = 2
    try:
        mon.use_tool_id(tool, "verif-steplimit")
    except ValueError:
        return False
    n = [0]

    tripped = [False]

    def cb(code: Any, line: int) -> Any:
        if code.co_filename.startswith(ROOT):
            return mon.DISABLE  # the harness' own lines are not steps of the code under test
        n[0] += 1
        if n[0] > max_lines and not tripped[0]:
            tripped[0] = True
            raise StepLimit()

    mon.register_callback(tool, mon.events.LINE, cb)
    mon.set_events(tool, mon.events.LINE)
    try:
        fn()
        return tripped[0]
    except StepLimit:
        return True
    except BaseException:
        return tripped[0]
    finally:
        mon.set_events(tool, 0)
        mon.register_callback(tool, mon.events.LINE, None)
        mon.free_tool_id(tool)


# ---------------------------------------------------------------------------
# known findings


def replay_directory() -> str:
    """evidence/replay for the registered commands; scratch runs (VERIF_NO_EVIDENCE=1: seeded
    changes, refactorings, experiments - possibly several at once) get a directory of their own
    so that they neither delete nor overwrite each other's witnesses."""
    if os.environ.get("VERIF_NO_EVIDENCE"):
        d = os.environ.get("VERIF_REPLAY_DIR")
        if not d:
            import tempfile
            d = os.path.join(tempfile.gettempdir(), f"verif-replay-{os.getpid()}")
        return d
    return os.path.join(ROOT, "evidence", "replay")


def load_known_findings(prop: str) -> List[Dict[str, Any]]:
    path = os.path.join(ROOT, "known_findings.json")
    if not os.path.exists(path):
        return []
    with open(path) as f:
        data = json.load(f)
    return [e for e in data.get("findings", []) if e.get("property") == prop]


def match_known(sig: Tuple[str, ...], known: List[Dict[str, Any]]) -> Optional[Dict[str, Any]]:
    for e in known:
        if e.get("status", "known") != "known":
            continue  # "fixed" entries suppress nothing
        for cand in [e["signature"]] + list(e.get("also", [])):
            if tuple(str(s) for s in cand) == sig:
                return e
    return None


# ---------------------------------------------------------------------------
# finishing a run


def finish(prop: str, tier: str, level: str, col: Collector, t0: float, rule: str,
           min_evaluations: int = 1, assumptions: Optional[List[str]] = None,
           exhaustive: bool = False, write_evidence: bool = True) -> int:
    known = load_known_findings(prop)
    new: List[Tuple[Tuple[str, ...], Dict[str, Any]]] = []
    seen_known: List[Dict[str, Any]] = []
    for sig, ent in sorted(col.violations.items()):
        k = match_known(sig, known)
        if k is not None:
            seen_known.append({"signature": list(sig), "count": ent["count"],
                               "what": k.get("what", "")})
        else:
            new.append((sig, ent))

    if col.evaluations < min_evaluations:
        col.fail_inconclusive(
            f"only {col.evaluations} oracle evaluations (< {min_evaluations} required)")
    if len(col.distinct) < 2:
        col.fail_inconclusive("fewer than two distinct non-trivial cases were observed")

    replay_dir = replay_directory()
    lines: List[str] = []
    for sig, ent in new:
        os.makedirs(replay_dir, exist_ok=True)
        h = hashlib.blake2b(repr(sig).encode(), digest_size=5).hexdigest()
        path = os.path.join(replay_dir, f"{prop}-{h}.json")
        with open(path, "w") as f:
            json.dump({"property": prop, "signature": list(sig), "count": ent["count"],
                       "seed": seed(), "tier": tier, "witnesses": ent["witnesses"]}, f, indent=1)
        lines.append(f"VIOLATION property={prop} replay={path}")
        sys.stderr.write(f"  signature={list(sig)} count={ent['count']}\n")
        if ent["witnesses"]:
            sys.stderr.write("  witness=" + json.dumps(ent["witnesses"][0])[:1500] + "\n")

    wall = time.time() - t0
    if os.environ.get("VERIF_NO_EVIDENCE"):
        write_evidence = False  # runs against scratch copies (seeded changes) leave no evidence
    if write_evidence:
        cov: Dict[str, Any] = {
            "evaluations": int(col.evaluations),
            "distinct_nontrivial": len(col.distinct),
            "rule": rule,
            "samples": col.samples[:10] or ["(no sample recorded)"],
            "exhaustive": bool(exhaustive),
            "counters": dict(sorted(col.counters.items())),
            "known_findings_seen": seen_known,
            "new_violation_signatures": [list(s) for s, _ in new],
            "inconclusive_reasons": col.inconclusive,
        }
        cov.update(jsonable(col.notes))
        ev = {
            "property_id": prop,
            "tier": tier,
            "seed": seed(),
            "level": level,
            "coverage": cov,
            "assumptions": assumptions or [],
            "wall_s": round(wall, 2),
            "violations": len(new),
        }
        os.makedirs(os.path.join(ROOT, "evidence"), exist_ok=True)
        with open(os.path.join(ROOT, "evidence", f"{prop}.json"), "w") as f:
            json.dump(ev, f, indent=1, sort_keys=False)
            f.write("\n")

    for k in seen_known:
        print(f"KNOWN-FINDING: property={prop} {'/'.join(k['signature'])}: {k['what']} "
              f"(observed {k['count']}x)")
    for ln in lines:
        print(ln)
    if lines:
        for r in col.inconclusive:
            print(f"NOTE property={prop} (also inconclusive: {r})")
        print(f"{prop}: VIOLATED ({len(lines)} new signature(s)); evaluations={col.evaluations} "
              f"distinct={len(col.distinct)} wall={wall:.1f}s")
        return EXIT_VIOLATION
    if col.inconclusive:
        for r in col.inconclusive:
            print(f"INCONCLUSIVE property={prop} reason={r}")
        return EXIT_INCONCLUSIVE
    print(f"{prop}: held on what was observed; evaluations={col.evaluations} "
          f"distinct={len(col.distinct)} known_findings={len(seen_known)} wall={wall:.1f}s")
    return EXIT_HELD


class Watchdog(Exception):
    pass
