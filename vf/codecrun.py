"""Running encode/decode on the real code and recording what happened (events at the API)."""
from __future__ import annotations

import warnings
from typing import Any, Dict, List, Optional, Tuple

from . import odxgen, refodx

J = Dict[str, Any]


class Outcome:
    """Result of one API call: value or exception, plus warnings of category OdxWarning."""

    __slots__ = ("value", "exc", "exc_type", "exc_family", "overlap_warnings", "other_warnings")

    def __init__(self) -> None:
        self.value: Any = None
        self.exc: Optional[BaseException] = None
        self.exc_type = ""
        self.exc_family = ""   # EncodeError | DecodeError | OdxError | foreign
        self.overlap_warnings = 0
        self.other_warnings: List[str] = []

    @property
    def ok(self) -> bool:
        return self.exc is None

    def brief(self) -> Any:
        if self.ok:
            return {"returned": self.value}
        return {"raised": self.exc_type, "family": self.exc_family, "msg": str(self.exc)[:200]}


def family(e: BaseException) -> str:
    from odxtools.exceptions import DecodeError, EncodeError, OdxError
    if isinstance(e, EncodeError):
        return "EncodeError"
    if isinstance(e, DecodeError):
        return "DecodeError"
    if isinstance(e, OdxError):
        return "OdxError"
    return "foreign"


def call(fn: Any, *a: Any, **kw: Any) -> Outcome:
    o = Outcome()
    with warnings.catch_warnings(record=True) as log:
        warnings.simplefilter("always")
        try:
            o.value = fn(*a, **kw)
        except (KeyboardInterrupt, SystemExit, MemoryError):
            raise
        except BaseException as e:  # noqa - the exception type is the observation
            o.exc = e
            o.exc_type = type(e).__name__
            o.exc_family = family(e)
    for w in log:
        names = [c.__name__ for c in type(w.message).__mro__]
        if "OdxWarning" in names and "verlapping" in str(w.message):
            o.overlap_warnings += 1
        else:
            o.other_warnings.append(f"{type(w.message).__name__}: {str(w.message)[:80]}")
    return o


def encode(obj: Any, values: Dict[str, Any], request: Optional[bytes] = None) -> Outcome:
    if request is not None:
        o = call(obj.encode, coded_request=request, **values)
    else:
        o = call(obj.encode, **values)
    if o.ok:
        o.value = bytes(o.value)
    return o


def decode(obj: Any, pdu: bytes) -> Outcome:
    return call(obj.decode, bytes(pdu))


class LoadedLayer:
    """A generated layer loaded into odxtools, with its reference interpreter."""

    def __init__(self, model: J):
        self.model = model
        self.ref = refodx.Ref(model)
        self.layer = odxgen.load_layer(model)
        self.requests = {r.short_name: r for r in self._all("requests")}
        self.pos = {r.short_name: r for r in self._all("positive_responses")}
        self.neg = {r.short_name: r for r in self._all("negative_responses")}

    def _all(self, what: str) -> List[Any]:
        res = []
        seen = set()
        for svc in self.layer.services:
            objs = [svc.request] if what == "requests" else list(getattr(svc, what))
            for o in objs:
                if o is not None and id(o) not in seen:
                    seen.add(id(o))
                    res.append(o)
        return res


def ref_encode(ref: refodx.Ref, msg: J, values: Dict[str, Any],
               request: Optional[bytes] = None) -> Tuple[str, Any]:
    """-> ("ok", Encoded) | ("unrepresentable", cls) | ("skip", reason)"""
    try:
        return "ok", ref.encode(msg, values, request)
    except refodx.Unrepresentable as e:
        return "unrepresentable", e.cls
    except refodx.Skip as e:
        return "skip", str(e)


def ref_decode(ref: refodx.Ref, msg: J, pdu: bytes,
               request: Optional[bytes] = None) -> Tuple[str, Any]:
    """-> ("ok", (values, end)) | ("short"|"mismatch"|"invalid"|"skip", text)"""
    try:
        return "ok", ref.decode(msg, pdu, request)
    except refodx.Short as e:
        return "short", str(e)
    except refodx.Mismatch as e:
        return "mismatch-leading" if e.leading else "mismatch", str(e)
    except refodx.Invalid as e:
        return "invalid", str(e)
    except refodx.Skip as e:
        return "skip", str(e)


def feat_key(f: J, *extra: Any) -> Tuple:
    return (f.get("dct"), f.get("base"), f.get("enc"), f.get("hilo"), f.get("compu"),
            f.get("shape"), f.get("bits"), f.get("bitpos"), f.get("mask"), f.get("term")) + extra


def feat_sig(f: J) -> str:
    """Categorical description of a grid cell for signatures (no sizes / random values)."""
    parts = [str(f.get("dct")), str(f.get("base")), str(f.get("enc") or "-"),
             "lohi" if f.get("hilo") is False else "hilo", str(f.get("compu"))]
    if f.get("mask") is not None:
        parts.append("condensed-mask" if f.get("cond") else "mask")
    if f.get("bitpos"):
        parts.append("bitpos")
    return "/".join(parts)
