"""Running encode/decode on the real code and recording what happened (events at the API)."""
from __future__ import annotations

import warnings
from typing import Any, Dict, List, Optional, Tuple

from . import common, odxgen, refodx

J = Dict[str, Any]


class Outcome:
    """Result of one API call: value or exception, plus warnings of category OdxWarning."""

    __slots__ = ("value", "exc", "exc_type", "exc_family", "overlap_warnings", "other_warnings")

    def __init__(self) -> None:
        self.value: Any = None
        self.exc: Optional[BaseException] = None
        self.exc_type = ""
        self.exc_family = ""   # EncodeError | DecodeError | OdxError | foreign
        self.overlap_warnings = 0
        self.other_warnings: List[str] = []

    @property
    def ok(self) -> bool:
        return self.exc is None

    def brief(self) -> Any:
        if self.ok:
            return {"returned": self.value}
        return {"raised": self.exc_type, "family": self.exc_family, "msg": str(self.exc)[:200]}


def family(e: BaseException) -> str:
    from odxtools.exceptions import DecodeError, EncodeError, OdxError
    if isinstance(e, EncodeError):
        return "EncodeError"
    if isinstance(e, DecodeError):
        return "DecodeError"
    if isinstance(e, OdxError):
        return "OdxError"
    return "foreign"


class NonTermination(Exception):
    """Recorded (never raised into the code under test): the call was still running after the
    wall-clock trigger AND after LINE_BUDGET executed source lines."""


CALL_DEADLINE = 30.0        # seconds; a trigger only, never a verdict by itself
LINE_BUDGET = 30_000_000    # executed source lines (sys.monitoring LINE), the logical budget
NONTERM_SEEN = [0]
SLOW_CALLS = [0]


def call(fn: Any, *a: Any, **kw: Any) -> Outcome:
    """One call of the code under test.  Calls normally take milliseconds; one that runs into
    the wall-clock trigger is repeated under a line counter and recorded as NonTermination only
    if it exceeds the logical budget as well; a slow call that terminates within the budget is
    judged by the outcome of its repetition (the clock of a loaded machine decides nothing)."""
    o = Outcome()
    # after three confirmed non-terminations the verdict is settled; do not spend 30 s on each
    # of the (typically many) further inputs that hit the same loop
    limit = CALL_DEADLINE if NONTERM_SEEN[0] < 3 else 0.5
    with warnings.catch_warnings(record=True) as log:
        warnings.simplefilter("always")
        with common.deadline(limit) as dl:
            try:
                o.value = fn(*a, **kw)
            except (KeyboardInterrupt, SystemExit):
                raise
            except BaseException as e:  # noqa - the exception type is the observation
                o.exc = e
                o.exc_type = type(e).__name__
                o.exc_family = family(e)
        if dl.fired:
            again: Dict[str, Any] = {}

            def rerun() -> None:
                try:
                    again["value"] = fn(*a, **kw)
                except common.StepLimit:
                    raise
                except (KeyboardInterrupt, SystemExit):
                    raise
                except BaseException as e:  # noqa
                    again["exc"] = e

            if NONTERM_SEEN[0] >= 3 or common.runs_beyond(rerun, LINE_BUDGET):
                NONTERM_SEEN[0] += 1
                o.value = None
                o.exc = NonTermination(f"still running after {limit} s and {LINE_BUDGET} lines")
                o.exc_type = "NonTermination"
                o.exc_family = "foreign"
            else:
                # slow (loaded machine), but it terminates within the logical budget: the
                # repeated call's own outcome is the observation
                SLOW_CALLS[0] += 1
                o.value, o.exc, o.exc_type, o.exc_family = None, None, "", ""
                if "exc" in again:
                    o.exc = again["exc"]
                    o.exc_type = type(o.exc).__name__
                    o.exc_family = family(o.exc)
                else:
                    o.value = again.get("value")
    for w in log:
        names = [c.__name__ for c in type(w.message).__mro__]
        if "OdxWarning" in names and "verlapping" in str(w.message):
            o.overlap_warnings += 1
        else:
            o.other_warnings.append(f"{type(w.message).__name__}: {str(w.message)[:80]}")
    return o


def encode(obj: Any, values: Dict[str, Any], request: Optional[bytes] = None) -> Outcome:
    if request is not None:
        o = call(obj.encode, coded_request=request, **values)
    else:
        o = call(obj.encode, **values)
    if o.ok:
        o.value = bytes(o.value)
    return o


def decode(obj: Any, pdu: bytes) -> Outcome:
    return call(obj.decode, bytes(pdu))


class LoadedLayer:
    """A generated layer loaded into odxtools, with its reference interpreter."""

    def __init__(self, model: J):
        self.model = model
        self.ref = refodx.Ref(model)
        self.layer = odxgen.load_layer(model)
        self.requests = {r.short_name: r for r in self._all("requests")}
        self.pos = {r.short_name: r for r in self._all("positive_responses")}
        self.neg = {r.short_name: r for r in self._all("negative_responses")}

    def _all(self, what: str) -> List[Any]:
        res = []
        seen = set()
        for svc in self.layer.services:
            objs = [svc.request] if what == "requests" else list(getattr(svc, what))
            for o in objs:
                if o is not None and id(o) not in seen:
                    seen.add(id(o))
                    res.append(o)
        return res


def ref_encode(ref: refodx.Ref, msg: J, values: Dict[str, Any],
               request: Optional[bytes] = None) -> Tuple[str, Any]:
    """-> ("ok", Encoded) | ("unrepresentable", cls) | ("skip", reason)"""
    try:
        return "ok", ref.encode(msg, values, request)
    except refodx.Unrepresentable as e:
        return "unrepresentable", e.cls
    except refodx.Skip as e:
        return "skip", str(e)


def ref_decode(ref: refodx.Ref, msg: J, pdu: bytes, request: Optional[bytes] = None,
               request_const_len: Optional[int] = None) -> Tuple[str, Any]:
    """-> ("ok", (values, end)) | ("short"|"mismatch"|"invalid"|"skip", text)"""
    try:
        return "ok", ref.decode(msg, pdu, request, request_const_len)
    except refodx.Short as e:
        return "short", str(e)
    except refodx.Mismatch as e:
        if getattr(e, "nrc", False):
            return "mismatch-nrc", str(e)
        return "mismatch-leading" if e.leading else "mismatch", str(e)
    except refodx.Invalid as e:
        return "invalid", str(e)
    except refodx.Skip as e:
        return "skip", str(e)


def feat_key(f: J, *extra: Any) -> Tuple:
    return (f.get("dct"), f.get("base"), f.get("enc"), f.get("hilo"), f.get("compu"),
            f.get("shape"), f.get("bits"), f.get("bitpos"), f.get("mask"), f.get("term")) + extra


def feat_sig(f: J) -> str:
    """Categorical description of a grid cell for signatures (no sizes / random values)."""
    parts = [str(f.get("dct")), str(f.get("base")), str(f.get("enc") or "-"),
             "lohi" if f.get("hilo") is False else "hilo", str(f.get("compu"))]
    if f.get("mask") is not None:
        parts.append("condensed-mask" if f.get("cond") else "mask")
    if f.get("bitpos"):
        parts.append("bitpos")
    return "/".join(parts)


def requested_in(decoded: Any, requested: Any, rel: float = 1e-9) -> bool:
    """True if every value the caller supplied is found (recursively) in the decoded result."""
    if isinstance(requested, dict):
        if not isinstance(decoded, dict):
            return False
        for k, v in requested.items():
            if v is None:
                continue  # None means "not supplied" for odxtools
            if k not in decoded or not requested_in(decoded[k], v, rel):
                return False
        return True
    if isinstance(decoded, (list, tuple)) and len(decoded) == 0 and \
            isinstance(requested, (list, tuple, bytes, bytearray, str)) and len(requested) == 0:
        return True  # any empty sequence given for a field is an empty list of items
    if isinstance(requested, (list, tuple)) and not isinstance(requested, (bytes, bytearray)):
        if not isinstance(decoded, (list, tuple)) or len(decoded) != len(requested):
            return False
        return all(requested_in(d, r, rel) for d, r in zip(decoded, requested))
    return refodx.values_equal(decoded, requested, rel)


def describe_param(ref: refodx.Ref, p: J) -> str:
    """Categorical description of what a parameter is made of (for signatures)."""
    if p.get("dop") and p["dop"] in ref.dobjs:
        o = ref.dobjs[p["dop"]]
        if o["t"] in ("DOP", "DTCDOP"):
            d = o["dct"]
            parts = [p["p"], o["t"], d["k"], d["base"], str(d.get("enc") or "-")]
            if d.get("mask") is not None:
                parts.append("condensed-mask" if d.get("cond") else "mask")
            if o["compu"]["cat"] != "IDENTICAL":
                parts.append(o["compu"]["cat"])
            return "/".join(parts)
        return p["p"] + "/" + o["t"]
    return p["p"]


def offender(ref: refodx.Ref, msg: J, decoded: Any, expected: Any) -> str:
    """Which parameter of the message reads back differently from what was requested."""
    if not isinstance(expected, dict) or not isinstance(decoded, dict):
        return "message"
    names = {p["name"] for p in msg["params"]}
    for k, v in expected.items():
        if k not in names and v is not None:
            return "unknown-parameter"
    for p in msg["params"]:
        n = p["name"]
        if expected.get(n) is None:
            continue
        if n not in decoded or not requested_in(decoded[n], expected[n]):
            o = ref.dobjs.get(p.get("dop") or "")
            if o is not None and o["t"] == "STRUCT" and isinstance(expected[n], dict) and \
                    isinstance(decoded.get(n), dict):
                inner = offender(ref, o, decoded[n], expected[n])
                if inner not in ("unlocated", "message"):
                    return inner
            return describe_param(ref, p)
    return "unlocated"


def coarse_cell(f: J) -> str:
    parts = [str(f.get("dct") or f.get("shape")), str(f.get("base") or ""), str(f.get("enc") or "")]
    if f.get("mask") is not None:
        parts.append("condensed-mask" if f.get("cond") else "mask")
    if f.get("compu") not in (None, "IDENTICAL"):
        parts.append(str(f.get("compu")))
    return "/".join(p for p in parts if p)


def vclass(v: Any) -> str:
    if v is None:
        return "None"
    if isinstance(v, bool):
        return "bool"
    if isinstance(v, int):
        return "int"
    if isinstance(v, float):
        return "float"
    if isinstance(v, str):
        return "str"
    if isinstance(v, (bytes, bytearray)):
        return type(v).__name__
    return type(v).__name__


def offender_any(ref: refodx.Ref, msg: J) -> str:
    """Coarse description of a message's make-up when no single parameter can be blamed."""
    kinds = sorted({describe_param(ref, p).split("/")[-1] if p.get("dop") and
                    ref.dobjs.get(p["dop"], {}).get("t") not in ("DOP", "DTCDOP")
                    else p["p"] for p in msg["params"]})
    return "+".join(kinds)


def mask_class(ref: refodx.Ref, params: List[J], values: Any) -> str:
    """Do the supplied values of BIT-MASKed parameters stay within their masks?"""
    if not isinstance(values, dict):
        return "no-mask"
    res = "no-mask"
    for p in params:
        o = ref.dobjs.get(p.get("dop") or "")
        v = values.get(p["name"])
        if o is None or v is None:
            continue
        if o["t"] == "STRUCT":
            sub = mask_class(ref, o["params"], v)
            if sub == "value-outside-mask":
                return sub
            if sub != "no-mask":
                res = sub
        elif o["t"] == "DOP" and o["dct"].get("mask") is not None:
            m = o["dct"]["mask"]
            if isinstance(v, (bytes, bytearray)):
                iv = int.from_bytes(v, "big")
            elif isinstance(v, int) and not isinstance(v, bool):
                iv = v
            else:
                return "value-outside-mask"
            if iv < 0 or (iv & ~m):
                return "value-outside-mask"
            res = "value-within-mask"
    return res
