"""Generators of message descriptions (odxgen model) and of value assignments.

grid mode   : one value-carrying parameter per message, cross product of diag-coded type x base
              type x encoding x byte order x bit length x bit position x compu x message shape
probes/compose live in codeccompose.py
"""
from __future__ import annotations

import random
from typing import Any, Dict, Iterable, List, Optional, Tuple

from .odxgen import (compu_identical, dct_leading, dct_minmax, dct_paramlen, dct_std, dop, p_const,
                     p_value, u8const)

J = Dict[str, Any]

QUICK_BITS = [1, 3, 7, 8, 9, 12, 15, 16, 17, 24, 31, 32, 33, 63, 64]
INT_ENCS = {"A_UINT32": [None, "NONE", "BCD-P", "BCD-UP"], "A_INT32": [None, "2C", "1C", "SM"]}
STR_ENCS = {"A_ASCIISTRING": [None, "ISO-8859-1", "ISO-8859-2", "WINDOWS-1252"],
            "A_UTF8STRING": [None, "UTF-8"],
            "A_UNICODE2STRING": [None, "UCS-2"]}

WRONG_POOL: List[Any] = [None, True, 0, -1, 2**70, 1.5, "", "7", "x" * 300, b"", b"\x00" * 300,
                         bytearray(b"\x01"), [], [1], {}, {"a": 1}, (1, 2),
                         float("nan"), float("inf"), float("-inf"), -0.0, 1e308, 5e-324]
NON_FINITE: List[Any] = [float("nan"), float("inf"), float("-inf")]


def linear(n0: Any, n1: Any, d0: Any = None, lo: Any = None, hi: Any = None) -> J:
    sc: J = {"num": [n0, n1]}
    if d0 is not None:
        sc["den"] = [d0]
    if lo is not None:
        sc["lo"] = lo
    if hi is not None:
        sc["hi"] = hi
    return {"cat": "LINEAR", "i2p": {"scales": [sc]}}


def texttable(pairs: List[Tuple[int, str]]) -> J:
    return {"cat": "TEXTTABLE",
            "i2p": {"scales": [{"lo": (k, "CLOSED"), "hi": (k, "CLOSED"), "const": {"vt": t}}
                               for k, t in pairs]}}


# ---------------------------------------------------------------------------
# grid of data object properties


def grid_dops(tier: str, r: random.Random) -> List[Tuple[J, J]]:
    """-> list of (dop model without name, feature dict)"""
    out: List[Tuple[J, J]] = []
    bits_all = QUICK_BITS if tier == "quick" else list(range(1, 65))

    def add(dct: J, ptype: Optional[str] = None, compu: Optional[J] = None, **feat: Any) -> None:
        d = dop("x", dct, ptype, compu)
        f = {"dct": dct["k"], "base": dct["base"], "enc": dct.get("enc"), "hilo": dct.get("hilo"),
             "compu": (compu or {"cat": "IDENTICAL"})["cat"]}
        f.update(feat)
        out.append((d, f))

    # STANDARD-LENGTH integers
    for base in ("A_UINT32", "A_INT32"):
        for enc in INT_ENCS[base]:
            for hilo in (None, False):
                for n in bits_all:
                    if enc == "BCD-UP" and n < 8 and n not in (4,):
                        pass
                    if base == "A_INT32" and n == 1 and enc in ("1C", "SM"):
                        continue  # degenerate: only +-0
                    bitposs = range(8) if (tier == "thorough" or n in (1, 3, 12, 17)) else \
                        (0, r.randrange(1, 8))
                    for bp in bitposs:
                        add(dct_std(base, n, enc, hilo), bits=n, bitpos=bp)
    # bit masks (non-condensed; condensed ones for the round-trip-only checks)
    for base in ("A_UINT32", "A_INT32"):
        for n, mask in ((8, 0x0F), (8, 0xF0), (8, 0xA5), (16, 0x0FF0), (16, 0xFF00), (12, 0x0F0),
                        (32, 0x00FFFF00), (16, 0x8001)):
            for hilo in (None, False):
                for cond in (None, False, True):
                    add(dct_std(base, n, None, hilo, mask, cond), bits=n, bitpos=0, mask=mask,
                        cond=bool(cond))
    for n, mask in ((16, 0x0FF0), (24, 0xFF00FF)):
        add(dct_std("A_BYTEFIELD", n, None, None, mask), bits=n, bitpos=0, mask=mask, cond=False)
    # floats
    for base, n in (("A_FLOAT32", 32), ("A_FLOAT64", 64)):
        for hilo in (None, True, False):
            add(dct_std(base, n, None, hilo), bits=n, bitpos=0)
    # fixed-size strings and byte fields
    for base, encs in list(STR_ENCS.items()) + [("A_BYTEFIELD", [None])]:
        for enc in encs:
            for n in (8, 16, 32, 64):
                if base == "A_UNICODE2STRING" and n == 8:
                    continue
                for hilo in ((None, False) if base == "A_UNICODE2STRING" else (None,)):
                    add(dct_std(base, n, enc, hilo), bits=n, bitpos=0)
    # MIN-MAX-LENGTH
    for base, encs in list(STR_ENCS.items()) + [("A_BYTEFIELD", [None])]:
        for enc in encs[:2]:
            for term in ("ZERO", "HEX-FF", "END-OF-PDU"):
                for mn, mx in ((0, None), (1, 4), (2, 6), (2, 2), (0, 8)):
                    add(dct_minmax(base, mn, mx, term, enc), min=mn, max=mx, term=term)
    # LEADING-LENGTH-INFO
    for base, encs in list(STR_ENCS.items()) + [("A_BYTEFIELD", [None])]:
        for enc in encs:
            for n, bp in ((8, 0), (16, 0), (4, 0), (4, 4), (12, 2)):
                for hilo in (None, False):
                    add(dct_leading(base, n, enc, hilo), bits=n, bitpos=bp)
    # compu methods on integers / floats
    for base, n in (("A_UINT32", 8), ("A_INT32", 8), ("A_UINT32", 12), ("A_INT32", 16)):
        add(dct_std(base, n), "A_INT32", linear(1, 2), bits=n, bitpos=0)
        add(dct_std(base, n), "A_INT32", linear(-3, -1), bits=n, bitpos=0)
        add(dct_std(base, n), "A_FLOAT64", linear(0, 1, 2), bits=n, bitpos=0)
        add(dct_std(base, n), "A_FLOAT64", linear(-40, 0.5), bits=n, bitpos=0)
        add(dct_std(base, n), "A_INT32", linear(0, 1, None, (2, "CLOSED"), (100, "CLOSED")),
            bits=n, bitpos=0, limits=True)
        add(dct_std(base, n), "A_INT32", linear(0, 1, None, (2, "OPEN"), (100, "OPEN")),
            bits=n, bitpos=0, limits=True)
    add(dct_std("A_UINT32", 8), "A_UNICODE2STRING",
        texttable([(0, "off"), (1, "on"), (7, "auto"), (255, "n/a")]), bits=8, bitpos=0)
    add(dct_std("A_UINT32", 3), "A_UNICODE2STRING",
        texttable([(0, "a"), (5, "b")]), bits=3, bitpos=2)
    add(dct_std("A_FLOAT64", 64), "A_FLOAT64", linear(1.5, 2.0), bits=64, bitpos=0)
    add(dct_std("A_FLOAT32", 32), "A_FLOAT64", linear(0, 0.25), bits=32, bitpos=0)
    return out


SHAPES = ["last", "followed", "gap", "nested"]


def wrap(idx: int, d: J, f: J, shape: str) -> Tuple[List[J], J, J]:
    """-> (data objects, request, positive response)"""
    d = dict(d)
    d["name"] = f"d{idx}"
    bp = f.get("bitpos") or None
    dobjs = [d]
    tgt = p_value("x", d["name"], bit=bp)
    if shape == "last":
        params = [u8const("sid", 0x22), tgt]
    elif shape == "followed":
        params = [u8const("sid", 0x22), tgt, u8const("tail", 0xEE)]
    elif shape == "gap":
        tgt = p_value("x", d["name"], byte=3, bit=bp)
        params = [u8const("sid", 0x22), tgt]
    elif shape == "nested":
        st = {"t": "STRUCT", "name": f"s{idx}", "params": [u8const("h", 0x5A), tgt]}
        dobjs.append(st)
        params = [u8const("sid", 0x22), p_value("st", st["name"])]
    else:
        raise ValueError(shape)
    rq = {"name": f"rq{idx}", "params": params, "feat": dict(f, shape=shape)}
    rparams = [u8const("rsid", 0x62),
               {"p": "MATCHING-REQUEST-PARAM", "name": "echo", "req_pos": 0, "len": 1}]
    rparams += [dict(p) for p in params[1:]]
    pr = {"name": f"pr{idx}", "params": rparams, "for": rq["name"], "feat": dict(f, shape=shape)}
    return dobjs, rq, pr


def shapes_for(f: J, tier: str, r: random.Random) -> List[str]:
    if f["dct"] == "MINMAX":
        if f["term"] == "END-OF-PDU":
            return ["last", "nested"]
        return ["last", "followed", "nested"]
    if tier == "thorough":
        return list(SHAPES)
    return ["last", r.choice(["followed", "gap", "nested"])]


def grid_layers(tier: str, seed: int, per_layer: int = 120) -> List[J]:
    """Layer models, each holding `per_layer` request/response pairs."""
    r = random.Random(seed * 7919 + 17)
    items = []
    for d, f in grid_dops(tier, r):
        for shape in shapes_for(f, tier, r):
            items.append((d, f, shape))
    layers = []
    for i in range(0, len(items), per_layer):
        chunk = items[i:i + per_layer]
        dobjs: List[J] = []
        rqs: List[J] = []
        prs: List[J] = []
        for k, (d, f, shape) in enumerate(chunk):
            o, rq, pr = wrap(i + k, d, f, shape)
            dobjs += o
            rqs.append(rq)
            prs.append(pr)
        layers.append({"kind": "BASE-VARIANT", "name": f"grid{i // per_layer}", "dobjs": dobjs,
                       "requests": rqs, "pos": prs, "neg": [], "gneg": [],
                       "services": [{"name": "svc_" + rq["name"], "request": rq["name"],
                                     "pos": [pr["name"]], "neg": []}
                                    for rq, pr in zip(rqs, prs)]})
    return layers


# ---------------------------------------------------------------------------
# values


def int_values(n: int, signed: bool, exhaustive_upto: int, r: random.Random) -> List[int]:
    if n <= exhaustive_upto:
        return list(range(-(1 << n) - 1, (1 << (n + 1)) + 1))
    vs = {0, 1, -1, 2, -2, 9, 10, 99, 100}
    for k in (n - 2, n - 1, n, n + 1):
        if k >= 0:
            for d in (-1, 0, 1):
                vs.add((1 << k) + d)
                vs.add(-(1 << k) + d)
    for _ in range(6):
        vs.add(r.randrange(-(1 << n), 1 << n))
    return sorted(vs)


CHARS = ["A", "z", "0", " ", "~", "é", "ÿ", "€", "ł", "語", "\x00", "\xff"]


def str_values(nbytes_hint: Optional[int], r: random.Random) -> List[str]:
    lens = {0, 1, 2, 3, 4, 5, 8} | ({nbytes_hint - 1, nbytes_hint, nbytes_hint + 1,
                                    nbytes_hint // 2} if nbytes_hint else set())
    out = []
    for ln in sorted(x for x in lens if x is not None and x >= 0):
        out.append("a" * ln)
        out.append("".join(r.choice(CHARS[:5]) for _ in range(ln)))
        if ln:
            out.append("".join(r.choice(CHARS) for _ in range(ln)))
    out += ["ab\x00cd", "ab\xffcd", "éé", "€", "語語"]
    return out


def bytes_values(nbytes_hint: Optional[int], r: random.Random) -> List[bytes]:
    lens = {0, 1, 2, 3, 4, 6, 8} | ({nbytes_hint - 1, nbytes_hint, nbytes_hint + 1}
                                    if nbytes_hint else set())
    out = []
    for ln in sorted(x for x in lens if x is not None and x >= 0):
        out.append(bytes(range(1, ln + 1)))
        out.append(bytes(r.getrandbits(8) for _ in range(ln)))
    out += [b"\x01\x00\x02", b"\x01\xff\x02", b"\x00", b"\xff\xff", b"\x00\x00\x00\x00"]
    return out


FLOATS = [0.0, 1.0, -1.0, 1.5, -2.25, 0.1, 1e10, -1e-10, 3.4028234e38, 1e39, -1e39, 1.7e308, 255,
          3]


def values_for_dop(d: J, tier: str, r: random.Random, hostile: bool) -> List[Any]:
    dct = d["dct"]
    base = dct["base"]
    compu = d["compu"]["cat"]
    exh = 8 if tier == "quick" else 12
    vals: List[Any] = []
    if compu == "TEXTTABLE":
        vals = [sc["const"]["vt"] for sc in d["compu"]["i2p"]["scales"]]
        if hostile:
            vals += ["nope", "", 1, None]
    elif d["ptype"] in ("A_INT32", "A_UINT32"):
        n = dct.get("bits", 16)
        if compu == "LINEAR":
            sc = d["compu"]["i2p"]["scales"][0]
            n0, n1 = sc["num"][0], sc["num"][1]
            ints = int_values(min(n, 10), base == "A_INT32", exh, r)
            vals = sorted({int(n0 + n1 * i) for i in ints} | {int(n0 + n1 * i) + 1 for i in ints[:40]})
        else:
            vals = int_values(n, base == "A_INT32", exh, r)
        if hostile:
            vals += [1.0, 2.5, "1", None, True] + NON_FINITE
    elif d["ptype"] in ("A_FLOAT32", "A_FLOAT64"):
        if compu == "LINEAR" and base in ("A_INT32", "A_UINT32"):
            sc = d["compu"]["i2p"]["scales"][0]
            n0, n1 = sc["num"][0], sc["num"][1]
            d0 = (sc.get("den") or [1])[0]
            n = dct.get("bits", 8)
            ints = int_values(min(n, 9), base == "A_INT32", exh, r)
            vals = sorted({(n0 + n1 * i) / d0 for i in ints})
            vals += [v + 0.2 * abs(n1 / d0) for v in vals[:30]]
        else:
            vals = list(FLOATS) + [r.uniform(-1e6, 1e6) for _ in range(4)]
        if hostile:
            vals += ["1.0", None, b"\x00"] + NON_FINITE
    elif base == "A_BYTEFIELD":
        hint = dct["bits"] // 8 if dct["k"] == "STD" else dct.get("max") or 4
        vals = bytes_values(hint, r)
        if hostile:
            vals += ["ab", 5, None, [1, 2]]
    else:
        if dct["k"] == "STD":
            hint = dct["bits"] // (16 if base == "A_UNICODE2STRING" else 8)
        else:
            hint = dct.get("max") or 4
        vals = str_values(hint, r)
        if hostile:
            vals += [b"ab", 5, None, 1.5]
    if hostile:
        vals += r.sample(WRONG_POOL, 4)
    return vals


def assignments_for(msg: J, dobjs: Dict[str, J], tier: str, r: random.Random,
                    hostile: bool) -> List[Dict[str, Any]]:
    """Value assignments for a grid message (single target named x, possibly nested in st)."""
    params = msg["params"]
    nested = next((p for p in params if p["name"] == "st"), None)
    if nested is not None:
        st = dobjs[nested["dop"]]
        d = dobjs[next(p for p in st["params"] if p["name"] == "x")["dop"]]
        vals = values_for_dop(d, tier, r, hostile)
        out = [{"st": {"x": v}} for v in vals]
        if hostile:
            out += [{"st": {}}, {"st": None}, {"st": 5}, {"st": {"x": vals[0], "y": 1}}, {}]
        return out
    d = dobjs[next(p for p in params if p["name"] == "x")["dop"]]
    vals = values_for_dop(d, tier, r, hostile)
    out = [{"x": v} for v in vals]
    if hostile:
        out += [{}, {"x": vals[0], "nosuch": 1}, {"sid": 0x23, "x": vals[0]}]
    return out
