"""Description model (plain JSON-able dicts) -> ODX 2.2 XML -> odxtools Database.

The model is deliberately tiny and JSON serialisable so that a failing description can be
stored in a replay file and re-executed.  See the builder helpers at the bottom for the
shape of each node.  Nothing here imports odxtools except `load()`.
"""
from __future__ import annotations

import os
import tempfile
from typing import Any, Dict, Iterable, List, Optional, Tuple
from xml.sax.saxutils import escape, quoteattr

J = Dict[str, Any]


# ---------------------------------------------------------------------------
# builders (shape documentation)


def dct_std(base: str, bits: int, enc: Optional[str] = None, hilo: Optional[bool] = None,
            mask: Optional[int] = None, cond: Optional[bool] = None) -> J:
    return {"k": "STD", "base": base, "enc": enc, "hilo": hilo, "bits": bits, "mask": mask,
            "cond": cond}


def dct_minmax(base: str, mn: int, mx: Optional[int], term: str, enc: Optional[str] = None,
               hilo: Optional[bool] = None) -> J:
    return {"k": "MINMAX", "base": base, "enc": enc, "hilo": hilo, "min": mn, "max": mx,
            "term": term}


def dct_leading(base: str, bits: int, enc: Optional[str] = None,
                hilo: Optional[bool] = None) -> J:
    return {"k": "LEAD", "base": base, "enc": enc, "hilo": hilo, "bits": bits}


def dct_paramlen(base: str, key_id: str, enc: Optional[str] = None,
                 hilo: Optional[bool] = None) -> J:
    return {"k": "PLEN", "base": base, "enc": enc, "hilo": hilo, "key_id": key_id}


def compu_identical() -> J:
    return {"cat": "IDENTICAL"}


def dop(name: str, dct: J, ptype: Optional[str] = None, compu: Optional[J] = None,
        **kw: Any) -> J:
    d = {"t": "DOP", "name": name, "dct": dct, "ptype": ptype or dct["base"],
         "compu": compu or compu_identical()}
    d.update(kw)
    return d


def p_const(name: str, dct: J, value: Any, byte: Optional[int] = None,
            bit: Optional[int] = None) -> J:
    return {"p": "CODED-CONST", "name": name, "byte": byte, "bit": bit, "dct": dct,
            "value": value}


def p_value(name: str, dop_name: str, byte: Optional[int] = None, bit: Optional[int] = None,
            default: Optional[str] = None, **kw: Any) -> J:
    d = {"p": "VALUE", "name": name, "byte": byte, "bit": bit, "dop": dop_name,
         "default": default}
    d.update(kw)
    return d


def u8const(name: str, value: int, byte: Optional[int] = None) -> J:
    return p_const(name, dct_std("A_UINT32", 8), value, byte)


# ---------------------------------------------------------------------------
# XML emission


def _attr(name: str, value: Any) -> str:
    if value is None:
        return ""
    if isinstance(value, bool):
        value = "true" if value else "false"
    return f" {name}={quoteattr(str(value))}"


def _tag(name: str, text: Any) -> str:
    if text is None:
        return ""
    return f"<{name}>{escape(str(text))}</{name}>"


def fmt_value(v: Any) -> str:
    """Textual form of a constant as ODX expects it for the given python value."""
    if isinstance(v, (bytes, bytearray)):
        return bytes(v).hex().upper()
    if isinstance(v, bool):
        return "true" if v else "false"
    if isinstance(v, float):
        return repr(v)
    return str(v)


def emit_dct(d: J) -> str:
    k = d["k"]
    xsi = {"STD": "STANDARD-LENGTH-TYPE", "MINMAX": "MIN-MAX-LENGTH-TYPE",
           "LEAD": "LEADING-LENGTH-INFO-TYPE", "PLEN": "PARAM-LENGTH-INFO-TYPE"}[k]
    s = "<DIAG-CODED-TYPE" + _attr("BASE-DATA-TYPE", d["base"]) + \
        _attr("BASE-TYPE-ENCODING", d.get("enc")) + \
        _attr("IS-HIGHLOW-BYTE-ORDER", d.get("hilo"))
    if k == "MINMAX":
        s += _attr("TERMINATION", d["term"])
    if k == "STD" and d.get("cond") is not None:
        s += _attr("IS-CONDENSED", d["cond"])
    s += f' xsi:type="{xsi}">'
    if k in ("STD", "LEAD"):
        s += _tag("BIT-LENGTH", d["bits"])
        if k == "STD" and d.get("mask") is not None:
            nn = max(2, (int(d["mask"]).bit_length() + 7) // 8 * 2)
            s += _tag("BIT-MASK", ("%0" + str(nn) + "X") % d["mask"])
    elif k == "MINMAX":
        if d.get("max") is not None:
            s += _tag("MAX-LENGTH", d["max"])
        s += _tag("MIN-LENGTH", d["min"])
    elif k == "PLEN":
        s += f'<LENGTH-KEY-REF ID-REF={quoteattr(d["key_id"])}/>'
    return s + "</DIAG-CODED-TYPE>"


def _limit(tag: str, lim: Any) -> str:
    """lim: None | (value|None, interval_type|None)"""
    if lim is None:
        return ""
    val, it = lim
    s = f"<{tag}" + _attr("INTERVAL-TYPE", it)
    if val is None:
        return s + "/>"
    return s + ">" + escape(fmt_value(val)) + f"</{tag}>"


def _v_or_vt(d: Optional[J]) -> str:
    if d is None:
        return ""
    s = ""
    if d.get("v") is not None:
        s += _tag("V", fmt_value(d["v"]))
    if d.get("vt") is not None:
        s += _tag("VT", d["vt"])
    return s


def _scale(sc: J) -> str:
    s = "<COMPU-SCALE>"
    s += _tag("SHORT-LABEL", sc.get("label"))
    s += _limit("LOWER-LIMIT", sc.get("lo"))
    s += _limit("UPPER-LIMIT", sc.get("hi"))
    if sc.get("inv") is not None:
        s += "<COMPU-INVERSE-VALUE>" + _v_or_vt(sc["inv"]) + "</COMPU-INVERSE-VALUE>"
    if sc.get("const") is not None:
        s += "<COMPU-CONST>" + _v_or_vt(sc["const"]) + "</COMPU-CONST>"
    if sc.get("num") is not None:
        s += "<COMPU-RATIONAL-COEFFS><COMPU-NUMERATOR>"
        s += "".join(_tag("V", fmt_value(v)) for v in sc["num"])
        s += "</COMPU-NUMERATOR>"
        if sc.get("den"):
            s += "<COMPU-DENOMINATOR>" + "".join(_tag("V", fmt_value(v)) for v in sc["den"]) + \
                "</COMPU-DENOMINATOR>"
        s += "</COMPU-RATIONAL-COEFFS>"
    return s + "</COMPU-SCALE>"


def _compu_dir(tag: str, d: Optional[J]) -> str:
    if d is None:
        return ""
    s = f"<{tag}><COMPU-SCALES>" + "".join(_scale(x) for x in d.get("scales", [])) + \
        "</COMPU-SCALES>"
    if d.get("prog_code") is not None:
        pc = d["prog_code"]
        s += "<PROG-CODE>" + _tag("CODE-FILE", pc["file"]) + _tag("SYNTAX", pc.get("syntax", "JAVA")) + \
            _tag("REVISION", pc.get("revision", "1")) + "</PROG-CODE>"
    if d.get("default") is not None:
        dv = d["default"]
        s += "<COMPU-DEFAULT-VALUE>" + _v_or_vt(dv)
        if dv.get("inv") is not None:
            s += "<COMPU-INVERSE-VALUE>" + _v_or_vt(dv["inv"]) + "</COMPU-INVERSE-VALUE>"
        s += "</COMPU-DEFAULT-VALUE>"
    return s + f"</{tag}>"


def emit_compu(c: J) -> str:
    s = "<COMPU-METHOD>" + _tag("CATEGORY", c["cat"])
    s += _compu_dir("COMPU-INTERNAL-TO-PHYS", c.get("i2p"))
    s += _compu_dir("COMPU-PHYS-TO-INTERNAL", c.get("p2i"))
    return s + "</COMPU-METHOD>"


class Ids:
    """ID scheme: <layer id>.<KIND>.<short name>"""

    def __init__(self, layer_id: str):
        self.layer = layer_id

    def of(self, kind: str, name: str) -> str:
        return f"{self.layer}.{kind}.{name}"


_DOBJ_KIND = {"DOP": "DOP", "DTCDOP": "DOP", "STRUCT": "DOP", "SFIELD": "DOP", "DLFIELD": "DOP",
              "EMFIELD": "DOP", "EOPFIELD": "DOP", "MUX": "DOP", "ENVDATA": "DOP",
              "ENVDESC": "DOP", "TABLE": "TAB"}


def dobj_id(ids: Ids, name: str) -> str:
    # all data objects share one ID namespace so that a DOP-REF can point to any of them
    return ids.of("DOP", name)


def _named(name: str, long_name: Optional[str] = None, desc: Optional[str] = None) -> str:
    s = _tag("SHORT-NAME", name) + _tag("LONG-NAME", long_name)
    if desc is not None:
        s += f"<DESC>{desc}</DESC>"
    return s


def emit_param(p: J, ids: Ids, owner_id: str) -> str:
    kind = p["p"]
    a = _attr("SEMANTIC", p.get("semantic")) + _attr("OID", p.get("oid"))
    if kind in ("LENGTH-KEY", "TABLE-KEY"):
        a += _attr("ID", p.get("id") or f"{owner_id}.{p['name']}")
    if kind == "SYSTEM":
        a += _attr("SYSPARAM", p.get("sysparam", "TIMESTAMP"))
    s = f'<PARAM{a} xsi:type="{kind}">' + _named(p["name"], p.get("long_name"))
    s += _tag("BYTE-POSITION", p.get("byte"))
    if kind == "MATCHING-REQUEST-PARAM":
        s += _tag("REQUEST-BYTE-POS", p["req_pos"])
    else:
        s += _tag("BIT-POSITION", p.get("bit"))
    if kind == "MATCHING-REQUEST-PARAM":
        s += _tag("BYTE-LENGTH", p["len"])
    if kind == "CODED-CONST":
        s += _tag("CODED-VALUE", fmt_value(p["value"])) + emit_dct(p["dct"])
    elif kind == "NRC-CONST":
        s += "<CODED-VALUES>" + "".join(_tag("CODED-VALUE", fmt_value(v)) for v in p["values"]) + \
            "</CODED-VALUES>" + emit_dct(p["dct"])
    elif kind == "RESERVED":
        s += _tag("BIT-LENGTH", p["bits"])
    elif kind in ("VALUE", "PHYS-CONST", "LENGTH-KEY", "SYSTEM"):
        if kind == "PHYS-CONST":
            s += _tag("PHYS-CONSTANT-VALUE", fmt_value(p["value"]))
        if kind == "VALUE" and p.get("default") is not None:
            s += _tag("PHYSICAL-DEFAULT-VALUE", fmt_value(p["default"]))
        if p.get("dop_snref"):
            s += f'<DOP-SNREF SHORT-NAME={quoteattr(p["dop"])}/>'
        else:
            ref = p.get("dop_id") or dobj_id(ids, p["dop"])
            s += f"<DOP-REF ID-REF={quoteattr(ref)}" + _attr("DOCREF", p.get("docref")) + \
                _attr("DOCTYPE", p.get("doctype")) + "/>"
    elif kind == "TABLE-KEY":
        if p.get("table") is not None:
            if p.get("snref"):
                s += f'<TABLE-SNREF SHORT-NAME={quoteattr(p["table"])}/>'
            else:
                s += f'<TABLE-REF ID-REF={quoteattr(ids.of("TAB", p["table"]))}/>'
        if p.get("row") is not None:
            tname, rname = p["row"]
            if p.get("snref"):
                s += f'<TABLE-ROW-SNREF SHORT-NAME={quoteattr(rname)}/>'
            else:
                s += f'<TABLE-ROW-REF ID-REF={quoteattr(ids.of("TAB", tname) + "." + rname)}/>'
    elif kind == "TABLE-STRUCT":
        if p.get("snref"):
            s += f'<TABLE-KEY-SNREF SHORT-NAME={quoteattr(p["key"])}/>'
        else:
            s += f'<TABLE-KEY-REF ID-REF={quoteattr(p.get("key_id") or owner_id + "." + p["key"])}/>'
    elif kind == "TABLE-ENTRY":
        tname, rname = p["row"]
        s += _tag("TARGET", p.get("target", "KEY")) + \
            f'<TABLE-ROW-REF ID-REF={quoteattr(ids.of("TAB", tname) + "." + rname)}/>'
    elif kind == "DYNAMIC":
        pass
    return s + "</PARAM>"


def _params(params: List[J], ids: Ids, owner_id: str) -> str:
    return "<PARAMS>" + "".join(emit_param(p, ids, owner_id) for p in params) + "</PARAMS>"


def _struct_ref(tag: str, ids: Ids, name: str, snref: bool = False) -> str:
    if snref:
        return f"<{tag[:-3]}SNREF SHORT-NAME={quoteattr(name)}/>"
    return f"<{tag} ID-REF={quoteattr(dobj_id(ids, name))}/>"


def emit_dobj(o: J, ids: Ids) -> Tuple[str, str]:
    """returns (section tag, xml)"""
    t = o["t"]
    oid = o.get("id") or dobj_id(ids, o["name"]) if t != "TABLE" else ids.of("TAB", o["name"])
    head = _attr("ID", oid) + _attr("OID", o.get("oid"))
    nm = _named(o["name"], o.get("long_name"), o.get("desc"))
    if t == "DOP":
        s = f"<DATA-OBJECT-PROP{head}>{nm}" + emit_compu(o["compu"]) + emit_dct(o["dct"])
        if o.get("precision") is not None or o.get("radix") is not None:
            # PRECISION / DISPLAY-RADIX are display hints: they must not change any value
            s += f'<PHYSICAL-TYPE BASE-DATA-TYPE="{o["ptype"]}"' + _attr("DISPLAY-RADIX", o.get("radix")) + \
                ">" + _tag("PRECISION", o.get("precision")) + "</PHYSICAL-TYPE>"
        else:
            s += f'<PHYSICAL-TYPE BASE-DATA-TYPE="{o["ptype"]}"/>'
        ic = o.get("iconstr")
        if ic is not None:
            s += "<INTERNAL-CONSTR>" + _limit("LOWER-LIMIT", ic.get("lo")) + \
                _limit("UPPER-LIMIT", ic.get("hi")) + "</INTERNAL-CONSTR>"
        if o.get("unit") is not None:
            s += f'<UNIT-REF ID-REF={quoteattr(ids.of("UNIT", o["unit"]))}/>'
        return "DATA-OBJECT-PROPS", s + "</DATA-OBJECT-PROP>"
    if t == "DTCDOP":
        s = f"<DTC-DOP{head}>{nm}" + emit_dct(o["dct"]) + \
            f'<PHYSICAL-TYPE BASE-DATA-TYPE="{o["ptype"]}"/>' + emit_compu(o["compu"]) + "<DTCS>"
        for d in o["dtcs"]:
            s += f'<DTC ID={quoteattr(oid + "." + d["name"])}>' + _tag("SHORT-NAME", d["name"]) + \
                _tag("TROUBLE-CODE", d["code"]) + _tag("DISPLAY-TROUBLE-CODE", d.get("display")) + \
                _tag("TEXT", d.get("text", d["name"])) + _tag("LEVEL", d.get("level")) + "</DTC>"
        s += "</DTCS>"
        if o.get("linked"):
            s += "<LINKED-DTC-DOPS>"
            for ln in o["linked"]:
                s += "<LINKED-DTC-DOP>"
                if ln.get("not_inherited"):
                    s += "<NOT-INHERITED-DTC-SNREFS>" + "".join(
                        f"<NOT-INHERITED-DTC-SNREF SHORT-NAME={quoteattr(n)}/>"
                        for n in ln["not_inherited"]) + "</NOT-INHERITED-DTC-SNREFS>"
                s += f'<DTC-DOP-REF ID-REF={quoteattr(dobj_id(ids, ln["dop"]))}/></LINKED-DTC-DOP>'
            s += "</LINKED-DTC-DOPS>"
        return "DTC-DOPS", s + "</DTC-DOP>"
    if t == "STRUCT":
        s = f"<STRUCTURE{head}>{nm}" + _tag("BYTE-SIZE", o.get("byte_size")) + \
            _params(o["params"], ids, oid) + "</STRUCTURE>"
        return "STRUCTURES", s
    if t == "SFIELD":
        s = f"<STATIC-FIELD{head}>{nm}" + _struct_ref("BASIC-STRUCTURE-REF", ids, o["struct"], o.get("snref")) + \
            _tag("FIXED-NUMBER-OF-ITEMS", o["n"]) + _tag("ITEM-BYTE-SIZE", o["item_size"])
        return "STATIC-FIELDS", s + "</STATIC-FIELD>"
    if t == "DLFIELD":
        s = f"<DYNAMIC-LENGTH-FIELD{head}>{nm}" + _struct_ref("BASIC-STRUCTURE-REF", ids, o["struct"], o.get("snref")) + \
            _tag("OFFSET", o["offset"]) + "<DETERMINE-NUMBER-OF-ITEMS>" + \
            _tag("BYTE-POSITION", o["cnt_byte"]) + _tag("BIT-POSITION", o.get("cnt_bit")) + \
            f'<DATA-OBJECT-PROP-REF ID-REF={quoteattr(dobj_id(ids, o["cnt_dop"]))}/>' + \
            "</DETERMINE-NUMBER-OF-ITEMS></DYNAMIC-LENGTH-FIELD>"
        return "DYNAMIC-LENGTH-FIELDS", s
    if t == "EMFIELD":
        s = f"<DYNAMIC-ENDMARKER-FIELD{head}>{nm}" + _struct_ref("BASIC-STRUCTURE-REF", ids, o["struct"], o.get("snref")) + \
            f'<DATA-OBJECT-PROP-REF ID-REF={quoteattr(dobj_id(ids, o["term_dop"]))}>' + \
            _tag("TERMINATION-VALUE", fmt_value(o["term_value"])) + "</DATA-OBJECT-PROP-REF>" + \
            "</DYNAMIC-ENDMARKER-FIELD>"
        return "DYNAMIC-ENDMARKER-FIELDS", s
    if t == "EOPFIELD":
        s = f"<END-OF-PDU-FIELD{head}>{nm}" + _struct_ref("BASIC-STRUCTURE-REF", ids, o["struct"], o.get("snref")) + \
            _tag("MAX-NUMBER-OF-ITEMS", o.get("max")) + _tag("MIN-NUMBER-OF-ITEMS", o.get("min")) + \
            "</END-OF-PDU-FIELD>"
        return "END-OF-PDU-FIELDS", s
    if t == "MUX":
        k = o["key"]
        s = f"<MUX{head}>{nm}" + _tag("BYTE-POSITION", o["byte_pos"]) + "<SWITCH-KEY>" + \
            _tag("BYTE-POSITION", k["byte"]) + _tag("BIT-POSITION", k.get("bit")) + \
            f'<DATA-OBJECT-PROP-REF ID-REF={quoteattr(dobj_id(ids, k["dop"]))}/></SWITCH-KEY>'
        if o.get("default") is not None:
            dc = o["default"]
            s += "<DEFAULT-CASE>" + _named(dc["name"])
            if dc.get("struct") is not None:
                s += _struct_ref("STRUCTURE-REF", ids, dc["struct"], dc.get("snref"))
            s += "</DEFAULT-CASE>"
        if o.get("cases"):
            s += "<CASES>"
            for c in o["cases"]:
                s += "<CASE>" + _named(c["name"])
                if c.get("struct") is not None:
                    s += _struct_ref("STRUCTURE-REF", ids, c["struct"], c.get("snref"))
                s += _limit("LOWER-LIMIT", (c["lo"], c.get("lo_type"))) + \
                    _limit("UPPER-LIMIT", (c["hi"], c.get("hi_type"))) + "</CASE>"
            s += "</CASES>"
        return "MUXS", s + "</MUX>"
    if t == "TABLE":
        s = f"<TABLE{head}" + _attr("SEMANTIC", o.get("semantic")) + f">{nm}"
        s += _tag("KEY-LABEL", o.get("key_label")) + _tag("STRUCT-LABEL", o.get("struct_label"))
        if o.get("key_dop") is not None:
            s += f'<KEY-DOP-REF ID-REF={quoteattr(dobj_id(ids, o["key_dop"]))}/>'
        for r in o["rows"]:
            s += f'<TABLE-ROW ID={quoteattr(oid + "." + r["name"])}' + \
                _attr("SEMANTIC", r.get("semantic")) + ">" + _named(r["name"], r.get("long_name")) + \
                _tag("KEY", fmt_value(r["key"]))
            if r.get("dop") is not None:
                s += f'<DATA-OBJECT-PROP-REF ID-REF={quoteattr(dobj_id(ids, r["dop"]))}/>'
            if r.get("struct") is not None:
                s += _struct_ref("STRUCTURE-REF", ids, r["struct"], r.get("snref"))
            s += "</TABLE-ROW>"
        return "TABLES", s + "</TABLE>"
    if t == "ENVDATA":
        s = f"<ENV-DATA{head}>{nm}" + _params(o["params"], ids, oid)
        if o.get("dtcs"):
            s += "<DTC-VALUES>" + "".join(_tag("DTC-VALUE", v) for v in o["dtcs"]) + "</DTC-VALUES>"
        else:
            s += "<ALL-VALUE/>"
        return "ENV-DATAS", s + "</ENV-DATA>"
    if t == "ENVDESC":
        s = f"<ENV-DATA-DESC{head}>{nm}"
        if o.get("param_snpathref"):
            s += f'<PARAM-SNPATHREF SHORT-NAME-PATH={quoteattr(o["param_snpathref"])}/>'
        else:
            s += f'<PARAM-SNREF SHORT-NAME={quoteattr(o["param_snref"])}/>'
        s += "<ENV-DATA-REFS>" + "".join(
            f'<ENV-DATA-REF ID-REF={quoteattr(dobj_id(ids, n))}/>' for n in o["envdatas"]) + \
            "</ENV-DATA-REFS></ENV-DATA-DESC>"
        return "ENV-DATA-DESCS", s
    raise ValueError(t)


_DDDS_ORDER = ["DTC-DOPS", "ENV-DATA-DESCS", "DATA-OBJECT-PROPS", "STRUCTURES", "STATIC-FIELDS",
               "DYNAMIC-LENGTH-FIELDS", "DYNAMIC-ENDMARKER-FIELDS", "END-OF-PDU-FIELDS", "MUXS",
               "ENV-DATAS", "UNIT-SPEC", "TABLES"]

_LAYER_TAGS = {"PROTOCOL": ("PROTOCOLS", "PROTOCOL"),
               "FUNCTIONAL-GROUP": ("FUNCTIONAL-GROUPS", "FUNCTIONAL-GROUP"),
               "ECU-SHARED-DATA": ("ECU-SHARED-DATAS", "ECU-SHARED-DATA"),
               "BASE-VARIANT": ("BASE-VARIANTS", "BASE-VARIANT"),
               "ECU-VARIANT": ("ECU-VARIANTS", "ECU-VARIANT")}
_CONTAINER_ORDER = ["PROTOCOLS", "FUNCTIONAL-GROUPS", "ECU-SHARED-DATAS", "BASE-VARIANTS",
                    "ECU-VARIANTS"]


def emit_message(tag: str, kind: str, m: J, ids: Ids) -> str:
    mid = m.get("id") or ids.of(kind, m["name"])
    return f"<{tag}{_attr('ID', mid)}{_attr('OID', m.get('oid'))}>" + \
        _named(m["name"], m.get("long_name"), m.get("desc")) + \
        (_params(m["params"], ids, mid) if m.get("params") else "") + f"</{tag}>"


def emit_service(s: J, ids: Ids) -> str:
    sid = s.get("id") or ids.of("SVC", s["name"])
    x = f"<DIAG-SERVICE{_attr('ID', sid)}{_attr('OID', s.get('oid'))}" + \
        _attr("SEMANTIC", s.get("semantic")) + _attr("ADDRESSING", s.get("addressing")) + ">" + \
        _named(s["name"], s.get("long_name"), s.get("desc"))
    if s.get("funct_classes"):
        x += "<FUNCT-CLASS-REFS>" + "".join(
            f'<FUNCT-CLASS-REF ID-REF={quoteattr(ids.of("FNC", n))}/>' for n in s["funct_classes"]) + \
            "</FUNCT-CLASS-REFS>"
    x += s.get("extra_xml", "")
    if s.get("request") is not None:
        x += f'<REQUEST-REF ID-REF={quoteattr(s.get("request_id") or ids.of("RQ", s["request"]))}/>'
    if s.get("pos"):
        x += "<POS-RESPONSE-REFS>" + "".join(
            f'<POS-RESPONSE-REF ID-REF={quoteattr(ids.of("PR", n))}/>' for n in s["pos"]) + \
            "</POS-RESPONSE-REFS>"
    if s.get("neg"):
        x += "<NEG-RESPONSE-REFS>" + "".join(
            f'<NEG-RESPONSE-REF ID-REF={quoteattr(ids.of("NR", n))}/>' for n in s["neg"]) + \
            "</NEG-RESPONSE-REFS>"
    return x + "</DIAG-SERVICE>"


def emit_layer(layer: J) -> Tuple[str, str]:
    group, tag = _LAYER_TAGS[layer["kind"]]
    lid = layer.get("id") or layer["name"]
    ids = Ids(lid)
    x = f"<{tag}{_attr('ID', lid)}{_attr('OID', layer.get('oid'))}>" + \
        _named(layer["name"], layer.get("long_name"), layer.get("desc"))
    x += layer.get("xml_after_name", "")
    if layer.get("funct_classes"):
        x += "<FUNCT-CLASSS>" + "".join(
            f'<FUNCT-CLASS ID={quoteattr(ids.of("FNC", f["name"]))}>' + _named(f["name"], f.get("long_name")) +
            "</FUNCT-CLASS>" for f in layer["funct_classes"]) + "</FUNCT-CLASSS>"
    sections: Dict[str, List[str]] = {}
    for o in layer.get("dobjs", []):
        sec, xml = emit_dobj(o, ids)
        sections.setdefault(sec, []).append(xml)
    if layer.get("unit_spec_xml"):
        sections["UNIT-SPEC"] = [layer["unit_spec_xml"]]
    if sections or layer.get("force_ddds"):
        x += "<DIAG-DATA-DICTIONARY-SPEC>"
        for sec in _DDDS_ORDER:
            if sec in sections:
                if sec == "UNIT-SPEC":
                    x += sections[sec][0]
                else:
                    x += f"<{sec}>" + "".join(sections[sec]) + f"</{sec}>"
        x += "</DIAG-DATA-DICTIONARY-SPEC>"
    if layer.get("services") or layer.get("diag_comm_xml"):
        x += "<DIAG-COMMS>" + "".join(emit_service(s, ids) for s in layer.get("services", [])) + \
            layer.get("diag_comm_xml", "") + "</DIAG-COMMS>"
    for key, sec, tg, kind in (("requests", "REQUESTS", "REQUEST", "RQ"),
                               ("pos", "POS-RESPONSES", "POS-RESPONSE", "PR"),
                               ("neg", "NEG-RESPONSES", "NEG-RESPONSE", "NR"),
                               ("gneg", "GLOBAL-NEG-RESPONSES", "GLOBAL-NEG-RESPONSE", "GNR")):
        if layer.get(key):
            x += f"<{sec}>" + "".join(emit_message(tg, kind, m, ids) for m in layer[key]) + f"</{sec}>"
    x += layer.get("xml_tail", "")
    return group, x + f"</{tag}>"


def emit_container(doc: J) -> str:
    groups: Dict[str, List[str]] = {}
    for layer in doc["layers"]:
        g, xml = emit_layer(layer)
        groups.setdefault(g, []).append(xml)
    x = ('<?xml version="1.0" encoding="UTF-8" standalone="no" ?>\n'
         '<ODX MODEL-VERSION="2.2.0" xmlns:xsi="http://www.w3.org/2001/XMLSchema-instance" '
         'xsi:noNamespaceSchemaLocation="odx.xsd">')
    x += f'<DIAG-LAYER-CONTAINER ID={quoteattr(doc.get("id") or "DLC." + doc["name"])}>' + \
        _named(doc["name"], doc.get("long_name"))
    x += doc.get("xml_after_name", "")
    for g in _CONTAINER_ORDER:
        if g in groups:
            x += f"<{g}>" + "".join(groups[g]) + f"</{g}>"
    return x + "</DIAG-LAYER-CONTAINER></ODX>"


# ---------------------------------------------------------------------------
# loading through odxtools


def load_xml(xml_docs: Iterable[str]) -> Any:
    """Feed XML documents to a fresh odxtools Database and finalise it."""
    from xml.etree import ElementTree

    from odxtools.database import Database
    db = Database()
    for xml in xml_docs:
        if hasattr(db, "_process_xml_tree"):
            db._process_xml_tree(ElementTree.fromstring(xml))
        else:  # survive a refactoring of the private entry point
            with tempfile.NamedTemporaryFile("w", suffix=".odx-d", delete=False) as f:
                f.write(xml)
            try:
                db.add_odx_file(f.name)
            finally:
                os.unlink(f.name)
    db.refresh()
    return db


def simple_layer(name: str, dobjs: List[J], requests: List[J], pos: Optional[List[J]] = None,
                 neg: Optional[List[J]] = None, services: Optional[List[J]] = None,
                 kind: str = "BASE-VARIANT", gneg: Optional[List[J]] = None) -> J:
    pos = pos or []
    neg = neg or []
    if services is None:
        services = [{"name": "svc_" + r["name"], "request": r["name"],
                     "pos": [p["name"] for p in pos if p.get("for") in (None, r["name"])],
                     "neg": [n["name"] for n in neg if n.get("for") in (None, r["name"])]}
                    for r in requests]
    return {"kind": kind, "name": name, "dobjs": dobjs, "requests": requests, "pos": pos,
            "neg": neg, "gneg": gneg or [], "services": services}


def load_layer(layer: J) -> Any:
    db = load_xml([emit_container({"name": "c_" + layer["name"], "layers": [layer]})])
    return db.diag_layers[0]
