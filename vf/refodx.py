"""Independent reference interpreter of the odxgen description model.

Written from the ODX rules stated in DESIGN.md §2.1 – plain int shifts/masks, `struct` for
IEEE-754, `codecs` for strings, `Fraction` for scaling.  Shares no code with odxtools.

encode(msg, values, request=None) -> RefPdu(bytes, overlap)     raises Unrepresentable / Skip
decode(msg, pdu, request=None)    -> (values dict, cursor_end)  raises Short / Mismatch /
                                                                 Invalid / Skip
"""
from __future__ import annotations

import math
import struct
from fractions import Fraction
from typing import Any, Dict, List, Optional, Sequence, Tuple

J = Dict[str, Any]

NUMERIC = ("A_INT32", "A_UINT32", "A_FLOAT32", "A_FLOAT64")
STRINGS = ("A_ASCIISTRING", "A_UTF8STRING", "A_UNICODE2STRING")


class RefError(Exception):
    pass


class Unrepresentable(RefError):
    """The requested values cannot be put on the wire as described (encoder must reject)."""

    def __init__(self, cls: str, text: str = ""):
        super().__init__(f"{cls}: {text}")
        self.cls = cls


class Skip(RefError):
    """Outside the envelope in which the reference makes a statement (no verdict)."""


class Short(RefError):
    """PDU ends before a described object."""


class Mismatch(RefError):
    """A constant / NRC value in the PDU is not the described one."""

    def __init__(self, text: str, leading: bool = False, nrc: bool = False):
        super().__init__(text)
        self.leading = leading
        self.nrc = nrc


class Invalid(RefError):
    """The PDU holds an internal value that the description declares invalid."""


# ---------------------------------------------------------------------------
# atomic layer


def codec_name(base: str, enc: Optional[str], hilo: bool) -> str:
    if enc == "UTF-8" or (base == "A_UTF8STRING" and enc is None):
        return "utf-8"
    if enc == "UCS-2" or (base == "A_UNICODE2STRING" and enc is None):
        return "utf-16-be" if hilo else "utf-16-le"
    if enc == "ISO-8859-1" or (base == "A_ASCIISTRING" and enc is None):
        return "iso-8859-1"
    if enc == "ISO-8859-2":
        return "iso-8859-2"
    if enc == "WINDOWS-1252":
        return "cp1252"
    raise Skip(f"illegal string encoding {enc} for {base}")


def int_to_raw(v: int, n: int, base: str, enc: Optional[str]) -> int:
    """internal integer -> n-bit raw pattern, or Unrepresentable"""
    if isinstance(v, bool) or not isinstance(v, int):
        raise Unrepresentable("wrong-type", f"{type(v).__name__} for {base}")
    if n <= 0:
        raise Skip("zero bit length")
    if base == "A_UINT32":
        if v < 0:
            raise Unrepresentable("negative-unsigned", str(v))
        if enc in (None, "NONE"):
            raw = v
        elif enc in ("BCD-P", "BCD-UP"):
            raw, shift = 0, 0
            step = 4 if enc == "BCD-P" else 8
            x = v
            while x > 0:
                raw |= (x % 10) << shift
                shift += step
                x //= 10
        else:
            raise Skip(f"encoding {enc} for A_UINT32")
        if raw.bit_length() > n:
            raise Unrepresentable("out-of-range", f"{v} in {n} bits ({enc})")
        return raw
    if base == "A_INT32":
        if enc in (None, "2C"):
            if not (-(1 << (n - 1)) <= v < (1 << (n - 1))):
                raise Unrepresentable("out-of-range", f"{v} in {n} bits 2C")
            return v & ((1 << n) - 1)
        if enc == "1C":
            lim = (1 << (n - 1)) - 1
            if abs(v) > lim:
                raise Unrepresentable("out-of-range", f"{v} in {n} bits 1C")
            return v if v >= 0 else ((1 << n) - 1 + v)
        if enc == "SM":
            lim = (1 << (n - 1)) - 1
            if abs(v) > lim:
                raise Unrepresentable("out-of-range", f"{v} in {n} bits SM")
            return v if v >= 0 else ((1 << (n - 1)) | (-v))
        raise Skip(f"encoding {enc} for A_INT32")
    raise AssertionError(base)


def raw_to_int(raw: int, n: int, base: str, enc: Optional[str]) -> int:
    if base == "A_UINT32":
        if enc in (None, "NONE"):
            return raw
        if enc in ("BCD-P", "BCD-UP"):
            step = 4 if enc == "BCD-P" else 8
            res, f = 0, 1
            while raw > 0:
                d = raw & 0xF
                if d > 9 or (enc == "BCD-UP" and (raw & 0xF0)):
                    raise Skip("non-canonical BCD pattern")
                res += d * f
                f *= 10
                raw >>= step
            return res
        raise Skip(f"encoding {enc}")
    if base == "A_INT32":
        sign = 1 << (n - 1)
        if enc in (None, "2C"):
            return raw if raw < sign else raw - (1 << n)
        if enc == "1C":
            if raw == (1 << n) - 1 and n > 1:
                raise Skip("negative zero (1C)")
            return raw if raw < sign else -((1 << n) - 1 - raw)
        if enc == "SM":
            if raw == sign and n > 1:
                raise Skip("negative zero (SM)")
            return raw if raw < sign else -(raw - sign)
        raise Skip(f"encoding {enc}")
    raise AssertionError(base)


def float_to_raw(v: Any, base: str) -> Tuple[int, int]:
    if isinstance(v, bool) or not isinstance(v, (int, float)):
        raise Unrepresentable("wrong-type", f"{type(v).__name__} for {base}")
    try:
        if base == "A_FLOAT32":
            return int.from_bytes(struct.pack(">f", float(v)), "big"), 32
        return int.from_bytes(struct.pack(">d", float(v)), "big"), 64
    except (OverflowError, struct.error):
        raise Unrepresentable("out-of-range", f"{v} for {base}")


def raw_to_float(raw: int, base: str) -> float:
    if base == "A_FLOAT32":
        return struct.unpack(">f", raw.to_bytes(4, "big"))[0]
    return struct.unpack(">d", raw.to_bytes(8, "big"))[0]


def to_payload(v: Any, base: str, enc: Optional[str], hilo: bool) -> bytes:
    """string / bytefield internal value -> payload bytes"""
    if base == "A_BYTEFIELD":
        if not isinstance(v, (bytes, bytearray)):
            raise Unrepresentable("wrong-type", f"{type(v).__name__} for A_BYTEFIELD")
        return bytes(v)
    if not isinstance(v, str):
        raise Unrepresentable("wrong-type", f"{type(v).__name__} for {base}")
    try:
        return v.encode(codec_name(base, enc, hilo))
    except UnicodeEncodeError:
        raise Unrepresentable("unencodable-char", repr(v))


def from_payload(b: bytes, base: str, enc: Optional[str], hilo: bool) -> Any:
    if base == "A_BYTEFIELD":
        return bytes(b)
    try:
        return b.decode(codec_name(base, enc, hilo))
    except UnicodeDecodeError:
        raise Invalid("undecodable string bytes")


def is_hilo(dct: J) -> bool:
    return dct.get("hilo") in (None, True)


# ---------------------------------------------------------------------------
# compu methods (minimal, exact): IDENTICAL, LINEAR (one scale), TEXTTABLE


def _lim_ok(x: Any, lo: Any, hi: Any) -> bool:
    def side(lim: Any, lower: bool) -> bool:
        if lim is None:
            return True
        val, it = lim
        if it == "INFINITE" or val is None:
            return True
        if it == "OPEN":
            return x > val if lower else x < val
        return x >= val if lower else x <= val
    return side(lo, True) and side(hi, False)


def is_int_type(t: str) -> bool:
    return t in ("A_INT32", "A_UINT32")


def py_type_ok(v: Any, t: str) -> bool:
    if isinstance(v, bool):
        return False
    if is_int_type(t):
        return isinstance(v, int)
    if t in ("A_FLOAT32", "A_FLOAT64"):
        return isinstance(v, (int, float))
    if t in STRINGS:
        return isinstance(v, str)
    if t == "A_BYTEFIELD":
        return isinstance(v, (bytes, bytearray))
    return False


class Compu:

    def __init__(self, model: J, itype: str, ptype: str):
        self.m = model
        self.itype = itype
        self.ptype = ptype
        self.cat = model["cat"]
        if self.cat not in ("IDENTICAL", "LINEAR", "TEXTTABLE", "TAB-INTP"):
            raise Skip(f"compu category {self.cat} not modelled by refodx")
        if self.cat == "TAB-INTP":
            # only the simple form: integer points, strictly increasing in both coordinates
            self.pts = [(Fraction(sc["lo"][0]), Fraction(sc["const"]["v"]))
                        for sc in model["i2p"]["scales"]]
            if len(self.pts) < 2 or any(a[0] >= b[0] or a[1] >= b[1]
                                        for a, b in zip(self.pts, self.pts[1:])):
                raise Skip("TAB-INTP table that is not strictly increasing")

    def _interp(self, x: Fraction, src: int) -> Optional[Fraction]:
        dst = 1 - src
        pts = self.pts
        if x < pts[0][src] or x > pts[-1][src]:
            return None
        for a, b in zip(pts, pts[1:]):
            if a[src] <= x <= b[src]:
                return a[dst] + (x - a[src]) * (b[dst] - a[dst]) / (b[src] - a[src])
        return None

    def _round(self, y: Fraction, ttype: str) -> Any:
        if is_int_type(ttype):
            if y.denominator == 2:
                raise Skip("rounding tie")
            return int(math.floor(y + Fraction(1, 2)))
        return float(y)

    def p2i(self, p: Any) -> Any:
        if self.cat == "IDENTICAL":
            if not py_type_ok(p, self.ptype):
                raise Unrepresentable("wrong-type", f"{type(p).__name__} for {self.ptype}")
            if is_int_type(self.itype) and not isinstance(p, int):
                raise Skip("identical with differing types")
            return p
        if self.cat == "TAB-INTP":
            if not py_type_ok(p, self.ptype):
                raise Unrepresentable("wrong-type", f"{type(p).__name__} for {self.ptype}")
            if isinstance(p, float) and (math.isnan(p) or math.isinf(p)):
                raise Skip("non-finite")
            x = self._interp(Fraction(p), 1)
            if x is None:
                raise Unrepresentable("outside-compu-limits", str(p))
            return self._round(x, self.itype)
        if self.cat == "LINEAR":
            if not py_type_ok(p, self.ptype):
                raise Unrepresentable("wrong-type", f"{type(p).__name__} for {self.ptype}")
            sc = self.m["i2p"]["scales"][0]
            n0, n1 = (list(sc["num"]) + [0])[:2]
            d0 = (sc.get("den") or [1])[0]
            if n1 == 0:
                raise Skip("constant linear method")
            if isinstance(p, float) and (math.isnan(p) or math.isinf(p)):
                raise Skip("non-finite")
            x = (Fraction(p) * Fraction(d0) - Fraction(n0)) / Fraction(n1)
            if is_int_type(self.itype):
                if x.denominator == 2:
                    raise Skip("rounding tie")
                i: Any = int(math.floor(x + Fraction(1, 2)))
            else:
                try:
                    i = float(x)
                except OverflowError:
                    raise Unrepresentable("out-of-range", str(p))
            if not _lim_ok(i, sc.get("lo"), sc.get("hi")):
                raise Unrepresentable("outside-compu-limits", str(p))
            return i
        # TEXTTABLE
        if not isinstance(p, str):
            raise Unrepresentable("wrong-type", f"{type(p).__name__} for text table")
        for sc in self.m["i2p"]["scales"]:
            if sc["const"].get("vt") == p:
                if sc.get("inv") is not None:
                    return sc["inv"]["v"]
                return sc["lo"][0]
        raise Unrepresentable("unknown-text", p)

    def i2p(self, i: Any) -> Any:
        if self.cat == "IDENTICAL":
            return i
        if self.cat == "TAB-INTP":
            if isinstance(i, float) and (math.isnan(i) or math.isinf(i)):
                raise Skip("non-finite internal value")
            y = self._interp(Fraction(i), 0)
            if y is None:
                raise Invalid(f"internal value {i} outside the interpolation table")
            return self._round(y, self.ptype)
        if self.cat == "LINEAR":
            sc = self.m["i2p"]["scales"][0]
            if isinstance(i, float) and (math.isnan(i) or math.isinf(i)):
                raise Skip("non-finite internal value")
            if not _lim_ok(i, sc.get("lo"), sc.get("hi")):
                raise Invalid(f"internal value {i} outside the compu scale")
            n0, n1 = (list(sc["num"]) + [0])[:2]
            d0 = (sc.get("den") or [1])[0]
            y = (Fraction(n0) + Fraction(n1) * Fraction(i)) / Fraction(d0)
            if is_int_type(self.ptype):
                if y.denominator == 2:
                    raise Skip("rounding tie")
                return int(math.floor(y + Fraction(1, 2)))
            try:
                return float(y)
            except OverflowError:
                raise Skip("physical value overflows a double")
        for sc in self.m["i2p"]["scales"]:
            hi = sc.get("hi") or sc.get("lo")
            if _lim_ok(i, sc.get("lo"), hi):
                return sc["const"]["vt"]
        raise Invalid(f"internal value {i} not in the text table")


# ---------------------------------------------------------------------------
# PDU under construction


class Pdu:

    def __init__(self) -> None:
        self.buf = bytearray()
        self.claimed = bytearray()
        self.overlap = False
        self.conflict = False  # a bit was claimed twice with different values

    def ensure(self, n: int) -> None:
        if len(self.buf) < n:
            self.buf += bytes(n - len(self.buf))
            self.claimed += bytes(n - len(self.claimed))

    def put(self, pos: int, data: bytes, mask: bytes, claim: bool = True) -> None:
        self.ensure(pos + len(data))
        for k in range(len(data)):
            m = mask[k]
            if claim and (self.claimed[pos + k] & m):
                self.overlap = True
                if (self.buf[pos + k] ^ data[k]) & self.claimed[pos + k] & m:
                    self.conflict = True
            self.buf[pos + k] = (self.buf[pos + k] & ~m & 0xFF) | (data[k] & m)
            if claim:
                self.claimed[pos + k] |= m


class EncCtx:

    def __init__(self, ref: "Ref", request: Optional[bytes]):
        self.ref = ref
        self.pdu = Pdu()
        self.request = request
        self.length_keys: Dict[str, int] = {}
        self.table_keys: Dict[str, str] = {}
        self.journal: List[Tuple[J, Any]] = []


class DecCtx:

    def __init__(self, ref: "Ref", pdu: bytes, request: Optional[bytes]):
        self.ref = ref
        self.pdu = bytes(pdu)
        self.request = request
        self.length_keys: Dict[str, int] = {}
        self.table_keys: Dict[str, J] = {}
        self.journal: List[Tuple[J, Any]] = []
        self.max_end = 0
        self.first_const = True
        #: number of leading request bytes known to be constant (None: all of them)
        self.request_const_len: Optional[int] = None


def _nbytes(bits: int, bit: int) -> int:
    return (bits + bit + 7) // 8


class Ref:

    def __init__(self, layer: J):
        self.layer = layer
        self.dobjs: Dict[str, J] = {o["name"]: o for o in layer.get("dobjs", [])}

    # -- bits -----------------------------------------------------------
    def put_bits(self, pdu: Pdu, pos: int, bit: int, n: int, raw: int, numeric_lohi: bool,
                 mask: Optional[int] = None, claim: bool = True) -> int:
        nb = _nbytes(n, bit)
        field = raw << bit
        m = (((1 << n) - 1) if mask is None else (mask & ((1 << n) - 1))) << bit
        data = field.to_bytes(nb, "big")
        mk = m.to_bytes(nb, "big")
        if numeric_lohi:
            data, mk = data[::-1], mk[::-1]
        pdu.put(pos, data, mk, claim)
        return pos + nb

    def get_bits(self, pdu: bytes, pos: int, bit: int, n: int, numeric_lohi: bool) -> Tuple[int, int]:
        nb = _nbytes(n, bit)
        if pos + nb > len(pdu):
            raise Short(f"need {nb} bytes at {pos}, PDU has {len(pdu)}")
        chunk = pdu[pos:pos + nb]
        if numeric_lohi:
            chunk = chunk[::-1]
        return (int.from_bytes(chunk, "big") >> bit) & ((1 << n) - 1), pos + nb

    # -- diag coded types ---------------------------------------------------
    def enc_dct(self, cx: EncCtx, dct: J, internal: Any, pos: int, bit: int, last: bool) -> int:
        base, enc, hilo = dct["base"], dct.get("enc"), is_hilo(dct)
        k = dct["k"]
        lohi = (not hilo) and base in NUMERIC
        if k == "STD" or k == "PLEN":
            if k == "PLEN":
                n = cx.length_keys.get(dct["key_id"])
                if n is None:
                    n = self.implicit_key_bits(dct, internal)
                    cx.length_keys[dct["key_id"]] = n
                    cx.implicit_keys = getattr(cx, "implicit_keys", set()) | {dct["key_id"]}
                if not isinstance(n, int) or isinstance(n, bool) or n < 0 or n > 65536:
                    raise Unrepresentable("bad-length-key", repr(n)[:40])
                if n == 0:
                    raise Skip("zero-length PARAM-LENGTH-INFO object")
                mask = None
            else:
                n = dct["bits"]
                mask = dct.get("mask")
                if mask is not None and dct.get("cond"):
                    raise Skip("condensed bit mask")
            if base in ("A_INT32", "A_UINT32"):
                if mask is not None and base == "A_INT32":
                    raise Skip("bit mask on a signed integer (ODX does not say how they combine)")
                raw = int_to_raw(internal, n, base, enc)
                if mask is not None and (raw & ~mask & ((1 << n) - 1)):
                    raise Unrepresentable("bits-outside-mask", f"{raw:#x} mask {mask:#x}")
                return self.put_bits(cx.pdu, pos, bit, n, raw, lohi, mask)
            if base in ("A_FLOAT32", "A_FLOAT64"):
                raw, need = float_to_raw(internal, base)
                if n != need:
                    raise Skip("float with wrong bit length")
                if bit:
                    raise Skip("float at bit position")
                return self.put_bits(cx.pdu, pos, 0, n, raw, lohi)
            payload = to_payload(internal, base, enc, hilo)
            if bit or n % 8:
                raise Skip("string/bytefield not byte aligned")
            if len(payload) * 8 != n:
                raise Unrepresentable("wrong-length", f"{len(payload)} bytes for {n} bits")
            if mask is not None:
                mv = int.from_bytes(payload, "big")
                if mv & ~mask & ((1 << n) - 1):
                    raise Unrepresentable("bits-outside-mask", "")
                mk = (mask & ((1 << n) - 1)).to_bytes(n // 8, "big")
                cx.pdu.put(pos, payload, mk)
            else:
                cx.pdu.put(pos, payload, b"\xff" * len(payload))
            return pos + len(payload)
        if k == "MINMAX":
            if bit:
                raise Skip("min-max at bit position")
            payload = to_payload(internal, base, enc, hilo)
            unit = 2 if base == "A_UNICODE2STRING" else 1
            if len(payload) < dct["min"]:
                raise Unrepresentable("too-short", f"{len(payload)} < {dct['min']}")
            if dct.get("max") is not None and len(payload) > dct["max"]:
                raise Unrepresentable("too-long", f"{len(payload)} > {dct['max']}")
            term = {"ZERO": b"\x00" * unit, "HEX-FF": b"\xff" * unit, "END-OF-PDU": b""}[dct["term"]]
            if term:
                # the decoder looks for the terminator from MIN-LENGTH onwards at character
                # boundaries: a payload containing it there cannot come back
                start = dct["min"] + (-dct["min"]) % unit
                for i in range(start, len(payload) - unit + 1, unit):
                    if payload[i:i + unit] == term:
                        raise Unrepresentable("contains-terminator", payload.hex())
            elif not last:
                raise Skip("END-OF-PDU min-max object that is not last")
            cx.pdu.put(pos, payload, b"\xff" * len(payload))
            pos += len(payload)
            if term and not last and len(payload) != dct.get("max"):
                cx.pdu.put(pos, term, b"\xff" * len(term))
                pos += len(term)
            if len(payload) == 0:
                cx.pdu.ensure(pos)
            return pos
        if k == "LEAD":
            payload = to_payload(internal, base, enc, hilo)
            n = dct["bits"]
            if len(payload).bit_length() > n:
                raise Unrepresentable("too-long", f"{len(payload)} bytes, {n} length bits")
            pos = self.put_bits(cx.pdu, pos, bit, n, len(payload), not hilo)
            cx.pdu.put(pos, payload, b"\xff" * len(payload))
            return pos + len(payload)
        raise AssertionError(k)

    def implicit_key_bits(self, dct: J, internal: Any) -> int:
        base = dct["base"]
        if base in ("A_BYTEFIELD", "A_ASCIISTRING", "A_UTF8STRING", "A_UNICODE2STRING"):
            return 8 * len(to_payload(internal, base, dct.get("enc"), is_hilo(dct)))
        if base == "A_FLOAT32":
            return 32
        if base == "A_FLOAT64":
            return 64
        if isinstance(internal, bool) or not isinstance(internal, int):
            raise Unrepresentable("wrong-type", "")
        n = internal.bit_length() + (1 if base == "A_INT32" else 0)
        return max(8, (n + 7) // 8 * 8)

    def dec_dct(self, cx: DecCtx, dct: J, pos: int, bit: int) -> Tuple[Any, int]:
        base, enc, hilo = dct["base"], dct.get("enc"), is_hilo(dct)
        k = dct["k"]
        lohi = (not hilo) and base in NUMERIC
        pdu = cx.pdu
        if k in ("STD", "PLEN"):
            if k == "PLEN":
                if dct["key_id"] not in cx.length_keys:
                    raise Skip("length key read after its user")
                n = cx.length_keys[dct["key_id"]]
                mask = None
                if n <= 0:
                    raise Skip("zero-length object")
            else:
                n = dct["bits"]
                mask = dct.get("mask")
                if mask is not None and dct.get("cond"):
                    raise Skip("condensed bit mask")
            if base in ("A_INT32", "A_UINT32"):
                if mask is not None and base == "A_INT32":
                    raise Skip("bit mask on a signed integer")
                raw, end = self.get_bits(pdu, pos, bit, n, lohi)
                if mask is not None:
                    raw &= mask
                return raw_to_int(raw, n, base, enc), end
            if base in ("A_FLOAT32", "A_FLOAT64"):
                if n != (32 if base == "A_FLOAT32" else 64) or bit:
                    raise Skip("float layout")
                raw, end = self.get_bits(pdu, pos, 0, n, lohi)
                return raw_to_float(raw, base), end
            if bit or n % 8:
                raise Skip("string/bytefield not byte aligned")
            nb = n // 8
            if pos + nb > len(pdu):
                raise Short("string/bytefield")
            chunk = pdu[pos:pos + nb]
            if mask is not None:
                chunk = (int.from_bytes(chunk, "big") & mask).to_bytes(nb, "big")
            return from_payload(chunk, base, enc, hilo), pos + nb
        if k == "MINMAX":
            unit = 2 if base == "A_UNICODE2STRING" else 1
            term = {"ZERO": b"\x00" * unit, "HEX-FF": b"\xff" * unit, "END-OF-PDU": b""}[dct["term"]]
            if pos + dct["min"] > len(pdu):
                raise Short("min-max minimum length")
            limit = len(pdu)
            if dct.get("max") is not None:
                limit = min(limit, pos + dct["max"])
            end = limit
            consumed_term = 0
            if term:
                i = pos + dct["min"]
                if (i - pos) % unit:
                    i += unit - (i - pos) % unit
                while i + unit <= limit:
                    if pdu[i:i + unit] == term:
                        end = i
                        consumed_term = unit
                        break
                    i += unit
            if (end - pos) % unit:
                raise Skip("odd number of bytes for a 16-bit string")
            return from_payload(pdu[pos:end], base, enc, hilo), end + consumed_term
        if k == "LEAD":
            n, p2 = self.get_bits(pdu, pos, bit, dct["bits"], not hilo)
            if p2 + n > len(pdu):
                raise Short("leading-length payload")
            return from_payload(pdu[p2:p2 + n], base, enc, hilo), p2 + n
        raise AssertionError(k)

    # -- data objects ---------------------------------------------------------
    def dobj(self, name: str) -> J:
        if name not in self.dobjs:
            raise Skip(f"unknown data object {name}")
        return self.dobjs[name]

    def item_reads_as_endmarker(self, params: List[J], values: Any, depth: int = 0) -> bool:
        """Does some supplied item of a DYNAMIC-ENDMARKER-FIELD among params (searched through
        structures) start with the field's termination value?  (mechanism attribution only)"""
        if not isinstance(values, dict) or depth > 4:
            return False
        for p in params:
            o = self.dobjs.get(p.get("dop") or "")
            v = values.get(p["name"])
            if o is None or v is None:
                continue
            if o["t"] == "STRUCT" and self.item_reads_as_endmarker(o["params"], v, depth + 1):
                return True
            if o["t"] == "EMFIELD" and isinstance(v, (list, tuple)):
                st, td = self.dobj(o["struct"]), self.dobj(o["term_dop"])
                def debool(x: Any) -> Any:
                    if isinstance(x, bool):
                        return int(x)
                    if isinstance(x, dict):
                        return {k: debool(y) for k, y in x.items()}
                    if isinstance(x, (list, tuple)):
                        return [debool(y) for y in x]
                    return x

                for item in v:
                    try:
                        cx = EncCtx(self, None)
                        self.enc_dobj(cx, st, debool(item), 0, 0, False)
                        tv, _ = self.dec_dobj(DecCtx(self, bytes(cx.pdu.buf), None), td, 0, 0, False)
                        if tv == o["term_value"]:
                            return True
                    except Exception:
                        continue
        return False

    def dtc_codes(self, o: J, depth: int = 0) -> List[int]:
        """trouble codes of a DTC-DOP: its own DTCs plus those of the linked DTC-DOPs that are
        not excluded by short name (own DTCs of the same name override)"""
        return [c for _, c in self.dtc_entries(o, depth)]

    def dtc_entries(self, o: J, depth: int = 0) -> List[Tuple[str, int]]:
        """(short name, trouble code) of all DTCs of a DTC-DOP; a DTC that is reachable on
        several paths (diamond of links) is there once"""
        own = [(d["name"], d["code"]) for d in o["dtcs"]]
        names = {n for n, _ in own}
        if depth < 5:
            for ln in o.get("linked") or []:
                other = self.dobj(ln["dop"])
                excluded = set(ln.get("not_inherited") or [])
                for n, c in self.dtc_entries(other, depth + 1):
                    if n not in excluded and n not in names:
                        own.append((n, c))
                        names.add(n)
        return own

    def enc_dobj(self, cx: EncCtx, o: J, value: Any, pos: int, bit: int, last: bool) -> int:
        t = o["t"]
        if t == "DOP":
            cm = Compu(o["compu"], o["dct"]["base"], o["ptype"])
            internal = cm.p2i(value)
            ic = o.get("iconstr")
            if ic is not None and not _lim_ok(internal, ic.get("lo"), ic.get("hi")):
                raise Skip("internal constraint")
            return self.enc_dct(cx, o["dct"], internal, pos, bit, last)
        if t == "DTCDOP":
            if isinstance(value, bool) or not isinstance(value, int):
                raise Skip("DTC given by name/object")
            if value not in self.dtc_codes(o):
                raise Unrepresentable("unknown-dtc", str(value))
            cm = Compu(o["compu"], o["dct"]["base"], o["ptype"])
            return self.enc_dct(cx, o["dct"], cm.p2i(value), pos, bit, last)
        if bit:
            raise Skip("complex object at bit position")
        if t == "STRUCT":
            if not isinstance(value, dict):
                raise Unrepresentable("wrong-shape", f"{type(value).__name__} for structure")
            end = self.enc_params(cx, o["params"], value, pos, last)
            if o.get("byte_size") is not None:
                if end - pos > o["byte_size"]:
                    raise Skip("structure content larger than BYTE-SIZE")
                tgt = pos + o["byte_size"]
                # padding: the structure extends to BYTE-SIZE; only bytes not yet part of the
                # PDU are added (zero) - parameters listed out of positional order have already
                # been laid out beyond the cursor and must stay
                start = max(end, len(cx.pdu.buf))
                if start < tgt:
                    cx.pdu.put(start, bytes(tgt - start), b"\xff" * (tgt - start))
                end = tgt
            return end
        if t == "SFIELD":
            if not isinstance(value, (list, tuple)) or len(value) != o["n"]:
                raise Unrepresentable("wrong-shape", "static field item count")
            st = self.dobj(o["struct"])
            for i, item in enumerate(value):
                e = self.enc_dobj(cx, st, item, pos, 0, False)
                if e - pos > o["item_size"]:
                    raise Skip("item larger than ITEM-BYTE-SIZE")
                pos += o["item_size"]
            cx.pdu.ensure(pos)
            return pos
        if t == "DLFIELD":
            if not isinstance(value, (list, tuple)):
                raise Unrepresentable("wrong-shape", "dynamic length field")
            cd = self.dobj(o["cnt_dop"])
            e = self.enc_dobj(cx, cd, len(value), pos + o["cnt_byte"], o.get("cnt_bit") or 0, False)
            if e - pos > o["offset"]:
                raise Skip("count overlaps first item")
            st = self.dobj(o["struct"])
            p = pos + o["offset"]
            cx.pdu.ensure(p)
            for i, item in enumerate(value):
                p = self.enc_dobj(cx, st, item, p, 0, last and i == len(value) - 1)
            return p
        if t == "EOPFIELD":
            if not isinstance(value, (list, tuple)):
                raise Unrepresentable("wrong-shape", "end-of-pdu field")
            if not last:
                raise Skip("end-of-pdu field not last")
            if o.get("min") is not None and len(value) < o["min"]:
                raise Skip("fewer items than MIN-NUMBER-OF-ITEMS")
            if o.get("max") is not None and len(value) > o["max"]:
                raise Skip("more items than MAX-NUMBER-OF-ITEMS")
            st = self.dobj(o["struct"])
            for i, item in enumerate(value):
                pos = self.enc_dobj(cx, st, item, pos, 0, i == len(value) - 1)
            cx.pdu.ensure(pos)
            return pos
        if t == "EMFIELD":
            if not isinstance(value, (list, tuple)):
                raise Unrepresentable("wrong-shape", "end-marker field")
            st = self.dobj(o["struct"])
            td = self.dobj(o["term_dop"])
            for i, item in enumerate(value):
                start = pos
                pos = self.enc_dobj(cx, st, item, pos, 0, last and i == len(value) - 1)
                # an item that reads as the end marker cannot be represented
                try:
                    tv, _ = self.dec_dobj(DecCtx(self, bytes(cx.pdu.buf), None), td, start, 0, False)
                    if tv == o["term_value"]:
                        raise Unrepresentable("item-equals-endmarker", "")
                except (Short, Invalid):
                    pass
            if not last:
                # marker is written but does not advance the cursor (the following
                # parameter is the marker itself per the ODX pattern)
                self.enc_dobj(cx, td, o["term_value"], pos, 0, False)
                cx.endmarker_used = True
            cx.pdu.ensure(pos)
            return pos
        if t == "MUX":
            if isinstance(value, dict) and len(value) == 1:
                value = next(iter(value.items()))  # {case: content} is an accepted spelling
            if not (isinstance(value, (list, tuple)) and len(value) == 2):
                raise Unrepresentable("wrong-shape", "mux value")
            case_name, content = value
            if not isinstance(case_name, str):
                raise Skip("mux case not selected by name")
            case = next((c for c in o.get("cases", []) if c["name"] == case_name), None)
            if case is None:
                if o.get("default") is not None and o["default"]["name"] == case_name:
                    raise Skip("default case selected by name: key value unspecified")
                raise Unrepresentable("unknown-case", case_name)
            kd = self.dobj(o["key"]["dop"])
            self.enc_dobj(cx, kd, case["lo"], pos + o["key"]["byte"], o["key"].get("bit") or 0, False)
            end = pos + o["key"]["byte"] + _nbytes(self.static_bits(kd) or 0, o["key"].get("bit") or 0)
            if case.get("struct") is not None:
                end = self.enc_dobj(cx, self.dobj(case["struct"]), content, pos + o["byte_pos"], 0, last)
            elif content not in ({}, None):
                raise Skip("content for a case without structure")
            return end
        if t == "ENVDESC":
            return self.enc_envdesc(cx, o, value, pos, last)
        raise Skip(f"data object kind {t}")

    def enc_envdesc(self, cx: EncCtx, o: J, value: Any, pos: int, last: bool) -> int:
        if not isinstance(value, dict):
            raise Unrepresentable("wrong-shape", "env data desc")
        dtc = None
        for p, v in reversed(cx.journal):
            if p["name"] == o.get("param_snref"):
                dtc = v
                break
        if dtc is None:
            raise Skip("env-data-desc without resolvable DTC parameter")
        if not isinstance(dtc, int):
            raise Skip("DTC not numeric")
        all_names = set()
        for n in o["envdatas"]:
            ed = self.dobj(n)
            if not ed.get("dtcs") or dtc in ed["dtcs"]:
                all_names |= {p["name"] for p in ed["params"]}
        for k in value:
            if k not in all_names:
                raise Unrepresentable("unknown-parameter", k)
        for n in o["envdatas"]:
            ed = self.dobj(n)
            if not ed.get("dtcs"):
                sub = {p["name"]: value[p["name"]] for p in ed["params"] if p["name"] in value}
                pos = self.enc_params(cx, ed["params"], sub, pos, False)
        for n in o["envdatas"]:
            ed = self.dobj(n)
            if ed.get("dtcs") and dtc in ed["dtcs"]:
                sub = {p["name"]: value[p["name"]] for p in ed["params"] if p["name"] in value}
                pos = self.enc_params(cx, ed["params"], sub, pos, False)
                break
        return pos

    def static_bits(self, o: J) -> Optional[int]:
        t = o["t"]
        if t in ("DOP", "DTCDOP"):
            d = o["dct"]
            return d["bits"] if d["k"] == "STD" else None
        if t == "STRUCT":
            if o.get("byte_size") is not None:
                return 8 * o["byte_size"]
            return self.static_bits_params(o["params"])
        if t == "SFIELD":
            return 8 * o["n"] * o["item_size"]
        return None

    def static_bits_params(self, params: List[J]) -> Optional[int]:
        cursor = 0
        total = 0
        for p in params:
            n = self.param_static_bits(p)
            if n is None:
                return None
            if p.get("byte") is not None:
                cursor = p["byte"]
            cursor += _nbytes(n, p.get("bit") or 0)
            total = max(total, cursor)
        return total * 8

    def param_static_bits(self, p: J) -> Optional[int]:
        k = p["p"]
        if k in ("CODED-CONST", "NRC-CONST"):
            return p["dct"]["bits"] if p["dct"]["k"] == "STD" else None
        if k == "RESERVED":
            return p["bits"]
        if k == "MATCHING-REQUEST-PARAM":
            return 8 * p["len"]
        if k in ("VALUE", "PHYS-CONST", "LENGTH-KEY", "SYSTEM"):
            return self.static_bits(self.dobj(p["dop"]))
        if k == "TABLE-KEY":
            tname = p["table"] if p.get("table") is not None else p["row"][0]
            kd = self.dobj(tname).get("key_dop")
            return self.static_bits(self.dobj(kd)) if kd else None
        return None

    def dec_dobj(self, cx: DecCtx, o: J, pos: int, bit: int, last: bool) -> Tuple[Any, int]:
        t = o["t"]
        if t in ("DOP", "DTCDOP"):
            internal, end = self.dec_dct(cx, o["dct"], pos, bit)
            cm = Compu(o["compu"], o["dct"]["base"], o["ptype"])
            phys = cm.i2p(internal)
            if t == "DTCDOP":
                if phys not in self.dtc_codes(o):
                    raise Skip("unknown DTC in PDU")
            return phys, end
        if t == "STRUCT":
            vals, end = self.dec_params(cx, o["params"], pos, last)
            if o.get("byte_size") is not None:
                if end - pos > o["byte_size"]:
                    raise Skip("structure larger than BYTE-SIZE")
                end = pos + o["byte_size"]   # missing *padding* is not a missing parameter
            return vals, end
        if t == "SFIELD":
            st = self.dobj(o["struct"])
            res = []
            for _ in range(o["n"]):
                v, e = self.dec_dobj(cx, st, pos, 0, False)
                res.append(v)
                pos += o["item_size"]
            return res, pos
        if t == "DLFIELD":
            cd = self.dobj(o["cnt_dop"])
            n, _ = self.dec_dobj(cx, cd, pos + o["cnt_byte"], o.get("cnt_bit") or 0, False)
            if isinstance(n, bool) or not isinstance(n, int) or n < 0:
                raise Skip("item count not a natural number")
            st = self.dobj(o["struct"])
            p = pos + o["offset"]
            res = []
            for i in range(n):
                v, p = self.dec_dobj(cx, st, p, 0, last and i == n - 1)
                res.append(v)
            return res, p
        if t == "EOPFIELD":
            st = self.dobj(o["struct"])
            res = []
            while pos < len(cx.pdu):
                v, pos = self.dec_dobj(cx, st, pos, 0, False)
                res.append(v)
                if len(res) > 4096:
                    raise Skip("runaway field")
            return res, pos
        if t == "EMFIELD":
            st = self.dobj(o["struct"])
            td = self.dobj(o["term_dop"])
            res = []
            while pos < len(cx.pdu):
                try:
                    tv, _ = self.dec_dobj(cx, td, pos, 0, False)
                    if tv == o["term_value"]:
                        break
                except (Short, Invalid):
                    pass
                v, pos = self.dec_dobj(cx, st, pos, 0, False)
                res.append(v)
                if len(res) > 4096:
                    raise Skip("runaway field")
            return res, pos
        if t == "MUX":
            kd = self.dobj(o["key"]["dop"])
            key, kend = self.dec_dobj(cx, kd, pos + o["key"]["byte"], o["key"].get("bit") or 0, False)
            case = None
            for c in o.get("cases", []):
                if c["lo"] <= key <= c["hi"]:
                    case = c
                    break
            if case is None:
                case = o.get("default")
            if case is None:
                raise Invalid("no applicable mux case")
            if case.get("struct") is not None:
                v, end = self.dec_dobj(cx, self.dobj(case["struct"]), pos + o["byte_pos"], 0, last)
                return (case["name"], v), end
            return (case["name"], {}), max(kend, pos + o["byte_pos"])
        if t == "ENVDESC":
            dtc = None
            for p, v in reversed(cx.journal):
                if p["name"] == o.get("param_snref"):
                    dtc = v
                    break
            if not isinstance(dtc, int):
                raise Skip("env-data-desc without numeric DTC")
            res: Dict[str, Any] = {}
            for n in o["envdatas"]:
                ed = self.dobj(n)
                if not ed.get("dtcs"):
                    v, pos = self.dec_params(cx, ed["params"], pos, False)
                    res.update(v)
            for n in o["envdatas"]:
                ed = self.dobj(n)
                if ed.get("dtcs") and dtc in ed["dtcs"]:
                    v, pos = self.dec_params(cx, ed["params"], pos, False)
                    res.update(v)
                    break
            return res, pos
        raise Skip(f"data object kind {t}")

    # -- parameter lists ----------------------------------------------------------
    def key_id(self, owner: Optional[str], p: J) -> str:
        return p.get("id") or p["name"]

    def enc_params(self, cx: EncCtx, params: List[J], values: Dict[str, Any], origin: int,
                   last: bool) -> int:
        names = {p["name"] for p in params}
        for k in values:
            if k not in names:
                raise Unrepresentable("unknown-parameter", str(k))
        cursor = origin
        keypos: Dict[str, Tuple[int, int]] = {}
        local_lk: Dict[str, str] = {}
        for idx, p in enumerate(params):
            is_last = last and idx == len(params) - 1
            kind = p["p"]
            name = p["name"]
            pos = origin + p["byte"] if p.get("byte") is not None else cursor
            bit = p.get("bit") or 0
            v = values.get(name)
            if kind == "CODED-CONST":
                if v is not None and v != p["value"]:
                    raise Unrepresentable("constant-contradicted", name)
                cursor = self.enc_dct(cx, p["dct"], p["value"], pos, bit, is_last)
            elif kind == "PHYS-CONST":
                if v is not None and v != p["value"]:
                    raise Unrepresentable("constant-contradicted", name)
                cursor = self.enc_dobj(cx, self.dobj(p["dop"]), p["value"], pos, bit, is_last)
            elif kind in ("VALUE", "SYSTEM"):
                if v is None:
                    if kind == "SYSTEM":
                        raise Skip("system parameter without explicit value")
                    if p.get("default") is None:
                        raise Unrepresentable("missing-required", name)
                    v = p["default"]
                cursor = self.enc_dobj(cx, self.dobj(p["dop"]), v, pos, bit, is_last)
                cx.journal.append((p, v))
            elif kind == "RESERVED":
                if v is not None:
                    raise Skip("value for RESERVED")
                cursor = pos + _nbytes(p["bits"], bit)
                cx.pdu.ensure(cursor)
            elif kind == "NRC-CONST":
                if v is not None:
                    raise Unrepresentable("nrc-const-set", name)
                cursor = pos + _nbytes(p["dct"]["bits"], bit)
                cx.pdu.ensure(cursor)
            elif kind == "MATCHING-REQUEST-PARAM":
                if v is not None:
                    raise Skip("value for MATCHING-REQUEST-PARAM")
                if cx.request is None or len(cx.request) < p["req_pos"] + p["len"]:
                    raise Unrepresentable("request-too-short", name)
                data = cx.request[p["req_pos"]:p["req_pos"] + p["len"]]
                cx.pdu.put(pos, data, b"\xff" * len(data))
                cursor = pos + len(data)
            elif kind == "LENGTH-KEY":
                kid = p.get("id") or name
                local_lk[name] = kid
                if v is not None:
                    if isinstance(v, bool) or not isinstance(v, int):
                        raise Unrepresentable("wrong-type", "length key")
                    cx.length_keys[kid] = v
                    cx.explicit_keys = getattr(cx, "explicit_keys", set()) | {kid}
                keypos[name] = (pos, bit)
                n = self.static_bits(self.dobj(p["dop"]))
                if n is None:
                    raise Skip("length key without static size")
                cursor = pos + _nbytes(n, bit)
                cx.pdu.ensure(cursor)
            elif kind == "TABLE-KEY":
                if p.get("row") is not None:
                    raise Skip("TABLE-KEY fixed by TABLE-ROW-REF")
                if v is not None:
                    if not isinstance(v, str):
                        raise Unrepresentable("wrong-type", "table key")
                    cx.table_keys[name] = v
                keypos[name] = (pos, bit)
                tab = self.dobj(p["table"])
                n = self.static_bits(self.dobj(tab["key_dop"]))
                if n is None:
                    raise Skip("table key without static size")
                cursor = pos + _nbytes(n, bit)
                cx.pdu.ensure(cursor)
            elif kind == "TABLE-STRUCT":
                if v is None:
                    raise Unrepresentable("missing-required", name)
                if not (isinstance(v, (tuple, list)) and len(v) == 2 and isinstance(v[0], str)):
                    raise Unrepresentable("wrong-shape", "table struct value")
                kp = next((q for q in params if q["name"] == p["key"]), None)
                if kp is None or kp.get("row") is not None:
                    raise Skip("table struct without local TABLE-REF key")
                prev = cx.table_keys.get(p["key"])
                if prev is not None and prev != v[0]:
                    raise Unrepresentable("conflicting-table-key", name)
                cx.table_keys[p["key"]] = v[0]
                tab = self.dobj(kp["table"])
                row = next((r for r in tab["rows"] if r["name"] == v[0]), None)
                if row is None:
                    raise Unrepresentable("unknown-row", v[0])
                tgt = row.get("struct") or row.get("dop")
                if tgt is None:
                    # a row that carries no data: only its key is on the wire
                    if v[1] not in (None, {}):
                        raise Skip("content for a table row without structure or data object")
                    cursor = pos
                    cx.pdu.ensure(cursor)
                else:
                    cursor = self.enc_dobj(cx, self.dobj(tgt), v[1], pos, bit, is_last)
            else:
                raise Skip(f"parameter kind {kind}")
        # keys are filled in after their users
        for p in params:
            if p["p"] == "LENGTH-KEY":
                kid = local_lk[p["name"]]
                if kid not in cx.length_keys:
                    raise Unrepresentable("length-key-undefined", p["name"])
                pos, bit = keypos[p["name"]]
                self.enc_dobj(cx, self.dobj(p["dop"]), cx.length_keys[kid], pos, bit, False)
                # the key belongs to this instance of the parameter list: the next item of a
                # field determines its own length
                del cx.length_keys[kid]
            elif p["p"] == "TABLE-KEY":
                if p["name"] not in cx.table_keys:
                    raise Unrepresentable("table-key-undefined", p["name"])
                tab = self.dobj(p["table"])
                row = next((r for r in tab["rows"] if r["name"] == cx.table_keys[p["name"]]), None)
                if row is None:
                    raise Unrepresentable("unknown-row", cx.table_keys[p["name"]])
                pos, bit = keypos[p["name"]]
                self.enc_dobj(cx, self.dobj(tab["key_dop"]), row["key"], pos, bit, False)
        return cursor

    def dec_params(self, cx: DecCtx, params: List[J], origin: int, last: bool) -> Tuple[Dict[str, Any], int]:
        res: Dict[str, Any] = {}
        cursor = origin
        for idx, p in enumerate(params):
            is_last = last and idx == len(params) - 1
            kind = p["p"]
            name = p["name"]
            pos = origin + p["byte"] if p.get("byte") is not None else cursor
            bit = p.get("bit") or 0
            if kind == "CODED-CONST":
                v, cursor = self.dec_dct(cx, p["dct"], pos, bit)
                if v != p["value"]:
                    # "constant prefix" is read as a prefix of whole bytes: a leading constant
                    # that shares its byte with a value is not part of it
                    whole = bit == 0 and p["dct"].get("bits", 8) % 8 == 0
                    raise Mismatch(f"{name}: {v!r} != {p['value']!r}",
                                   leading=cx.first_const and whole)
                res[name] = v
            elif kind == "PHYS-CONST":
                v, cursor = self.dec_dobj(cx, self.dobj(p["dop"]), pos, bit, is_last)
                if v != p["value"]:
                    raise Mismatch(f"{name}: {v!r} != {p['value']!r}", leading=cx.first_const)
                res[name] = v
            elif kind in ("VALUE", "SYSTEM"):
                cx.first_const = False
                v, cursor = self.dec_dobj(cx, self.dobj(p["dop"]), pos, bit, is_last)
                res[name] = v
                cx.journal.append((p, v))
            elif kind == "RESERVED":
                cx.first_const = False
                cursor = pos + _nbytes(p["bits"], bit)
                if cursor > len(cx.pdu):
                    raise Short("reserved")
                res[name] = None
            elif kind == "NRC-CONST":
                v, cursor = self.dec_dct(cx, p["dct"], pos, bit)
                if v not in p["values"]:
                    raise Mismatch(f"NRC {v!r} not listed", nrc=True)
                res[name] = v
            elif kind == "MATCHING-REQUEST-PARAM":
                cursor = pos + p["len"]
                if cursor > len(cx.pdu):
                    raise Short("matching request param")
                got = cx.pdu[pos:cursor]
                if cx.request is not None and len(cx.request) >= p["req_pos"] + p["len"]:
                    want = cx.request[p["req_pos"]:p["req_pos"] + p["len"]]
                    if got != want:
                        const_part = cx.request_const_len is None or \
                            p["req_pos"] + p["len"] <= cx.request_const_len
                        raise Mismatch(f"{name}: request echo differs",
                                       leading=cx.first_const and const_part)
                res[name] = got
            elif kind == "LENGTH-KEY":
                cx.first_const = False
                v, cursor = self.dec_dobj(cx, self.dobj(p["dop"]), pos, bit, False)
                if isinstance(v, bool) or not isinstance(v, int):
                    raise Skip("length key not integer")
                cx.length_keys[p.get("id") or name] = v
                res[name] = v
            elif kind == "TABLE-KEY":
                cx.first_const = False
                if p.get("row") is not None:
                    raise Skip("TABLE-KEY fixed by TABLE-ROW-REF")
                tab = self.dobj(p["table"])
                v, cursor = self.dec_dobj(cx, self.dobj(tab["key_dop"]), pos, bit, False)
                rows = [r for r in tab["rows"] if r["key"] == v]
                if len(rows) != 1:
                    raise Invalid(f"no unique table row for key {v!r}")
                cx.table_keys[name] = rows[0]
                res[name] = rows[0]["name"]
            elif kind == "TABLE-STRUCT":
                cx.first_const = False
                row = cx.table_keys.get(p["key"])
                if row is None:
                    raise Skip("table struct before its key")
                tgt = row.get("struct") or row.get("dop")
                if tgt is None:
                    v, cursor = None, pos
                else:
                    v, cursor = self.dec_dobj(cx, self.dobj(tgt), pos, bit, is_last)
                res[name] = (row["name"], v)
            else:
                raise Skip(f"parameter kind {kind}")
            cx.max_end = max(cx.max_end, cursor)
        return res, cursor

    # -- messages ----------------------------------------------------------------
    def encode(self, msg: J, values: Dict[str, Any], request: Optional[bytes] = None) -> "Encoded":
        cx = EncCtx(self, request)
        if not isinstance(values, dict):
            raise Unrepresentable("wrong-shape", "message values")
        self.enc_params(cx, msg["params"], values, 0, True)
        return Encoded(bytes(cx.pdu.buf), cx.pdu.overlap,
                       bool(getattr(cx, "implicit_keys", None)),
                       bool(getattr(cx, "endmarker_used", False)), cx.pdu.conflict)

    def const_prefix(self, msg: J) -> bytes:
        """Leading bytes of every PDU of the message that are fully determined by constants."""
        cx = EncCtx(self, None)
        cursor = 0
        for p in msg["params"]:
            if p["p"] != "CODED-CONST" or p["dct"]["k"] != "STD":
                break
            pos = p["byte"] if p.get("byte") is not None else cursor
            try:
                cursor = self.enc_dct(cx, p["dct"], p["value"], pos, p.get("bit") or 0, False)
            except RefError:
                break
        n = 0
        while n < len(cx.pdu.claimed) and cx.pdu.claimed[n] == 0xFF:
            n += 1
        return bytes(cx.pdu.buf[:n])

    def decode(self, msg: J, pdu: bytes, request: Optional[bytes] = None,
               request_const_len: Optional[int] = None) -> Tuple[Dict[str, Any], int]:
        cx = DecCtx(self, pdu, request)
        cx.request_const_len = request_const_len
        vals, _ = self.dec_params(cx, msg["params"], 0, True)
        return vals, cx.max_end


class Encoded:

    def __init__(self, pdu: bytes, overlap: bool, implicit_keys: bool, endmarker: bool,
                 conflict: bool = False):
        self.pdu = pdu
        self.overlap = overlap
        self.implicit_keys = implicit_keys
        self.endmarker = endmarker
        self.conflict = conflict


# ---------------------------------------------------------------------------
# comparing values


def values_equal(a: Any, b: Any, rel: float = 1e-9) -> bool:
    """Compare an odxtools value with a reference value (see DESIGN §2.1a)."""
    if b is None:
        return True  # the reference makes no statement (RESERVED)
    tc = getattr(a, "trouble_code", None)
    if tc is not None and not isinstance(a, (int, float)):
        a = tc
    tc = getattr(b, "trouble_code", None)
    if tc is not None and not isinstance(b, (int, float)):
        b = tc
    if isinstance(a, bool):
        a = int(a)
    if isinstance(b, bool):
        b = int(b)
    if isinstance(a, (bytes, bytearray)) and isinstance(b, (bytes, bytearray)):
        return bytes(a) == bytes(b)
    if isinstance(b, (bytes, bytearray)) and isinstance(a, int):
        # MATCHING-REQUEST-PARAM: echoed bytes or their integer reading
        return a in (int.from_bytes(b, "big"), int.from_bytes(b, "little"))
    if isinstance(a, float) or isinstance(b, float):
        if not isinstance(a, (int, float)) or not isinstance(b, (int, float)):
            return False
        if a == b:
            return True
        if math.isnan(a) or math.isnan(b):
            return False
        return abs(a - b) <= rel * max(abs(a), abs(b)) or abs(a - b) < 1e-300
    if isinstance(a, dict) and isinstance(b, dict):
        if set(a.keys()) != set(b.keys()):
            return False
        return all(values_equal(a[k], b[k]) for k in b)
    if isinstance(a, (list, tuple)) and isinstance(b, (list, tuple)):
        return len(a) == len(b) and all(values_equal(x, y) for x, y in zip(a, b))
    return type(a) == type(b) and a == b
