"""Rich ODX documents for C11 (PDX write / load round trip).

`core_docs()` returns the XML documents of one database that populates as many optional
elements / attributes the odxtools parsers read as possible *and* that the unchanged writer
can write and reload (it is the base of the single-attribute perturbations).

`feature_docs()` returns small databases, each adding ONE construct that an earlier
read-through of the templates predicted to break the writer or the reload outright (a
template exception or a dangling reference kills the whole write, so they cannot share a
database with anything else).  Every entry names the element class it is about.

Everything here is plain XML text fed to odxtools through `odxgen.load_xml`, never through
private constructors.
"""
from __future__ import annotations

from typing import Any, Dict, List, Tuple

XSI = 'xmlns:xsi="http://www.w3.org/2001/XMLSchema-instance"'
HEAD = ('<?xml version="1.0" encoding="UTF-8" standalone="no" ?>\n'
        f'<ODX MODEL-VERSION="2.2.0" {XSI} xsi:noNamespaceSchemaLocation="odx.xsd">')
TAIL = "</ODX>"


# ---------------------------------------------------------------------------
# small fragments used all over


def desc(text: str = "plain text", ti: str = "") -> str:
    a = f' TI="{ti}"' if ti else ""
    return f"<DESC{a}><p>{text}</p></DESC>"


def named(name: str, long_name: bool = True, d: bool = True) -> str:
    s = f"<SHORT-NAME>{name}</SHORT-NAME>"
    if long_name:
        s += f"<LONG-NAME>{name} long name</LONG-NAME>"
    if d:
        s += desc(f"description of {name}", ti=f"TI.{name}")
    return s


def sdgs(key: str, with_caption: bool = True) -> str:
    cap = ""
    if with_caption:
        cap = (f'<SDG-CAPTION ID="SDGC.{key}" OID="oid.sdgc.{key}">{named("cap_" + key)}'
               "</SDG-CAPTION>")
    return (f'<SDGS><SDG SI="si.{key}">{cap}<SD SI="sd.si.{key}" TI="sd.ti.{key}">value {key}</SD>'
            f'<SDG SI="nested.{key}"><SD>inner {key}</SD></SDG><SD>second {key}</SD></SDG>'
            f'<SDG><SD SI="only">x</SD></SDG></SDGS>')


def sdgs_capref(key: str, caption_key: str) -> str:
    return (f'<SDGS><SDG SI="si.{key}"><SDG-CAPTION-REF ID-REF="SDGC.{caption_key}"/>'
            f'<SD SI="sd.{key}">v {key}</SD></SDG></SDGS>')


def admin_data(key: str, company: str = "CD.acme", member: str = "TM.acme.doe") -> str:
    return (
        "<ADMIN-DATA><LANGUAGE>en-UK</LANGUAGE>"
        "<COMPANY-DOC-INFOS><COMPANY-DOC-INFO>"
        f'<COMPANY-DATA-REF ID-REF="{company}"/><TEAM-MEMBER-REF ID-REF="{member}"/>'
        f"<DOC-LABEL>label {key}</DOC-LABEL>{sdgs('cdi.' + key, False)}"
        "</COMPANY-DOC-INFO></COMPANY-DOC-INFOS>"
        "<DOC-REVISIONS><DOC-REVISION>"
        f'<TEAM-MEMBER-REF ID-REF="{member}"/>'
        f"<REVISION-LABEL>1.2.{len(key)}</REVISION-LABEL><STATE>released</STATE>"
        "<DATE>2024-02-29T12:00:00+01:00</DATE><TOOL>quill and ink</TOOL>"
        "<COMPANY-REVISION-INFOS><COMPANY-REVISION-INFO>"
        f'<COMPANY-DATA-REF ID-REF="{company}"/><REVISION-LABEL>c-{key}</REVISION-LABEL>'
        "<STATE>frozen</STATE></COMPANY-REVISION-INFO></COMPANY-REVISION-INFOS>"
        f"<MODIFICATIONS><MODIFICATION><CHANGE>changed {key}</CHANGE><REASON>because</REASON>"
        "</MODIFICATION><MODIFICATION><CHANGE>again</CHANGE></MODIFICATION></MODIFICATIONS>"
        "</DOC-REVISION><DOC-REVISION><DATE>2023-01-01T00:00:00</DATE></DOC-REVISION>"
        "</DOC-REVISIONS></ADMIN-DATA>")


def company_datas(prefix: str = "acme") -> str:
    cd = f"CD.{prefix}"
    return (
        f'<COMPANY-DATAS><COMPANY-DATA ID="{cd}" OID="oid.{cd}">{named(prefix)}'
        "<ROLES><ROLE>supplier</ROLE><ROLE>tester</ROLE></ROLES>"
        f'<TEAM-MEMBERS><TEAM-MEMBER ID="TM.{prefix}.doe" OID="oid.tm.{prefix}">{named("doe")}'
        "<ROLES><ROLE>author</ROLE></ROLES><DEPARTMENT>R and D</DEPARTMENT>"
        "<ADDRESS>1 Main Street</ADDRESS><ZIP>12345</ZIP><CITY>Springfield</CITY>"
        "<PHONE>+1 555 0100</PHONE><FAX>+1 555 0101</FAX><EMAIL>doe@example.org</EMAIL>"
        f'</TEAM-MEMBER><TEAM-MEMBER ID="TM.{prefix}.roe"><SHORT-NAME>roe</SHORT-NAME>'
        "</TEAM-MEMBER></TEAM-MEMBERS>"
        "<COMPANY-SPECIFIC-INFO><RELATED-DOCS><RELATED-DOC>"
        f"<XDOC>{named('manual')}<NUMBER>42</NUMBER><STATE>draft</STATE>"
        "<DATE>2020-01-01T00:00:00</DATE><PUBLISHER>press</PUBLISHER>"
        "<URL>http://example.org/manual</URL><POSITION>p. 7</POSITION></XDOC>"
        f"{desc('related doc')}</RELATED-DOC></RELATED-DOCS>{sdgs('csi.' + prefix, False)}"
        "</COMPANY-SPECIFIC-INFO></COMPANY-DATA>"
        f'<COMPANY-DATA ID="CD.{prefix}2"><SHORT-NAME>{prefix}2</SHORT-NAME></COMPANY-DATA>'
        "</COMPANY-DATAS>")


def dct_std(base: str, bits: int, extra_attr: str = "", mask: str = "") -> str:
    m = f"<BIT-MASK>{mask}</BIT-MASK>" if mask else ""
    return (f'<DIAG-CODED-TYPE BASE-DATA-TYPE="{base}"{extra_attr} xsi:type="STANDARD-LENGTH-TYPE">'
            f"<BIT-LENGTH>{bits}</BIT-LENGTH>{m}</DIAG-CODED-TYPE>")


def dct_minmax(base: str, mn: int, mx: str, term: str, extra_attr: str = "") -> str:
    m = f"<MAX-LENGTH>{mx}</MAX-LENGTH>" if mx != "" else ""
    return (f'<DIAG-CODED-TYPE BASE-DATA-TYPE="{base}"{extra_attr} TERMINATION="{term}" '
            f'xsi:type="MIN-MAX-LENGTH-TYPE">{m}<MIN-LENGTH>{mn}</MIN-LENGTH></DIAG-CODED-TYPE>')


def dct_leading(base: str, bits: int, extra_attr: str = "") -> str:
    return (f'<DIAG-CODED-TYPE BASE-DATA-TYPE="{base}"{extra_attr} '
            f'xsi:type="LEADING-LENGTH-INFO-TYPE"><BIT-LENGTH>{bits}</BIT-LENGTH>'
            "</DIAG-CODED-TYPE>")


IDENT = "<COMPU-METHOD><CATEGORY>IDENTICAL</CATEGORY></COMPU-METHOD>"


def dop(did: str, name: str, compu: str, dct: str, ptype: str, head_extra: str = "",
        body_extra: str = "", ptype_attr: str = "", ptype_body: str = "", rich: bool = False) -> str:
    nm = named(name) if rich else f"<SHORT-NAME>{name}</SHORT-NAME>"
    if rich:
        nm += admin_data("dop." + name) + sdgs("dop." + name)
        head_extra += f' OID="oid.dop.{name}"'
    if ptype_body:
        pt = f'<PHYSICAL-TYPE BASE-DATA-TYPE="{ptype}"{ptype_attr}>{ptype_body}</PHYSICAL-TYPE>'
    else:
        pt = f'<PHYSICAL-TYPE BASE-DATA-TYPE="{ptype}"{ptype_attr}/>'
    return (f'<DATA-OBJECT-PROP ID="{did}"{head_extra}>{nm}{compu}{dct}{pt}{body_extra}'
            "</DATA-OBJECT-PROP>")


def scale(lo: str = "", hi: str = "", body: str = "", label: str = "", d: str = "") -> str:
    s = "<COMPU-SCALE>"
    if label:
        s += f"<SHORT-LABEL>{label}</SHORT-LABEL>"
    s += d + lo + hi + body
    return s + "</COMPU-SCALE>"


def lim(tag: str, val: str, it: str = "") -> str:
    a = f' INTERVAL-TYPE="{it}"' if it else ""
    if val == "":
        return f"<{tag}{a}/>"
    return f"<{tag}{a}>{val}</{tag}>"


def coeffs(num: List[str], den: List[str]) -> str:
    s = "<COMPU-RATIONAL-COEFFS><COMPU-NUMERATOR>" + "".join(f"<V>{v}</V>" for v in num) + \
        "</COMPU-NUMERATOR>"
    if den:
        s += "<COMPU-DENOMINATOR>" + "".join(f"<V>{v}</V>" for v in den) + "</COMPU-DENOMINATOR>"
    return s + "</COMPU-RATIONAL-COEFFS>"


def compu(cat: str, i2p: str = "", p2i: str = "") -> str:
    s = f"<COMPU-METHOD><CATEGORY>{cat}</CATEGORY>"
    if i2p:
        s += f"<COMPU-INTERNAL-TO-PHYS>{i2p}</COMPU-INTERNAL-TO-PHYS>"
    if p2i:
        s += f"<COMPU-PHYS-TO-INTERNAL>{p2i}</COMPU-PHYS-TO-INTERNAL>"
    return s + "</COMPU-METHOD>"


def scales(*sc: str) -> str:
    return "<COMPU-SCALES>" + "".join(sc) + "</COMPU-SCALES>"


def param(kind: str, name: str, body: str, byte: object = None, bit: object = None,
          attr: str = "", rich: bool = False) -> str:
    nm = named(name) if rich else f"<SHORT-NAME>{name}</SHORT-NAME>"
    if rich:
        attr += f' SEMANTIC="sem.{name}" OID="oid.param.{name}"'
        nm += sdgs("param." + name, False)
    pos = ""
    if byte is not None:
        pos += f"<BYTE-POSITION>{byte}</BYTE-POSITION>"
    if bit is not None:
        pos += f"<BIT-POSITION>{bit}</BIT-POSITION>"
    return f'<PARAM{attr} xsi:type="{kind}">{nm}{pos}{body}</PARAM>'


def p_const(name: str, value: object, byte: object = None, bits: int = 8, **kw: Any) -> str:
    return param("CODED-CONST", name,
                 f"<CODED-VALUE>{value}</CODED-VALUE>" + dct_std("A_UINT32", bits), byte, **kw)


def p_value(name: str, dop_id: str, byte: object = None, default: str = "", **kw: Any) -> str:
    d = f"<PHYSICAL-DEFAULT-VALUE>{default}</PHYSICAL-DEFAULT-VALUE>" if default != "" else ""
    return param("VALUE", name, d + f'<DOP-REF ID-REF="{dop_id}"/>', byte, **kw)


def message(tag: str, mid: str, name: str, params: str, rich: bool = False) -> str:
    nm = named(name) if rich else f"<SHORT-NAME>{name}</SHORT-NAME>"
    a = f' OID="oid.msg.{name}"' if rich else ""
    tail = sdgs("msg." + name, False) if rich else ""
    ad = admin_data("msg." + name) if rich else ""
    return f'<{tag} ID="{mid}"{a}>{nm}{ad}<PARAMS>{params}</PARAMS>{tail}</{tag}>'


def service(sid: str, name: str, req: str, pos: List[str], neg: List[str], attr: str = "",
            pre: str = "", post: str = "", rich: bool = False) -> str:
    nm = named(name) if rich else f"<SHORT-NAME>{name}</SHORT-NAME>"
    s = f'<DIAG-SERVICE ID="{sid}"{attr}>{nm}{pre}<REQUEST-REF ID-REF="{req}"/>'
    if pos:
        s += "<POS-RESPONSE-REFS>" + "".join(f'<POS-RESPONSE-REF ID-REF="{p}"/>' for p in pos) + \
            "</POS-RESPONSE-REFS>"
    if neg:
        s += "<NEG-RESPONSE-REFS>" + "".join(f'<NEG-RESPONSE-REF ID-REF="{p}"/>' for p in neg) + \
            "</NEG-RESPONSE-REFS>"
    return s + post + "</DIAG-SERVICE>"


# ---------------------------------------------------------------------------
# communication parameters


def comparam_subset(name: str = "rich_cps", id_prefix: str = "") -> str:
    # NB: the unchanged writer emits DOCREF := ID-REF for COMPARAM-SUBSET-REF, so the core
    # database uses ID == SHORT-NAME for the subset (id_prefix="" ); a feature database uses a
    # different ID to expose that.
    cs = id_prefix + name
    x = HEAD + f'<COMPARAM-SUBSET ID="{cs}" OID="oid.{cs}" CATEGORY="TRANSPORT">' + named(name)
    x += admin_data("cps", "CD.cps", "TM.cps.doe") + company_datas("cps") + sdgs("cps")
    x += "<COMPARAMS>"
    x += (f'<COMPARAM ID="{cs}.CP.timeout" OID="oid.cp.timeout" PARAM-CLASS="TIMING" '
          'CPTYPE="STANDARD" DISPLAY-LEVEL="2" CPUSAGE="ECU-COMM">' + named("CP_Timeout") +
          "<PHYSICAL-DEFAULT-VALUE>250</PHYSICAL-DEFAULT-VALUE>"
          f'<DATA-OBJECT-PROP-REF ID-REF="{cs}.DOP.u32"/></COMPARAM>')
    x += (f'<COMPARAM ID="{cs}.CP.tag" PARAM-CLASS="COM" CPTYPE="OPTIONAL" CPUSAGE="TESTER">'
          "<SHORT-NAME>CP_Tag</SHORT-NAME><PHYSICAL-DEFAULT-VALUE>abc</PHYSICAL-DEFAULT-VALUE>"
          f'<DATA-OBJECT-PROP-REF ID-REF="{cs}.DOP.str"/></COMPARAM>')
    x += "</COMPARAMS><COMPLEX-COMPARAMS>"
    x += (f'<COMPLEX-COMPARAM ID="{cs}.CCP.ids" OID="oid.ccp.ids" PARAM-CLASS="UNIQUE_ID" '
          'CPTYPE="OEM-SPECIFIC" DISPLAY-LEVEL="1" CPUSAGE="ECU-SOFTWARE" '
          'ALLOW-MULTIPLE-VALUES="true">' + named("CP_Ids") +
          f'<COMPARAM ID="{cs}.CP.ids.a" PARAM-CLASS="UNIQUE_ID" CPTYPE="STANDARD" '
          'CPUSAGE="ECU-COMM"><SHORT-NAME>CP_IdA</SHORT-NAME>'
          "<PHYSICAL-DEFAULT-VALUE>1</PHYSICAL-DEFAULT-VALUE>"
          f'<DATA-OBJECT-PROP-REF ID-REF="{cs}.DOP.u32"/></COMPARAM>'
          f'<COMPLEX-COMPARAM ID="{cs}.CCP.ids.inner" PARAM-CLASS="UNIQUE_ID" CPTYPE="STANDARD" '
          'CPUSAGE="ECU-COMM" ALLOW-MULTIPLE-VALUES="false"><SHORT-NAME>CP_Inner</SHORT-NAME>'
          f'<COMPARAM ID="{cs}.CP.ids.b" PARAM-CLASS="UNIQUE_ID" CPTYPE="STANDARD" '
          'CPUSAGE="ECU-COMM"><SHORT-NAME>CP_IdB</SHORT-NAME>'
          "<PHYSICAL-DEFAULT-VALUE>2</PHYSICAL-DEFAULT-VALUE>"
          f'<DATA-OBJECT-PROP-REF ID-REF="{cs}.DOP.u32"/></COMPARAM></COMPLEX-COMPARAM>'
          "<COMPLEX-PHYSICAL-DEFAULT-VALUE><COMPLEX-VALUE><SIMPLE-VALUE>7</SIMPLE-VALUE>"
          "<COMPLEX-VALUE><SIMPLE-VALUE>8</SIMPLE-VALUE></COMPLEX-VALUE></COMPLEX-VALUE>"
          "</COMPLEX-PHYSICAL-DEFAULT-VALUE></COMPLEX-COMPARAM>")
    x += "</COMPLEX-COMPARAMS><DATA-OBJECT-PROPS>"
    x += dop(f"{cs}.DOP.u32", "u32", IDENT, dct_std("A_UINT32", 32), "A_UINT32",
             body_extra=f'<UNIT-REF ID-REF="{cs}.UNIT.ms"/>')
    x += dop(f"{cs}.DOP.str", "str", IDENT, dct_minmax("A_ASCIISTRING", 0, "20", "END-OF-PDU"),
             "A_UNICODE2STRING")
    x += "</DATA-OBJECT-PROPS>"
    x += unit_spec(cs, "cps", "CD.cps", "TM.cps.doe")
    return x + "</COMPARAM-SUBSET>" + TAIL


def comparam_spec(name: str = "rich_cpspec", subset: str = "rich_cps",
                  id_prefix: str = "") -> str:
    sp = "CSPEC." + name
    x = HEAD + f'<COMPARAM-SPEC ID="{sp}" OID="oid.{sp}">' + named(name)
    x += admin_data("cspec", "CD.cspec", "TM.cspec.doe") + company_datas("cspec") + sdgs("cspec")
    x += (f'<PROT-STACKS><PROT-STACK ID="{sp}.PS.can" OID="oid.ps.can">' + named("ps_can") +
          "<PDU-PROTOCOL-TYPE>ISO_15765_3</PDU-PROTOCOL-TYPE>"
          "<PHYSICAL-LINK-TYPE>ISO_11898_2_DWCAN</PHYSICAL-LINK-TYPE><COMPARAM-SUBSET-REFS>"
          f'<COMPARAM-SUBSET-REF ID-REF="{id_prefix}{subset}" DOCREF="{subset}" '
          'DOCTYPE="COMPARAM-SUBSET"/>'
          "</COMPARAM-SUBSET-REFS></PROT-STACK>"
          f'<PROT-STACK ID="{sp}.PS.lin"><SHORT-NAME>ps_lin</SHORT-NAME>'
          "<PDU-PROTOCOL-TYPE>ISO_14230_3</PDU-PROTOCOL-TYPE>"
          "<PHYSICAL-LINK-TYPE>ISO_14230_1_UART</PHYSICAL-LINK-TYPE></PROT-STACK></PROT-STACKS>")
    return x + "</COMPARAM-SPEC>" + TAIL


def unit_spec(pfx: str, key: str, company: str = "CD.acme", member: str = "TM.acme.doe") -> str:
    return (
        "<UNIT-SPEC>" + admin_data("us." + key, company, member) +
        f'<UNIT-GROUPS><UNIT-GROUP OID="oid.ug.{key}">' + named("metric") +
        f'<CATEGORY>COUNTRY</CATEGORY><UNIT-REFS><UNIT-REF ID-REF="{pfx}.UNIT.ms"/>'
        f'<UNIT-REF ID-REF="{pfx}.UNIT.km"/></UNIT-REFS></UNIT-GROUP>'
        '<UNIT-GROUP><SHORT-NAME>equiv</SHORT-NAME><CATEGORY>EQUIV-UNITS</CATEGORY></UNIT-GROUP>'
        "</UNIT-GROUPS><UNITS>"
        f'<UNIT ID="{pfx}.UNIT.ms" OID="oid.unit.ms.{key}">' + named("millisecond") +
        "<DISPLAY-NAME>ms</DISPLAY-NAME><FACTOR-SI-TO-UNIT>1000.0</FACTOR-SI-TO-UNIT>"
        "<OFFSET-SI-TO-UNIT>0.25</OFFSET-SI-TO-UNIT>"
        f'<PHYSICAL-DIMENSION-REF ID-REF="{pfx}.PD.time"/></UNIT>'
        f'<UNIT ID="{pfx}.UNIT.km"><SHORT-NAME>kilometre</SHORT-NAME>'
        "<DISPLAY-NAME>km</DISPLAY-NAME></UNIT></UNITS><PHYSICAL-DIMENSIONS>"
        f'<PHYSICAL-DIMENSION ID="{pfx}.PD.time" OID="oid.pd.time.{key}">' + named("time") +
        "<LENGTH-EXP>1</LENGTH-EXP><MASS-EXP>2</MASS-EXP><TIME-EXP>-1</TIME-EXP>"
        "<CURRENT-EXP>3</CURRENT-EXP><TEMPERATURE-EXP>-2</TEMPERATURE-EXP>"
        "<MOLAR-AMOUNT-EXP>4</MOLAR-AMOUNT-EXP><LUMINOUS-INTENSITY-EXP>5</LUMINOUS-INTENSITY-EXP>"
        f'</PHYSICAL-DIMENSION><PHYSICAL-DIMENSION ID="{pfx}.PD.none">'
        "<SHORT-NAME>dimensionless</SHORT-NAME></PHYSICAL-DIMENSION></PHYSICAL-DIMENSIONS>" +
        sdgs("us." + key, False) + "</UNIT-SPEC>")


def comparam_refs(subset: str = "rich_cps", with_snrefs: bool = True,
                  id_prefix: str = "") -> str:
    cs = id_prefix + subset
    sn = ('<PROT-STACK-SNREF SHORT-NAME="ps_can"/>' if with_snrefs else "")
    pn = ('<PROTOCOL-SNREF SHORT-NAME="rich_prot"/>' if with_snrefs else "")
    return (
        "<COMPARAM-REFS>"
        f'<COMPARAM-REF ID-REF="{cs}.CP.timeout" DOCREF="{subset}" DOCTYPE="COMPARAM-SUBSET">'
        f"<SIMPLE-VALUE>300</SIMPLE-VALUE>{desc('timeout override')}{sn}</COMPARAM-REF>"
        f'<COMPARAM-REF ID-REF="{cs}.CP.tag" DOCREF="{subset}" DOCTYPE="COMPARAM-SUBSET">'
        f"<SIMPLE-VALUE>xyz</SIMPLE-VALUE>{pn}</COMPARAM-REF>"
        f'<COMPARAM-REF ID-REF="{cs}.CCP.ids" DOCREF="{subset}" DOCTYPE="COMPARAM-SUBSET">'
        "<COMPLEX-VALUE><SIMPLE-VALUE>11</SIMPLE-VALUE><COMPLEX-VALUE>"
        "<SIMPLE-VALUE>12</SIMPLE-VALUE></COMPLEX-VALUE></COMPLEX-VALUE></COMPARAM-REF>"
        "</COMPARAM-REFS>")


# ---------------------------------------------------------------------------
# the core container


def _bv_dops(L: str) -> str:
    """DATA-OBJECT-PROPS of the main base variant (L = id prefix)."""
    x = ""
    # rich identical uint8 with everything a DOP can carry
    x += dop(
        f"{L}.DOP.u8", "u8", IDENT, dct_std("A_UINT32", 8, ' IS-HIGHLOW-BYTE-ORDER="true"'),
        "A_UINT32", ptype_attr=' DISPLAY-RADIX="HEX"', rich=True,
        body_extra=("<INTERNAL-CONSTR>" + lim("LOWER-LIMIT", "1", "CLOSED") +
                    lim("UPPER-LIMIT", "200", "OPEN") +
                    '<SCALE-CONSTRS><SCALE-CONSTR VALIDITY="NOT-VALID"><SHORT-LABEL>gap</SHORT-LABEL>'
                    + desc("forbidden gap") + lim("LOWER-LIMIT", "100") + lim("UPPER-LIMIT", "110") +
                    '</SCALE-CONSTR><SCALE-CONSTR VALIDITY="NOT-DEFINED">' +
                    lim("LOWER-LIMIT", "120", "OPEN") + lim("UPPER-LIMIT", "130", "CLOSED") +
                    "</SCALE-CONSTR></SCALE-CONSTRS></INTERNAL-CONSTR>" +
                    f'<UNIT-REF ID-REF="{L}.UNIT.ms"/>'
                    "<PHYS-CONSTR>" + lim("LOWER-LIMIT", "2") + lim("UPPER-LIMIT", "150") +
                    "</PHYS-CONSTR>"))
    x += dop(f"{L}.DOP.u8plain", "u8plain", IDENT, dct_std("A_UINT32", 8), "A_UINT32")
    x += dop(f"{L}.DOP.u16le", "u16le", IDENT,
             dct_std("A_UINT32", 16, ' IS-HIGHLOW-BYTE-ORDER="false"'), "A_UINT32",
             ptype_attr=' DISPLAY-RADIX="DEC"', ptype_body="<PRECISION>3</PRECISION>")
    x += dop(f"{L}.DOP.masked", "masked", IDENT,
             dct_std("A_UINT32", 16, ' IS-CONDENSED="true"', mask="0F0F"), "A_UINT32",
             ptype_attr=' DISPLAY-RADIX="BIN"')
    x += dop(f"{L}.DOP.masked2", "masked2", IDENT,
             dct_std("A_UINT32", 8, ' IS-CONDENSED="false"', mask="7F"), "A_UINT32",
             ptype_attr=' DISPLAY-RADIX="OCT"')
    x += dop(f"{L}.DOP.i16", "i16", IDENT, dct_std("A_INT32", 16, ' BASE-TYPE-ENCODING="2C"'),
             "A_INT32")
    x += dop(f"{L}.DOP.i8sm", "i8sm", IDENT, dct_std("A_INT32", 8, ' BASE-TYPE-ENCODING="SM"'),
             "A_INT32")
    x += dop(f"{L}.DOP.bcd", "bcd", IDENT, dct_std("A_UINT32", 16, ' BASE-TYPE-ENCODING="BCD-P"'),
             "A_UINT32")
    x += dop(f"{L}.DOP.f32", "f32", IDENT, dct_std("A_FLOAT32", 32), "A_FLOAT32",
             ptype_body="<PRECISION>2</PRECISION>")
    x += dop(f"{L}.DOP.f64", "f64", IDENT, dct_std("A_FLOAT64", 64), "A_FLOAT64")
    x += dop(f"{L}.DOP.bytes4", "bytes4", IDENT, dct_std("A_BYTEFIELD", 32), "A_BYTEFIELD")
    # linear, float physical
    x += dop(
        f"{L}.DOP.linear", "linear",
        compu("LINEAR",
              scales(scale(lim("LOWER-LIMIT", "0", "CLOSED"), lim("UPPER-LIMIT", "1000", "CLOSED"),
                           coeffs(["1.5", "0.25"], ["2"]), label="lin", d=desc("linear scale")))),
        dct_std("A_UINT32", 16), "A_FLOAT64", ptype_body="<PRECISION>2</PRECISION>",
        body_extra=f'<UNIT-REF ID-REF="{L}.UNIT.km"/>')
    # coefficients that need many significant digits (nothing may be lost when they are written)
    x += dop(
        f"{L}.DOP.linear_precise", "linear_precise",
        compu("LINEAR",
              scales(scale(lim("LOWER-LIMIT", "0", "CLOSED"), lim("UPPER-LIMIT", "60000", "CLOSED"),
                           coeffs(["-1234567.125", "0.0009765625"], ["3"]), label="precise"))),
        dct_std("A_UINT32", 16), "A_FLOAT64")
    x += dop(
        f"{L}.DOP.linear_bigint", "linear_bigint",
        compu("LINEAR",
              scales(scale(lim("LOWER-LIMIT", "0", "CLOSED"), lim("UPPER-LIMIT", "200", "CLOSED"),
                           coeffs(["123456789", "7"], ["1"]), label="bigint"))),
        dct_std("A_UINT32", 8), "A_INT32")
    x += dop(
        f"{L}.DOP.scalelinear", "scalelinear",
        compu("SCALE-LINEAR",
              scales(scale(lim("LOWER-LIMIT", "0", "CLOSED"), lim("UPPER-LIMIT", "100", "OPEN"),
                           coeffs(["0", "2"], ["1"]), label="low"),
                     scale(lim("LOWER-LIMIT", "100", "CLOSED"), lim("UPPER-LIMIT", "200", "CLOSED"),
                           "<COMPU-INVERSE-VALUE><V>150</V></COMPU-INVERSE-VALUE>" +
                           coeffs(["400", "0"], []), label="flat"))),
        dct_std("A_UINT32", 8), "A_INT32")
    x += dop(
        f"{L}.DOP.texttable", "texttable",
        compu("TEXTTABLE",
              scales(scale(lim("LOWER-LIMIT", "0"), lim("UPPER-LIMIT", "0"),
                           "<COMPU-CONST><VT>off</VT></COMPU-CONST>", label="t0",
                           d=desc("the off state", "TI.off")),
                     scale(lim("LOWER-LIMIT", "1"), lim("UPPER-LIMIT", "9"),
                           "<COMPU-INVERSE-VALUE><V>3</V></COMPU-INVERSE-VALUE>"
                           "<COMPU-CONST><VT>on</VT></COMPU-CONST>"),
                     scale(lim("LOWER-LIMIT", "10", "CLOSED"), "",
                           "<COMPU-CONST><VT>ten and more</VT></COMPU-CONST>")) +
              "<COMPU-DEFAULT-VALUE><VT>undefined</VT><COMPU-INVERSE-VALUE><V>255</V>"
              "</COMPU-INVERSE-VALUE></COMPU-DEFAULT-VALUE>"),
        dct_std("A_UINT32", 8), "A_UNICODE2STRING")
    x += dop(
        f"{L}.DOP.tabintp", "tabintp",
        compu("TAB-INTP",
              scales(scale(lim("LOWER-LIMIT", "0"), "", "<COMPU-CONST><V>-10</V></COMPU-CONST>"),
                     scale(lim("LOWER-LIMIT", "100"), "", "<COMPU-CONST><V>10.5</V></COMPU-CONST>"),
                     scale(lim("LOWER-LIMIT", "200"), "", "<COMPU-CONST><V>30</V></COMPU-CONST>"))),
        dct_std("A_UINT32", 8), "A_FLOAT64")
    x += dop(
        f"{L}.DOP.ratfunc", "ratfunc",
        compu("RAT-FUNC",
              scales(scale(lim("LOWER-LIMIT", "1", "CLOSED"), lim("UPPER-LIMIT", "100", "CLOSED"),
                           coeffs(["0", "3"], ["1"]))),
              scales(scale(lim("LOWER-LIMIT", "3", "CLOSED"), lim("UPPER-LIMIT", "300", "CLOSED"),
                           coeffs(["0", "1"], ["3"])))),
        dct_std("A_UINT32", 16), "A_UINT32")
    x += dop(
        f"{L}.DOP.scaleratfunc", "scaleratfunc",
        compu("SCALE-RAT-FUNC",
              scales(scale(lim("LOWER-LIMIT", "0", "CLOSED"), lim("UPPER-LIMIT", "10", "OPEN"),
                           coeffs(["1", "1"], ["1"])),
                     scale(lim("LOWER-LIMIT", "10", "CLOSED"), lim("UPPER-LIMIT", "20", "CLOSED"),
                           coeffs(["0", "2"], ["1"]))),
              scales(scale(lim("LOWER-LIMIT", "1", "CLOSED"), lim("UPPER-LIMIT", "11", "OPEN"),
                           coeffs(["-1", "1"], ["1"])),
                     scale(lim("LOWER-LIMIT", "20", "CLOSED"), lim("UPPER-LIMIT", "40", "CLOSED"),
                           coeffs(["0", "1"], ["2"]))) +
              "<COMPU-DEFAULT-VALUE><V>0</V></COMPU-DEFAULT-VALUE>"),
        dct_std("A_UINT32", 8), "A_UINT32")
    prog = ("<PROG-CODE><CODE-FILE>conv.jar</CODE-FILE><ENCRYPTION>rot13</ENCRYPTION>"
            "<SYNTAX>JAR</SYNTAX><REVISION>1.0</REVISION><ENTRYPOINT>com.example.Conv</ENTRYPOINT>"
            f'<LIBRARY-REFS><LIBRARY-REF ID-REF="{L}.LIB.helper"/></LIBRARY-REFS></PROG-CODE>')
    x += dop(f"{L}.DOP.compucode", "compucode",
             compu("COMPUCODE", scales() + prog, scales() + prog.replace("conv.jar", "vnoc.jar")),
             dct_std("A_UINT32", 8), "A_UINT32")
    # strings / byte fields with the other length types
    x += dop(f"{L}.DOP.strz", "strz", IDENT,
             dct_minmax("A_ASCIISTRING", 1, "12", "ZERO", ' BASE-TYPE-ENCODING="ISO-8859-1"'),
             "A_UNICODE2STRING")
    x += dop(f"{L}.DOP.strff", "strff", IDENT, dct_minmax("A_UTF8STRING", 0, "", "HEX-FF"),
             "A_UNICODE2STRING")
    x += dop(f"{L}.DOP.str16", "str16", IDENT,
             dct_minmax("A_UNICODE2STRING", 2, "20", "END-OF-PDU",
                        ' BASE-TYPE-ENCODING="UCS-2" IS-HIGHLOW-BYTE-ORDER="true"'),
             "A_UNICODE2STRING")
    x += dop(f"{L}.DOP.bytesll", "bytesll", IDENT, dct_leading("A_BYTEFIELD", 8, ' IS-HIGHLOW-BYTE-ORDER="true"'), "A_BYTEFIELD")
    x += dop(f"{L}.DOP.strll", "strll", IDENT,
             dct_leading("A_UTF8STRING", 16, ' BASE-TYPE-ENCODING="UTF-8"'), "A_UNICODE2STRING")
    x += dop(f"{L}.DOP.bytesmm", "bytesmm", IDENT, dct_minmax("A_BYTEFIELD", 1, "6", "END-OF-PDU"),
             "A_BYTEFIELD")
    return x


def _bv_ddds(L: str) -> str:
    x = "<DIAG-DATA-DICTIONARY-SPEC>" + admin_data("ddds")
    # DTC DOPs
    x += "<DTC-DOPS>"
    x += (f'<DTC-DOP ID="{L}.DOP.dtcs" OID="oid.dtcdop" IS-VISIBLE="false">' + named("dtcs") +
          admin_data("dtcdop") + sdgs("dtcdop") + dct_std("A_UINT32", 24) +
          '<PHYSICAL-TYPE BASE-DATA-TYPE="A_UINT32" DISPLAY-RADIX="HEX"/>' + IDENT + "<DTCS>"
          f'<DTC ID="{L}.DTC.p0100" OID="oid.dtc.p0100" IS-TEMPORARY="true">' +
          named("P0100") + "<TROUBLE-CODE>256</TROUBLE-CODE>"
          "<DISPLAY-TROUBLE-CODE>P0100</DISPLAY-TROUBLE-CODE><TEXT>air flow circuit</TEXT>"
          f"<LEVEL>2</LEVEL>{sdgs('dtc', False)}</DTC>"
          f'<DTC ID="{L}.DTC.p0200" IS-TEMPORARY="false"><SHORT-NAME>P0200</SHORT-NAME>'
          "<TROUBLE-CODE>512</TROUBLE-CODE><TEXT>injector circuit</TEXT></DTC>"
          "</DTCS></DTC-DOP>")
    x += (f'<DTC-DOP ID="{L}.DOP.dtcs2" IS-VISIBLE="true"><SHORT-NAME>dtcs2</SHORT-NAME>' +
          dct_std("A_UINT32", 24) + '<PHYSICAL-TYPE BASE-DATA-TYPE="A_UINT32"/>' + IDENT +
          f'<DTCS><DTC ID="{L}.DTC.u0001"><SHORT-NAME>U0001</SHORT-NAME>'
          "<TROUBLE-CODE>49153</TROUBLE-CODE><TEXT>CAN bus</TEXT></DTC>"
          f'<DTC-REF ID-REF="{L}.DTC.p0200"/></DTCS>'
          "<LINKED-DTC-DOPS><LINKED-DTC-DOP><NOT-INHERITED-DTC-SNREFS>"
          '<NOT-INHERITED-DTC-SNREF SHORT-NAME="P0200"/></NOT-INHERITED-DTC-SNREFS>'
          f'<DTC-DOP-REF ID-REF="{L}.DOP.dtcs"/></LINKED-DTC-DOP></LINKED-DTC-DOPS></DTC-DOP>')
    x += "</DTC-DOPS>"
    # env data desc (2.2 flavour: refs)
    x += (f'<ENV-DATA-DESCS><ENV-DATA-DESC ID="{L}.EDD.env" OID="oid.edd">' + named("envdesc") +
          admin_data("edd") + sdgs("edd", False) +
          '<PARAM-SNREF SHORT-NAME="dtc"/><ENV-DATA-REFS>'
          f'<ENV-DATA-REF ID-REF="{L}.ED.all"/><ENV-DATA-REF ID-REF="{L}.ED.p0100"/>'
          "</ENV-DATA-REFS></ENV-DATA-DESC></ENV-DATA-DESCS>")
    x += "<DATA-OBJECT-PROPS>" + _bv_dops(L) + "</DATA-OBJECT-PROPS>"
    # structures
    x += "<STRUCTURES>"
    x += (f'<STRUCTURE ID="{L}.ST.pair" OID="oid.st.pair" IS-VISIBLE="false">' + named("pair") +
          admin_data("st.pair") + sdgs("st.pair", False) + "<BYTE-SIZE>3</BYTE-SIZE><PARAMS>" +
          p_value("first", f"{L}.DOP.u8", 0, rich=True) + p_value("second", f"{L}.DOP.u16le", 1) +
          "</PARAMS></STRUCTURE>")
    x += (f'<STRUCTURE ID="{L}.ST.item" IS-VISIBLE="true"><SHORT-NAME>item</SHORT-NAME><PARAMS>' +
          p_value("val", f"{L}.DOP.u8plain", 0) + "</PARAMS></STRUCTURE>")
    x += (f'<STRUCTURE ID="{L}.ST.caseA"><SHORT-NAME>caseA</SHORT-NAME><PARAMS>' +
          p_value("a1", f"{L}.DOP.u16le", 0) + "</PARAMS></STRUCTURE>")
    x += (f'<STRUCTURE ID="{L}.ST.caseB"><SHORT-NAME>caseB</SHORT-NAME><PARAMS>' +
          p_value("b1", f"{L}.DOP.u8plain", 0) + p_value("b2", f"{L}.DOP.u8plain", 1) +
          "</PARAMS></STRUCTURE>")
    x += (f'<STRUCTURE ID="{L}.ST.empty"><SHORT-NAME>empty</SHORT-NAME><PARAMS/></STRUCTURE>')
    x += (f'<STRUCTURE ID="{L}.ST.rowdata"><SHORT-NAME>rowdata</SHORT-NAME><PARAMS>' +
          p_value("rd", f"{L}.DOP.u16le", 0) + "</PARAMS></STRUCTURE>")
    x += "</STRUCTURES>"
    x += (f'<STATIC-FIELDS><STATIC-FIELD ID="{L}.SF.three" OID="oid.sf" IS-VISIBLE="false">' +
          named("three_items") + admin_data("sf") + sdgs("sf", False) +
          f'<BASIC-STRUCTURE-REF ID-REF="{L}.ST.item"/>'
          "<FIXED-NUMBER-OF-ITEMS>3</FIXED-NUMBER-OF-ITEMS><ITEM-BYTE-SIZE>2</ITEM-BYTE-SIZE>"
          "</STATIC-FIELD></STATIC-FIELDS>")
    x += (f'<DYNAMIC-LENGTH-FIELDS><DYNAMIC-LENGTH-FIELD ID="{L}.DLF.items" OID="oid.dlf" '
          'IS-VISIBLE="true">' + named("counted_items") + admin_data("dlf") + sdgs("dlf", False) +
          f'<BASIC-STRUCTURE-REF ID-REF="{L}.ST.item"/><OFFSET>1</OFFSET>'
          "<DETERMINE-NUMBER-OF-ITEMS><BYTE-POSITION>0</BYTE-POSITION><BIT-POSITION>0</BIT-POSITION>"
          f'<DATA-OBJECT-PROP-REF ID-REF="{L}.DOP.u8plain"/></DETERMINE-NUMBER-OF-ITEMS>'
          "</DYNAMIC-LENGTH-FIELD></DYNAMIC-LENGTH-FIELDS>")
    x += (f'<END-OF-PDU-FIELDS><END-OF-PDU-FIELD ID="{L}.EOP.items" OID="oid.eop" '
          'IS-VISIBLE="false">' + named("trailing_items") + admin_data("eop") + sdgs("eop", False) +
          f'<BASIC-STRUCTURE-REF ID-REF="{L}.ST.item"/>'
          "<MAX-NUMBER-OF-ITEMS>5</MAX-NUMBER-OF-ITEMS><MIN-NUMBER-OF-ITEMS>1</MIN-NUMBER-OF-ITEMS>"
          f'</END-OF-PDU-FIELD><END-OF-PDU-FIELD ID="{L}.EOP.dtcenv">'
          "<SHORT-NAME>dtc_env_list</SHORT-NAME>"
          f'<BASIC-STRUCTURE-REF ID-REF="{L}.ST.item"/></END-OF-PDU-FIELD></END-OF-PDU-FIELDS>')
    x += (f'<MUXS><MUX ID="{L}.MUX.sel" OID="oid.mux" IS-VISIBLE="false">' + named("selector") +
          admin_data("mux") + sdgs("mux", False) +
          "<BYTE-POSITION>1</BYTE-POSITION><SWITCH-KEY><BYTE-POSITION>0</BYTE-POSITION>"
          f'<BIT-POSITION>0</BIT-POSITION><DATA-OBJECT-PROP-REF ID-REF="{L}.DOP.u8plain"/>'
          f'</SWITCH-KEY><DEFAULT-CASE>{named("dflt")}<STRUCTURE-REF ID-REF="{L}.ST.empty"/>'
          f'</DEFAULT-CASE><CASES><CASE>{named("case_a")}<STRUCTURE-REF ID-REF="{L}.ST.caseA"/>' +
          lim("LOWER-LIMIT", "1", "CLOSED") + lim("UPPER-LIMIT", "3", "CLOSED") +
          f'</CASE><CASE><SHORT-NAME>case_b</SHORT-NAME><STRUCTURE-REF ID-REF="{L}.ST.caseB"/>' +
          lim("LOWER-LIMIT", "4") + lim("UPPER-LIMIT", "10", "OPEN") +
          "</CASE><CASE><SHORT-NAME>case_none</SHORT-NAME>" + lim("LOWER-LIMIT", "20") +
          lim("UPPER-LIMIT", "20") + "</CASE></CASES></MUX>"
          f'<MUX ID="{L}.MUX.nodefault" IS-VISIBLE="true"><SHORT-NAME>nodefault</SHORT-NAME>'
          "<BYTE-POSITION>1</BYTE-POSITION><SWITCH-KEY><BYTE-POSITION>0</BYTE-POSITION>"
          f'<DATA-OBJECT-PROP-REF ID-REF="{L}.DOP.u8plain"/></SWITCH-KEY><CASES><CASE>'
          f'<SHORT-NAME>only</SHORT-NAME><STRUCTURE-REF ID-REF="{L}.ST.caseB"/>' +
          lim("LOWER-LIMIT", "0") + lim("UPPER-LIMIT", "255") + "</CASE></CASES></MUX></MUXS>")
    x += (f'<ENV-DATAS><ENV-DATA ID="{L}.ED.all" OID="oid.ed.all">' + named("env_all") +
          admin_data("ed") + sdgs("ed", False) + "<BYTE-SIZE>2</BYTE-SIZE><PARAMS>" +
          p_value("mileage", f"{L}.DOP.u16le", 0) + "</PARAMS><ALL-VALUE/></ENV-DATA>"
          f'<ENV-DATA ID="{L}.ED.p0100"><SHORT-NAME>env_p0100</SHORT-NAME><PARAMS>' +
          p_value("airflow", f"{L}.DOP.u8plain", 0) +
          "</PARAMS><DTC-VALUES><DTC-VALUE>256</DTC-VALUE><DTC-VALUE>512</DTC-VALUE></DTC-VALUES>"
          "</ENV-DATA></ENV-DATAS>")
    x += unit_spec(L, "bv")
    # tables
    x += "<TABLES>"
    x += (f'<TABLE ID="{L}.TAB.did" OID="oid.tab.did" SEMANTIC="DATA-ID">' + named("did_table") +
          "<KEY-LABEL>the key</KEY-LABEL><STRUCT-LABEL>the struct</STRUCT-LABEL>" +
          admin_data("tab") + f'<KEY-DOP-REF ID-REF="{L}.DOP.u8plain"/>'
          f'<TABLE-ROW ID="{L}.TAB.did.r1" OID="oid.row.r1" SEMANTIC="ROW-SEM" '
          'IS-EXECUTABLE="false" IS-MANDATORY="true" IS-FINAL="true">' + named("row_one") +
          f'<KEY>1</KEY><STRUCTURE-REF ID-REF="{L}.ST.rowdata"/>' + sdgs("row", False) +
          '<AUDIENCE IS-SUPPLIER="false" IS-DEVELOPMENT="true" IS-MANUFACTURING="false" '
          'IS-AFTERSALES="true" IS-AFTERMARKET="false"><ENABLED-AUDIENCE-REFS>'
          f'<ENABLED-AUDIENCE-REF ID-REF="{L}.AA.fleet"/></ENABLED-AUDIENCE-REFS></AUDIENCE>'
          f'<FUNCT-CLASS-REFS><FUNCT-CLASS-REF ID-REF="{L}.FNC.flash"/></FUNCT-CLASS-REFS>'
          f'<STATE-TRANSITION-REFS><STATE-TRANSITION-REF ID-REF="{L}.STT.unlock"/>'
          "</STATE-TRANSITION-REFS><PRE-CONDITION-STATE-REFS>"
          f'<PRE-CONDITION-STATE-REF ID-REF="{L}.STATE.locked"/></PRE-CONDITION-STATE-REFS>' +
          admin_data("row") + "</TABLE-ROW>"
          f'<TABLE-ROW ID="{L}.TAB.did.r2"><SHORT-NAME>row_two</SHORT-NAME><KEY>2</KEY>'
          f'<DATA-OBJECT-PROP-REF ID-REF="{L}.DOP.u16le"/></TABLE-ROW>'
          f'<TABLE-ROW-REF ID-REF="{L}.TAB.other.r9"/>'
          "<TABLE-DIAG-COMM-CONNECTORS><TABLE-DIAG-COMM-CONNECTOR><SEMANTIC>READ</SEMANTIC>"
          f'<DIAG-COMM-REF ID-REF="{L}.SVC.read_did"/></TABLE-DIAG-COMM-CONNECTOR>'
          "<TABLE-DIAG-COMM-CONNECTOR><SEMANTIC>WRITE</SEMANTIC>"
          '<DIAG-COMM-SNREF SHORT-NAME="session"/></TABLE-DIAG-COMM-CONNECTOR>'
          "</TABLE-DIAG-COMM-CONNECTORS>" + sdgs("tab", False) + "</TABLE>")
    x += (f'<TABLE ID="{L}.TAB.other"><SHORT-NAME>other_table</SHORT-NAME>'
          f'<TABLE-ROW ID="{L}.TAB.other.r9"><SHORT-NAME>row_nine</SHORT-NAME><KEY>9</KEY>'
          f'<STRUCTURE-REF ID-REF="{L}.ST.item"/></TABLE-ROW></TABLE>')
    x += "</TABLES>" + sdgs("ddds")
    return x + "</DIAG-DATA-DICTIONARY-SPEC>"


def _bv_comms(L: str, subset: str) -> str:
    cs = subset
    aud = ('<AUDIENCE IS-SUPPLIER="true" IS-DEVELOPMENT="false" IS-MANUFACTURING="true" '
           'IS-AFTERSALES="false" IS-AFTERMARKET="true"><ENABLED-AUDIENCE-REFS>'
           f'<ENABLED-AUDIENCE-REF ID-REF="{L}.AA.fleet"/></ENABLED-AUDIENCE-REFS>'
           f'<DISABLED-AUDIENCE-REFS><DISABLED-AUDIENCE-REF ID-REF="{L}.AA.hobby"/>'
           "</DISABLED-AUDIENCE-REFS></AUDIENCE>")
    x = "<DIAG-COMMS>"
    x += service(
        f"{L}.SVC.session", "session", f"{L}.RQ.session", [f"{L}.PR.session"], [f"{L}.NR.generic"],
        attr=(' OID="oid.svc.session" SEMANTIC="SESSION" DIAGNOSTIC-CLASS="STARTCOMM" '
              'IS-MANDATORY="true" IS-EXECUTABLE="false" IS-FINAL="true" IS-CYCLIC="true" '
              'IS-MULTIPLE="true" ADDRESSING="FUNCTIONAL-OR-PHYSICAL" '
              'TRANSMISSION-MODE="SEND-OR-RECEIVE"'),
        pre=(admin_data("svc.session") + sdgs("svc.session") +
             f'<FUNCT-CLASS-REFS><FUNCT-CLASS-REF ID-REF="{L}.FNC.session"/>'
             f'<FUNCT-CLASS-REF ID-REF="{L}.FNC.flash"/></FUNCT-CLASS-REFS>' + aud +
             '<PROTOCOL-SNREFS><PROTOCOL-SNREF SHORT-NAME="rich_prot"/></PROTOCOL-SNREFS>'
             f'<RELATED-DIAG-COMM-REFS><RELATED-DIAG-COMM-REF ID-REF="{L}.SVC.read_did">'
             "<RELATION-TYPE>follows</RELATION-TYPE></RELATED-DIAG-COMM-REF>"
             "</RELATED-DIAG-COMM-REFS><PRE-CONDITION-STATE-REFS>"
             f'<PRE-CONDITION-STATE-REF ID-REF="{L}.STATE.locked"/></PRE-CONDITION-STATE-REFS>'
             f'<STATE-TRANSITION-REFS><STATE-TRANSITION-REF ID-REF="{L}.STT.unlock"/>'
             "</STATE-TRANSITION-REFS>" +
             f'<COMPARAM-REFS><COMPARAM-REF ID-REF="{cs}.CP.timeout" DOCREF="{subset}" '
             'DOCTYPE="COMPARAM-SUBSET"><SIMPLE-VALUE>77</SIMPLE-VALUE></COMPARAM-REF>'
             "</COMPARAM-REFS>"),
        post=('<POS-RESPONSE-SUPPRESSABLE><BITMASK>128</BITMASK>'
              '<CODED-CONST-SNREF SHORT-NAME="subfunction"/></POS-RESPONSE-SUPPRESSABLE>'),
        rich=True)
    x += service(f"{L}.SVC.read_did", "read_did", f"{L}.RQ.read_did", [f"{L}.PR.read_did"], [],
                 attr=' ADDRESSING="PHYSICAL" TRANSMISSION-MODE="SEND-AND-RECEIVE" '
                      'DIAGNOSTIC-CLASS="READ-DYN-DEFINED-MESSAGE" IS-CYCLIC="false" '
                      'IS-MULTIPLE="false" IS-MANDATORY="false" IS-EXECUTABLE="true" '
                      'IS-FINAL="false"')
    for n in ("numbers", "strings", "fields", "muxed", "dtcreport", "scaled", "sysinfo",
              "condensed"):
        x += service(f"{L}.SVC.{n}", n, f"{L}.RQ.{n}", [f"{L}.PR.{n}"], [f"{L}.NR.generic"])
    # single ECU job
    x += (f'<SINGLE-ECU-JOB ID="{L}.JOB.flash" OID="oid.job.flash" SEMANTIC="FLASH" '
          'DIAGNOSTIC-CLASS="VARIANTIDENTIFICATION" IS-MANDATORY="false" IS-EXECUTABLE="true" '
          'IS-FINAL="false">' + named("flash_job") + admin_data("job") + sdgs("job", False) +
          f'<FUNCT-CLASS-REFS><FUNCT-CLASS-REF ID-REF="{L}.FNC.flash"/></FUNCT-CLASS-REFS>' + aud +
          '<PROTOCOL-SNREFS><PROTOCOL-SNREF SHORT-NAME="rich_prot"/></PROTOCOL-SNREFS>'
          f'<RELATED-DIAG-COMM-REFS><RELATED-DIAG-COMM-REF ID-REF="{L}.SVC.session">'
          "<RELATION-TYPE>needs</RELATION-TYPE></RELATED-DIAG-COMM-REF></RELATED-DIAG-COMM-REFS>"
          f'<PRE-CONDITION-STATE-REFS><PRE-CONDITION-STATE-REF ID-REF="{L}.STATE.unlocked"/>'
          "</PRE-CONDITION-STATE-REFS><STATE-TRANSITION-REFS>"
          f'<STATE-TRANSITION-REF ID-REF="{L}.STT.lock"/></STATE-TRANSITION-REFS>'
          "<PROG-CODES><PROG-CODE><CODE-FILE>flash.jar</CODE-FILE><ENCRYPTION>none</ENCRYPTION>"
          "<SYNTAX>JAR</SYNTAX><REVISION>2.1</REVISION><ENTRYPOINT>com.example.Flash</ENTRYPOINT>"
          f'<LIBRARY-REFS><LIBRARY-REF ID-REF="{L}.LIB.helper"/></LIBRARY-REFS></PROG-CODE>'
          "<PROG-CODE><CODE-FILE>second.class</CODE-FILE><SYNTAX>CLASS</SYNTAX>"
          "<REVISION>0.1</REVISION></PROG-CODE></PROG-CODES>"
          '<INPUT-PARAMS><INPUT-PARAM OID="oid.inp.addr" SEMANTIC="ADDRESS">' + named("address") +
          "<PHYSICAL-DEFAULT-VALUE>16</PHYSICAL-DEFAULT-VALUE>"
          f'<DOP-BASE-REF ID-REF="{L}.DOP.u16le"/></INPUT-PARAM>'
          f'<INPUT-PARAM><SHORT-NAME>mode</SHORT-NAME><DOP-BASE-REF ID-REF="{L}.DOP.texttable"/>'
          "</INPUT-PARAM></INPUT-PARAMS>"
          f'<OUTPUT-PARAMS><OUTPUT-PARAM ID="{L}.JOB.flash.out" SEMANTIC="RESULT">' +
          named("result") + f'<DOP-BASE-REF ID-REF="{L}.DOP.u8plain"/></OUTPUT-PARAM>'
          "</OUTPUT-PARAMS><NEG-OUTPUT-PARAMS><NEG-OUTPUT-PARAM>" + named("error") +
          f'<DOP-BASE-REF ID-REF="{L}.DOP.u8plain"/></NEG-OUTPUT-PARAM></NEG-OUTPUT-PARAMS>'
          "</SINGLE-ECU-JOB>")
    x += "</DIAG-COMMS>"
    # requests
    x += "<REQUESTS>"
    x += message("REQUEST", f"{L}.RQ.session", "rq_session",
                 p_const("sid", 16, 0, rich=True) +
                 param("CODED-CONST", "subfunction", "<CODED-VALUE>1</CODED-VALUE>" +
                       dct_std("A_UINT32", 7), 1, 0) +
                 param("RESERVED", "suppress_bit", "<BIT-LENGTH>1</BIT-LENGTH>", 1, 7, rich=True),
                 rich=True)
    x += message("REQUEST", f"{L}.RQ.read_did", "rq_read_did",
                 p_const("sid", 34, 0) +
                 param("TABLE-KEY", "did", f'<TABLE-REF ID-REF="{L}.TAB.did"/>', 1,
                       attr=f' ID="{L}.RQ.read_did.did"', rich=True) +
                 param("TABLE-STRUCT", "did_data",
                       f'<TABLE-KEY-REF ID-REF="{L}.RQ.read_did.did"/>', 2, rich=True))
    x += message("REQUEST", f"{L}.RQ.numbers", "rq_numbers",
                 p_const("sid", 48, 0) + p_value("a", f"{L}.DOP.u8", 1, default="5", rich=True) +
                 p_value("b", f"{L}.DOP.u16le", 2) + p_value("c", f"{L}.DOP.i16", 4, default="-3") +
                 p_value("d", f"{L}.DOP.masked2", 6) + p_value("e", f"{L}.DOP.f32", 8) +
                 param("PHYS-CONST", "k", "<PHYS-CONSTANT-VALUE>9</PHYS-CONSTANT-VALUE>"
                       f'<DOP-REF ID-REF="{L}.DOP.u8plain"/>', 12, rich=True) +
                 param("VALUE", "snref_dop", '<DOP-SNREF SHORT-NAME="u8plain"/>', 13) +
                 param("VALUE", "low_nibble", f'<DOP-REF ID-REF="{L}.DOP.nibble"/>', 14, 0) +
                 param("VALUE", "high_nibble", f'<DOP-REF ID-REF="{L}.DOP.nibble"/>', 14, 4))
    x += message("REQUEST", f"{L}.RQ.strings", "rq_strings",
                 p_const("sid", 49, 0) + p_value("z", f"{L}.DOP.strz", 1, default="hi") +
                 param("PHYS-CONST", "tag", "<PHYS-CONSTANT-VALUE>ok</PHYS-CONSTANT-VALUE>"
                       '<DOP-SNREF SHORT-NAME="strz"/>') +
                 p_value("ll", f"{L}.DOP.bytesll") + p_value("tail", f"{L}.DOP.strff"))
    x += message("REQUEST", f"{L}.RQ.fields", "rq_fields",
                 p_const("sid", 50, 0) + p_value("fixed", f"{L}.SF.three", 1) +
                 p_value("counted", f"{L}.DLF.items", 7) + p_value("rest", f"{L}.EOP.items"))
    x += message("REQUEST", f"{L}.RQ.muxed", "rq_muxed",
                 p_const("sid", 51, 0) + p_value("sel", f"{L}.MUX.sel", 1))
    x += message("REQUEST", f"{L}.RQ.dtcreport", "rq_dtcreport", p_const("sid", 25, 0))
    x += message("REQUEST", f"{L}.RQ.scaled", "rq_scaled",
                 p_const("sid", 52, 0) + p_value("lin", f"{L}.DOP.linear", 1) +
                 p_value("sl", f"{L}.DOP.scalelinear", 3) +
                 p_value("tt", f"{L}.DOP.texttable", 4, default="on") +
                 p_value("ti", f"{L}.DOP.tabintp", 5) + p_value("rf", f"{L}.DOP.ratfunc", 6) +
                 p_value("srf", f"{L}.DOP.scaleratfunc", 8) + p_value("bcd", f"{L}.DOP.bcd", 9))
    x += message("REQUEST", f"{L}.RQ.sysinfo", "rq_sysinfo", p_const("sid", 53, 0))
    x += message("REQUEST", f"{L}.RQ.condensed", "rq_condensed",
                 p_const("sid", 55, 0) + p_value("m", f"{L}.DOP.masked", 1))
    x += "</REQUESTS>"
    # positive responses
    x += "<POS-RESPONSES>"
    x += message("POS-RESPONSE", f"{L}.PR.session", "pr_session",
                 p_const("sid", 80, 0) +
                 param("MATCHING-REQUEST-PARAM", "echo",
                       "<REQUEST-BYTE-POS>1</REQUEST-BYTE-POS><BYTE-LENGTH>1</BYTE-LENGTH>", 1,
                       rich=True), rich=True)
    x += message("POS-RESPONSE", f"{L}.PR.read_did", "pr_read_did",
                 p_const("sid", 98, 0) +
                 param("TABLE-KEY", "did", f'<TABLE-ROW-REF ID-REF="{L}.TAB.did.r1"/>', 1,
                       attr=f' ID="{L}.PR.read_did.did"') +
                 param("TABLE-STRUCT", "did_data",
                       '<TABLE-KEY-SNREF SHORT-NAME="did"/>', 2))
    x += message("POS-RESPONSE", f"{L}.PR.numbers", "pr_numbers",
                 p_const("sid", 112, 0) + p_value("a", f"{L}.DOP.u8", 1) +
                 param("SYSTEM", "stamp", f'<DOP-REF ID-REF="{L}.DOP.u16le"/>', 2, 0,
                       attr=' SYSPARAM="TIMESTAMP"', rich=True) +
                 param("SYSTEM", "stamp2", '<DOP-SNREF SHORT-NAME="u8plain"/>', 4,
                       attr=' SYSPARAM="COUNTER"'))
    x += message("POS-RESPONSE", f"{L}.PR.strings", "pr_strings",
                 p_const("sid", 113, 0) + p_value("u", f"{L}.DOP.str16", 1))
    x += message("POS-RESPONSE", f"{L}.PR.fields", "pr_fields",
                 p_const("sid", 114, 0) + p_value("rest", f"{L}.EOP.items", 1))
    x += message("POS-RESPONSE", f"{L}.PR.muxed", "pr_muxed",
                 p_const("sid", 115, 0) + p_value("sel", f"{L}.MUX.nodefault", 1))
    x += message("POS-RESPONSE", f"{L}.PR.dtcreport", "pr_dtcreport",
                 p_const("sid", 89, 0) + p_value("dtc", f"{L}.DOP.dtcs", 1) +
                 p_value("env", f"{L}.EDD.env", 4))
    x += message("POS-RESPONSE", f"{L}.PR.scaled", "pr_scaled",
                 p_const("sid", 116, 0) + p_value("lin", f"{L}.DOP.linear", 1))
    x += message("POS-RESPONSE", f"{L}.PR.sysinfo", "pr_sysinfo",
                 p_const("sid", 117, 0) + param("DYNAMIC", "dyn", "", 1, rich=True) +
                 p_value("raw", f"{L}.DOP.bytesmm", 2))
    x += message("POS-RESPONSE", f"{L}.PR.condensed", "pr_condensed",
                 p_const("sid", 119, 0) + p_value("m", f"{L}.DOP.masked", 1))
    x += "</POS-RESPONSES>"
    x += "<NEG-RESPONSES>" + message(
        "NEG-RESPONSE", f"{L}.NR.generic", "nr_generic",
        p_const("sid", 127, 0) +
        param("MATCHING-REQUEST-PARAM", "rq_sid",
              "<REQUEST-BYTE-POS>0</REQUEST-BYTE-POS><BYTE-LENGTH>1</BYTE-LENGTH>", 1) +
        param("NRC-CONST", "nrc2", "<CODED-VALUES><CODED-VALUE>1</CODED-VALUE></CODED-VALUES>" +
              dct_std("A_UINT32", 4), 3, 4) +
        param("NRC-CONST", "nrc", "<CODED-VALUES><CODED-VALUE>16</CODED-VALUE>"
              "<CODED-VALUE>17</CODED-VALUE><CODED-VALUE>34</CODED-VALUE></CODED-VALUES>" +
              dct_std("A_UINT32", 8), 2, rich=True), rich=True) + "</NEG-RESPONSES>"
    x += "<GLOBAL-NEG-RESPONSES>" + message(
        "GLOBAL-NEG-RESPONSE", f"{L}.GNR.busy", "gnr_busy",
        p_const("sid", 127, 0) + p_value("which", f"{L}.DOP.u8plain", 1) + p_const("code", 33, 2),
        rich=True) + "</GLOBAL-NEG-RESPONSES>"
    return x


def _nibble_dop(L: str) -> str:
    return dop(f"{L}.DOP.nibble", "nibble", IDENT, dct_std("A_UINT32", 4), "A_UINT32")


def core_container(name: str = "rich", subset: str = "rich_cps", spec: str = "rich_cpspec") -> str:
    cref = f' DOCREF="{name}" DOCTYPE="CONTAINER"'
    x = HEAD + f'<DIAG-LAYER-CONTAINER ID="DLC.{name}" OID="oid.dlc.{name}">' + named(name)
    x += admin_data("dlc") + company_datas("acme") + sdgs("dlc")
    # ---- protocol
    P = "L.prot"
    x += (f'<PROTOCOLS><PROTOCOL ID="{P}" OID="oid.{P}">' + named("rich_prot") + admin_data("prot") +
          f'<FUNCT-CLASSS><FUNCT-CLASS ID="{P}.FNC.comm"><SHORT-NAME>comm</SHORT-NAME>'
          "</FUNCT-CLASS></FUNCT-CLASSS><DIAG-DATA-DICTIONARY-SPEC><DATA-OBJECT-PROPS>" +
          dop(f"{P}.DOP.pu8", "pu8", IDENT, dct_std("A_UINT32", 8), "A_UINT32") +
          "</DATA-OBJECT-PROPS></DIAG-DATA-DICTIONARY-SPEC><DIAG-COMMS>" +
          service(f"{P}.SVC.ping", "ping", f"{P}.RQ.ping", [f"{P}.PR.ping"], []) +
          service(f"{P}.SVC.pong", "pong", f"{P}.RQ.ping", [f"{P}.PR.ping"], []) +
          "</DIAG-COMMS><REQUESTS>" +
          message("REQUEST", f"{P}.RQ.ping", "rq_ping",
                  p_const("sid", 62, 0) + p_value("x", f"{P}.DOP.pu8", 1)) +
          "</REQUESTS><POS-RESPONSES>" +
          message("POS-RESPONSE", f"{P}.PR.ping", "pr_ping", p_const("sid", 126, 0)) +
          "</POS-RESPONSES>" + sdgs("prot", False) + comparam_refs(subset, False) +
          f'<COMPARAM-SPEC-REF ID-REF="CSPEC.{spec}" DOCREF="{spec}" DOCTYPE="COMPARAM-SPEC"/>'
          '<PROT-STACK-SNREF SHORT-NAME="ps_can"/></PROTOCOL></PROTOCOLS>')
    # ---- functional group
    F = "L.fg"
    x += (f'<FUNCTIONAL-GROUPS><FUNCTIONAL-GROUP ID="{F}" OID="oid.{F}">' + named("rich_fg") +
          admin_data("fg") + sdgs("fg", False) +
          f'<ADDITIONAL-AUDIENCES><ADDITIONAL-AUDIENCE ID="{F}.AA.all"><SHORT-NAME>everyone'
          "</SHORT-NAME></ADDITIONAL-AUDIENCE></ADDITIONAL-AUDIENCES>"
          "<DIAG-COMMS>" + service(f"{F}.SVC.all_reset", "all_reset", f"{F}.RQ.reset", [], [],
                                   attr=' ADDRESSING="FUNCTIONAL"') +
          "</DIAG-COMMS><REQUESTS>" +
          message("REQUEST", f"{F}.RQ.reset", "rq_reset", p_const("sid", 17, 0) +
                  p_const("kind", 1, 1)) + "</REQUESTS>" + comparam_refs(subset) +
          f'<PARENT-REFS><PARENT-REF ID-REF="{P}"{cref} xsi:type="PROTOCOL-REF">'
          '<NOT-INHERITED-DIAG-COMMS><NOT-INHERITED-DIAG-COMM><DIAG-COMM-SNREF SHORT-NAME="pong"/>'
          "</NOT-INHERITED-DIAG-COMM></NOT-INHERITED-DIAG-COMMS></PARENT-REF></PARENT-REFS>"
          "</FUNCTIONAL-GROUP></FUNCTIONAL-GROUPS>")
    # ---- ECU shared data
    S = "L.esd"
    x += (f'<ECU-SHARED-DATAS><ECU-SHARED-DATA ID="{S}" OID="oid.{S}">' + named("rich_esd") +
          admin_data("esd") +
          f'<FUNCT-CLASSS><FUNCT-CLASS ID="{S}.FNC.shared"><SHORT-NAME>shared_class</SHORT-NAME>'
          "</FUNCT-CLASS></FUNCT-CLASSS>"
          "<DIAG-DATA-DICTIONARY-SPEC><DATA-OBJECT-PROPS>" +
          dop(f"{S}.DOP.shared8", "shared8", IDENT, dct_std("A_UINT32", 8), "A_UINT32") +
          dop(f"{S}.DOP.shared16", "shared16", IDENT, dct_std("A_UINT32", 16), "A_UINT32") +
          f'</DATA-OBJECT-PROPS><TABLES><TABLE ID="{S}.TAB.shared"><SHORT-NAME>shared_table'
          f'</SHORT-NAME><TABLE-ROW ID="{S}.TAB.shared.r"><SHORT-NAME>srow</SHORT-NAME><KEY>1</KEY>'
          f'<DATA-OBJECT-PROP-REF ID-REF="{S}.DOP.shared8"/></TABLE-ROW></TABLE></TABLES>'
          "</DIAG-DATA-DICTIONARY-SPEC><GLOBAL-NEG-RESPONSES>" +
          message("GLOBAL-NEG-RESPONSE", f"{S}.GNR.shared", "gnr_shared", p_const("sid", 127, 0) +
                  p_const("code", 120, 2)) + "</GLOBAL-NEG-RESPONSES>" + sdgs("esd", False) +
          "</ECU-SHARED-DATA></ECU-SHARED-DATAS>")
    # ---- base variant
    B = "L.bv"
    x += f'<BASE-VARIANTS><BASE-VARIANT ID="{B}" OID="oid.{B}">' + named("rich_bv")
    x += admin_data("bv")
    x += (f'<FUNCT-CLASSS><FUNCT-CLASS ID="{B}.FNC.session" OID="oid.fnc.session">' +
          named("session_class") + admin_data("fnc") +
          f'</FUNCT-CLASS><FUNCT-CLASS ID="{B}.FNC.flash"><SHORT-NAME>flash_class</SHORT-NAME>'
          "</FUNCT-CLASS></FUNCT-CLASSS>")
    x += _bv_ddds(B).replace("</DATA-OBJECT-PROPS>", _nibble_dop(B) + "</DATA-OBJECT-PROPS>", 1)
    x += _bv_comms(B, subset)
    x += (f'<STATE-CHARTS><STATE-CHART ID="{B}.SC.security" OID="oid.sc">' + named("security") +
          "<SEMANTIC>SECURITY</SEMANTIC><STATE-TRANSITIONS>"
          f'<STATE-TRANSITION ID="{B}.STT.unlock" OID="oid.stt.unlock">' + named("unlock") +
          '<SOURCE-SNREF SHORT-NAME="locked"/><TARGET-SNREF SHORT-NAME="unlocked"/>'
          f'<EXTERNAL-ACCESS-METHOD ID="{B}.EAM.key" OID="oid.eam">' + named("key_switch") +
          "<METHOD>turn the key</METHOD></EXTERNAL-ACCESS-METHOD></STATE-TRANSITION>"
          f'<STATE-TRANSITION ID="{B}.STT.lock"><SHORT-NAME>lock</SHORT-NAME>'
          '<SOURCE-SNREF SHORT-NAME="unlocked"/><TARGET-SNREF SHORT-NAME="locked"/>'
          "</STATE-TRANSITION></STATE-TRANSITIONS>"
          '<START-STATE-SNREF SHORT-NAME="locked"/><STATES>'
          f'<STATE ID="{B}.STATE.locked" OID="oid.state.locked">' + named("locked") + "</STATE>"
          f'<STATE ID="{B}.STATE.unlocked"><SHORT-NAME>unlocked</SHORT-NAME></STATE></STATES>'
          "</STATE-CHART></STATE-CHARTS>")
    x += (f'<ADDITIONAL-AUDIENCES><ADDITIONAL-AUDIENCE ID="{B}.AA.fleet" OID="oid.aa.fleet">' +
          named("fleet") + f'</ADDITIONAL-AUDIENCE><ADDITIONAL-AUDIENCE ID="{B}.AA.hobby">'
          "<SHORT-NAME>hobby</SHORT-NAME></ADDITIONAL-AUDIENCE></ADDITIONAL-AUDIENCES>")
    x += (f'<LIBRARYS><LIBRARY ID="{B}.LIB.helper" OID="oid.lib">' + named("helper") +
          "<CODE-FILE>helper.jar</CODE-FILE><ENCRYPTION>plain</ENCRYPTION><SYNTAX>JAR</SYNTAX>"
          "<REVISION>3.0</REVISION><ENTRYPOINT>com.example.Helper</ENTRYPOINT></LIBRARY>"
          f'<LIBRARY ID="{B}.LIB.other"><SHORT-NAME>other</SHORT-NAME><CODE-FILE>o.dll</CODE-FILE>'
          "<SYNTAX>DLL</SYNTAX><REVISION>1</REVISION></LIBRARY></LIBRARYS>")
    x += sdgs_capref("bv", "dlc") + comparam_refs(subset)
    x += ("<BASE-VARIANT-PATTERN><MATCHING-BASE-VARIANT-PARAMETERS>"
          "<MATCHING-BASE-VARIANT-PARAMETER><EXPECTED-VALUE>7</EXPECTED-VALUE>"
          "<USE-PHYSICAL-ADDRESSING>false</USE-PHYSICAL-ADDRESSING>"
          '<DIAG-COMM-SNREF SHORT-NAME="numbers"/><OUT-PARAM-IF-SNREF SHORT-NAME="a"/>'
          "</MATCHING-BASE-VARIANT-PARAMETER><MATCHING-BASE-VARIANT-PARAMETER>"
          "<EXPECTED-VALUE>8</EXPECTED-VALUE><USE-PHYSICAL-ADDRESSING>true</USE-PHYSICAL-ADDRESSING>"
          '<DIAG-COMM-SNREF SHORT-NAME="fields"/>'
          '<OUT-PARAM-IF-SNPATHREF SHORT-NAME-PATH="rest.val"/></MATCHING-BASE-VARIANT-PARAMETER>'
          "</MATCHING-BASE-VARIANT-PARAMETERS></BASE-VARIANT-PATTERN>")
    x += (f'<PARENT-REFS><PARENT-REF ID-REF="{P}"{cref} xsi:type="PROTOCOL-REF"/>'
          f'<PARENT-REF ID-REF="{F}"{cref} xsi:type="FUNCTIONAL-GROUP-REF"/>'
          f'<PARENT-REF ID-REF="{S}"{cref} xsi:type="ECU-SHARED-DATA-REF">'
          '<NOT-INHERITED-DOPS><NOT-INHERITED-DOP><DOP-BASE-SNREF SHORT-NAME="shared16"/>'
          "</NOT-INHERITED-DOP></NOT-INHERITED-DOPS><NOT-INHERITED-TABLES><NOT-INHERITED-TABLE>"
          '<TABLE-SNREF SHORT-NAME="shared_table"/></NOT-INHERITED-TABLE></NOT-INHERITED-TABLES>'
          "<NOT-INHERITED-GLOBAL-NEG-RESPONSES><NOT-INHERITED-GLOBAL-NEG-RESPONSE>"
          '<GLOBAL-NEG-RESPONSE-SNREF SHORT-NAME="gnr_shared"/></NOT-INHERITED-GLOBAL-NEG-RESPONSE>'
          "</NOT-INHERITED-GLOBAL-NEG-RESPONSES></PARENT-REF></PARENT-REFS>")
    x += "</BASE-VARIANT></BASE-VARIANTS>"
    # ---- ECU variant
    E = "L.ev"
    x += (f'<ECU-VARIANTS><ECU-VARIANT ID="{E}" OID="oid.{E}">' + named("rich_ev") +
          admin_data("ev") + sdgs("ev", False) +
          f'<LIBRARYS><LIBRARY ID="{E}.LIB.evlib"><SHORT-NAME>evlib</SHORT-NAME>'
          "<CODE-FILE>helper.jar</CODE-FILE><SYNTAX>JAR</SYNTAX><REVISION>1</REVISION></LIBRARY>"
          "</LIBRARYS>" +
          f'<IMPORT-REFS><IMPORT-REF ID-REF="{S}"{cref}/></IMPORT-REFS>'
          "<DIAG-DATA-DICTIONARY-SPEC><DATA-OBJECT-PROPS>" +
          dop(f"{E}.DOP.ev8", "ev8", IDENT, dct_std("A_UINT32", 8), "A_UINT32") +
          "</DATA-OBJECT-PROPS></DIAG-DATA-DICTIONARY-SPEC><DIAG-COMMS>"
          f'<DIAG-COMM-REF ID-REF="{B}.SVC.numbers"/>' +
          service(f"{E}.SVC.extra", "extra", f"{E}.RQ.extra", [f"{E}.PR.extra"], []) +
          "</DIAG-COMMS><REQUESTS>" +
          message("REQUEST", f"{E}.RQ.extra", "rq_extra",
                  p_const("sid", 54, 0) + p_value("v", f"{E}.DOP.ev8", 1)) +
          "</REQUESTS><POS-RESPONSES>" +
          message("POS-RESPONSE", f"{E}.PR.extra", "pr_extra",
                  p_const("sid", 118, 0) + p_value("v", f"{E}.DOP.ev8", 1)) + "</POS-RESPONSES>" +
          comparam_refs(subset) +
          "<ECU-VARIANT-PATTERNS><ECU-VARIANT-PATTERN><MATCHING-PARAMETERS><MATCHING-PARAMETER>"
          '<EXPECTED-VALUE>3</EXPECTED-VALUE><DIAG-COMM-SNREF SHORT-NAME="extra"/>'
          '<OUT-PARAM-IF-SNREF SHORT-NAME="v"/></MATCHING-PARAMETER><MATCHING-PARAMETER>'
          '<EXPECTED-VALUE>text value</EXPECTED-VALUE><DIAG-COMM-SNREF SHORT-NAME="strings"/>'
          '<OUT-PARAM-IF-SNPATHREF SHORT-NAME-PATH="u"/></MATCHING-PARAMETER></MATCHING-PARAMETERS>'
          "</ECU-VARIANT-PATTERN><ECU-VARIANT-PATTERN><MATCHING-PARAMETERS><MATCHING-PARAMETER>"
          '<EXPECTED-VALUE>4</EXPECTED-VALUE><DIAG-COMM-SNREF SHORT-NAME="extra"/>'
          '<OUT-PARAM-IF-SNREF SHORT-NAME="v"/></MATCHING-PARAMETER></MATCHING-PARAMETERS>'
          "</ECU-VARIANT-PATTERN></ECU-VARIANT-PATTERNS>"
          f'<PARENT-REFS><PARENT-REF ID-REF="{B}"{cref} xsi:type="BASE-VARIANT-REF">'
          "<NOT-INHERITED-DIAG-COMMS><NOT-INHERITED-DIAG-COMM>"
          '<DIAG-COMM-SNREF SHORT-NAME="muxed"/></NOT-INHERITED-DIAG-COMM>'
          '<NOT-INHERITED-DIAG-COMM><DIAG-COMM-SNREF SHORT-NAME="flash_job"/>'
          "</NOT-INHERITED-DIAG-COMM></NOT-INHERITED-DIAG-COMMS>"
          '<NOT-INHERITED-VARIABLES><NOT-INHERITED-VARIABLE>'
          '<DIAG-VARIABLE-SNREF SHORT-NAME="no_such_var"/></NOT-INHERITED-VARIABLE>'
          "</NOT-INHERITED-VARIABLES>"
          '<NOT-INHERITED-DOPS><NOT-INHERITED-DOP><DOP-BASE-SNREF SHORT-NAME="f64"/>'
          "</NOT-INHERITED-DOP></NOT-INHERITED-DOPS><NOT-INHERITED-TABLES><NOT-INHERITED-TABLE>"
          '<TABLE-SNREF SHORT-NAME="other_table"/></NOT-INHERITED-TABLE></NOT-INHERITED-TABLES>'
          "<NOT-INHERITED-GLOBAL-NEG-RESPONSES><NOT-INHERITED-GLOBAL-NEG-RESPONSE>"
          '<GLOBAL-NEG-RESPONSE-SNREF SHORT-NAME="gnr_busy"/></NOT-INHERITED-GLOBAL-NEG-RESPONSE>'
          "</NOT-INHERITED-GLOBAL-NEG-RESPONSES></PARENT-REF></PARENT-REFS>"
          "</ECU-VARIANT></ECU-VARIANTS>")
    return x + "</DIAG-LAYER-CONTAINER>" + TAIL


def core_docs() -> List[str]:
    return [comparam_subset(), comparam_spec(), core_container()]


CORE_AUX: Dict[str, bytes] = {
    "conv.jar": b"PK-conv", "vnoc.jar": b"PK-vnoc", "flash.jar": b"PK-flash",
    "second.class": b"\xca\xfe\xba\xbe", "helper.jar": b"PK-helper", "o.dll": b"MZ",
}


def core_files() -> Tuple[List[Tuple[str, str]], Dict[str, bytes]]:
    """(file name, xml) of the core database + its auxiliary files."""
    return ([("rich_cps.odx-cs", comparam_subset()), ("rich_cpspec.odx-c", comparam_spec()),
             ("rich.odx-d", core_container())], dict(CORE_AUX))


# ---------------------------------------------------------------------------
# feature databases: one risky construct each, on top of a minimal base variant


def mini_container(name: str, sections: Dict[str, str] = {}, comms: str = "", requests: str = "",
                   pos: str = "", layer_head: str = "", layer_tail: str = "",
                   other_layers: Dict[str, str] = {}, container_head: str = "",
                   u8_ref_attr: str = "") -> str:
    """One container `name` with base variant `<name>_bv` (ID prefix L).

    sections: extra content per DIAG-DATA-DICTIONARY-SPEC section tag (merged with the base
    content); other_layers: {"ECU-VARIANTS": xml, ...} appended after the base variants."""
    L = "L"
    sec = dict(sections)
    sec["DATA-OBJECT-PROPS"] = dop(f"{L}.DOP.u8", "u8", IDENT, dct_std("A_UINT32", 8),
                                   "A_UINT32") + sec.get("DATA-OBJECT-PROPS", "")
    sec["STRUCTURES"] = (f'<STRUCTURE ID="{L}.ST.item"><SHORT-NAME>item</SHORT-NAME><PARAMS>' +
                         p_value("val", f"{L}.DOP.u8", 0) + "</PARAMS></STRUCTURE>" +
                         sec.get("STRUCTURES", ""))
    order = ["DTC-DOPS", "ENV-DATA-DESCS", "DATA-OBJECT-PROPS", "STRUCTURES", "STATIC-FIELDS",
             "DYNAMIC-LENGTH-FIELDS", "DYNAMIC-ENDMARKER-FIELDS", "END-OF-PDU-FIELDS", "MUXS",
             "ENV-DATAS", "TABLES"]
    x = HEAD + f'<DIAG-LAYER-CONTAINER ID="DLC.{name}"><SHORT-NAME>{name}</SHORT-NAME>'
    x += container_head
    if "PROTOCOLS" in other_layers:
        x += "<PROTOCOLS>" + other_layers["PROTOCOLS"] + "</PROTOCOLS>"
    if "ECU-SHARED-DATAS" in other_layers:
        x += "<ECU-SHARED-DATAS>" + other_layers["ECU-SHARED-DATAS"] + "</ECU-SHARED-DATAS>"
    x += f'<BASE-VARIANTS><BASE-VARIANT ID="{L}"><SHORT-NAME>{name}_bv</SHORT-NAME>' + layer_head
    x += "<DIAG-DATA-DICTIONARY-SPEC>"
    for s in order:
        if s in sec:
            x += f"<{s}>{sec[s]}</{s}>"
    x += "</DIAG-DATA-DICTIONARY-SPEC><DIAG-COMMS>"
    x += service(f"{L}.SVC.svc", "svc", f"{L}.RQ.svc", [f"{L}.PR.svc"], []) + comms
    x += "</DIAG-COMMS><REQUESTS>"
    x += message("REQUEST", f"{L}.RQ.svc", "rq_svc", p_const("sid", 16, 0) +
                 f'<PARAM xsi:type="VALUE"><SHORT-NAME>x</SHORT-NAME><BYTE-POSITION>1'
                 f'</BYTE-POSITION><DOP-REF ID-REF="{L}.DOP.u8"{u8_ref_attr}/></PARAM>') + requests
    x += "</REQUESTS><POS-RESPONSES>"
    x += message("POS-RESPONSE", f"{L}.PR.svc", "pr_svc", p_const("sid", 80, 0)) + pos
    x += "</POS-RESPONSES>" + layer_tail + "</BASE-VARIANT></BASE-VARIANTS>"
    if "ECU-VARIANTS" in other_layers:
        x += "<ECU-VARIANTS>" + other_layers["ECU-VARIANTS"] + "</ECU-VARIANTS>"
    return x + "</DIAG-LAYER-CONTAINER>" + TAIL


Feature = Tuple[str, str, List[Tuple[str, str]], Dict[str, bytes]]


def _svc_with_req(L: str, name: str, sid: int, params: str, pos_params: str = "") -> Tuple[str, str, str]:
    return (service(f"{L}.SVC.{name}", name, f"{L}.RQ.{name}", [f"{L}.PR.{name}"], []),
            message("REQUEST", f"{L}.RQ.{name}", "rq_" + name, p_const("sid", sid, 0) + params),
            message("POS-RESPONSE", f"{L}.PR.{name}", "pr_" + name,
                    p_const("sid", sid + 64, 0) + pos_params))


def feature_files() -> List[Feature]:
    """[(feature name, element class the feature is about, files, aux)]"""
    L = "L"
    F: List[Feature] = []

    def add(fname: str, cls: str, xml: str, more: List[Tuple[str, str]] = [],
            aux: Dict[str, bytes] = {}) -> None:
        F.append((fname, cls, [(fname.replace("/", "_") + ".odx-d", xml)] + list(more), dict(aux)))

    # -- parameters whose identity / target the writer may not emit
    c, r, p = _svc_with_req(L, "lk", 33, param(
        "LENGTH-KEY", "len", f'<DOP-REF ID-REF="{L}.DOP.u8"/>', 1, attr=f' ID="{L}.RQ.lk.len"'))
    add("length-key-param", "LengthKeyParameter", mini_container("f_lk", comms=c, requests=r, pos=p))

    plen = dop(f"{L}.DOP.plen", "plen", IDENT,
               '<DIAG-CODED-TYPE BASE-DATA-TYPE="A_BYTEFIELD" xsi:type="PARAM-LENGTH-INFO-TYPE">'
               f'<LENGTH-KEY-REF ID-REF="{L}.RQ.pl.len"/></DIAG-CODED-TYPE>', "A_BYTEFIELD")
    c, r, p = _svc_with_req(L, "pl", 34, param(
        "LENGTH-KEY", "len", f'<DOP-REF ID-REF="{L}.DOP.u8"/>', 1, attr=f' ID="{L}.RQ.pl.len"') +
        p_value("data", f"{L}.DOP.plen", 2))
    add("param-length-info-type", "ParamLengthInfoType",
        mini_container("f_plen", {"DATA-OBJECT-PROPS": plen}, comms=c, requests=r, pos=p))

    tab = (f'<TABLE ID="{L}.TAB.t"><SHORT-NAME>t</SHORT-NAME><KEY-DOP-REF ID-REF="{L}.DOP.u8"/>'
           f'<TABLE-ROW ID="{L}.TAB.t.r1"><SHORT-NAME>r1</SHORT-NAME><KEY>1</KEY>'
           f'<STRUCTURE-REF ID-REF="{L}.ST.item"/></TABLE-ROW>'
           f'<TABLE-ROW ID="{L}.TAB.t.r2"><SHORT-NAME>r2</SHORT-NAME><KEY>2</KEY>'
           f'<DATA-OBJECT-PROP-REF ID-REF="{L}.DOP.u8"/></TABLE-ROW></TABLE>')
    c, r, p = _svc_with_req(L, "te", 35, "", param(
        "TABLE-ENTRY", "entry", f'<TARGET>KEY</TARGET><TABLE-ROW-REF ID-REF="{L}.TAB.t.r2"/>', 1))
    add("table-entry-param", "TableEntryParameter",
        mini_container("f_te", {"TABLES": tab}, comms=c, requests=r, pos=p))

    c, r, p = _svc_with_req(L, "tk", 36, param(
        "TABLE-KEY", "key", '<TABLE-SNREF SHORT-NAME="t"/>', 1, attr=f' ID="{L}.RQ.tk.key"') +
        param("TABLE-STRUCT", "data", '<TABLE-KEY-SNREF SHORT-NAME="key"/>', 2),
        param("TABLE-KEY", "key2", '<TABLE-SNREF SHORT-NAME="t"/>'
              '<TABLE-ROW-SNREF SHORT-NAME="r1"/>', 1, attr=f' ID="{L}.PR.tk.key2"'))
    add("table-key-snrefs", "TableKeyParameter",
        mini_container("f_tk", {"TABLES": tab}, comms=c, requests=r, pos=p))

    tab_sn = (f'<TABLE ID="{L}.TAB.t"><SHORT-NAME>t</SHORT-NAME>'
              f'<TABLE-ROW ID="{L}.TAB.t.r1"><SHORT-NAME>r1</SHORT-NAME><KEY>1</KEY>'
              '<STRUCTURE-SNREF SHORT-NAME="item"/></TABLE-ROW>'
              f'<TABLE-ROW ID="{L}.TAB.t.r2"><SHORT-NAME>r2</SHORT-NAME><KEY>2</KEY>'
              '<DATA-OBJECT-PROP-SNREF SHORT-NAME="u8"/></TABLE-ROW></TABLE>')
    add("table-row-snrefs", "TableRow", mini_container("f_trsn", {"TABLES": tab_sn}))

    # -- fields
    add("dynamic-endmarker-field", "DynamicEndmarkerField", mini_container("f_demf", {
        "DYNAMIC-ENDMARKER-FIELDS":
            f'<DYNAMIC-ENDMARKER-FIELD ID="{L}.DEMF.f" IS-VISIBLE="true"><SHORT-NAME>demf'
            f'</SHORT-NAME><BASIC-STRUCTURE-REF ID-REF="{L}.ST.item"/>'
            f'<DYN-END-DOP-REF ID-REF="{L}.DOP.u8"><TERMINATION-VALUE>255</TERMINATION-VALUE>'
            "</DYN-END-DOP-REF></DYNAMIC-ENDMARKER-FIELD>"}))
    add("static-field-structure-snref", "StaticField", mini_container("f_sfsn", {
        "STATIC-FIELDS":
            f'<STATIC-FIELD ID="{L}.SF.f"><SHORT-NAME>sf</SHORT-NAME>'
            '<BASIC-STRUCTURE-SNREF SHORT-NAME="item"/>'
            "<FIXED-NUMBER-OF-ITEMS>2</FIXED-NUMBER-OF-ITEMS><ITEM-BYTE-SIZE>1</ITEM-BYTE-SIZE>"
            "</STATIC-FIELD>"}))
    envd = (f'<ENV-DATA ID="{L}.ED.all"><SHORT-NAME>env_all</SHORT-NAME><PARAMS>' +
            p_value("m", f"{L}.DOP.u8", 0) + "</PARAMS><ALL-VALUE/></ENV-DATA>")
    edd = (f'<ENV-DATA-DESC ID="{L}.EDD.e"><SHORT-NAME>edd</SHORT-NAME>'
           '<PARAM-SNREF SHORT-NAME="x"/><ENV-DATA-REFS>'
           f'<ENV-DATA-REF ID-REF="{L}.ED.all"/></ENV-DATA-REFS></ENV-DATA-DESC>')
    add("end-of-pdu-field-env-data-desc-ref", "EndOfPduField", mini_container("f_eopedd", {
        "ENV-DATAS": envd, "ENV-DATA-DESCS": edd,
        "END-OF-PDU-FIELDS":
            f'<END-OF-PDU-FIELD ID="{L}.EOP.f"><SHORT-NAME>eop</SHORT-NAME>'
            f'<ENV-DATA-DESC-REF ID-REF="{L}.EDD.e"/></END-OF-PDU-FIELD>'}))
    add("end-of-pdu-field-env-data-desc-snref", "EndOfPduField", mini_container("f_eopeddsn", {
        "ENV-DATAS": envd, "ENV-DATA-DESCS": edd,
        "END-OF-PDU-FIELDS":
            f'<END-OF-PDU-FIELD ID="{L}.EOP.f"><SHORT-NAME>eop</SHORT-NAME>'
            '<ENV-DATA-DESC-SNREF SHORT-NAME="edd"/></END-OF-PDU-FIELD>'}))
    # -- env data desc variants
    add("env-data-desc-param-snpathref", "EnvironmentDataDescription", mini_container("f_eddp", {
        "ENV-DATAS": envd,
        "ENV-DATA-DESCS": edd.replace('<PARAM-SNREF SHORT-NAME="x"/>',
                                      '<PARAM-SNPATHREF SHORT-NAME-PATH="rq_svc.x"/>')}))
    add("env-data-desc-inline-env-datas", "EnvironmentDataDescription", mini_container("f_eddi", {
        "ENV-DATA-DESCS":
            f'<ENV-DATA-DESC ID="{L}.EDD.e"><SHORT-NAME>edd</SHORT-NAME>'
            f'<PARAM-SNREF SHORT-NAME="x"/><ENV-DATAS>{envd}</ENV-DATAS></ENV-DATA-DESC>'}))
    add("env-data-no-all-value", "EnvironmentData", mini_container("f_ednoall", {
        "ENV-DATAS": envd.replace("<ALL-VALUE/>", "")}))
    # -- mux with short-name references
    mux = (f'<MUX ID="{L}.MUX.m"><SHORT-NAME>m</SHORT-NAME><BYTE-POSITION>1</BYTE-POSITION>'
           f'<SWITCH-KEY><BYTE-POSITION>0</BYTE-POSITION><DATA-OBJECT-PROP-REF ID-REF="{L}.DOP.u8"/>'
           "</SWITCH-KEY>%s<CASES><CASE><SHORT-NAME>c1</SHORT-NAME>%s" + lim("LOWER-LIMIT", "1") +
           lim("UPPER-LIMIT", "2") + "</CASE></CASES></MUX>")
    add("mux-case-structure-snref", "MultiplexerCase", mini_container("f_muxc", {
        "MUXS": mux % ("", '<STRUCTURE-SNREF SHORT-NAME="item"/>')}))
    add("mux-default-case-structure-snref", "MultiplexerDefaultCase", mini_container("f_muxd", {
        "MUXS": mux % ('<DEFAULT-CASE><SHORT-NAME>d</SHORT-NAME>'
                       '<STRUCTURE-SNREF SHORT-NAME="item"/></DEFAULT-CASE>',
                       f'<STRUCTURE-REF ID-REF="{L}.ST.item"/>')}))
    # -- layer level content
    vg = (f'<VARIABLE-GROUPS><VARIABLE-GROUP ID="{L}.VG.g" OID="oid.vg">' + named("grp") +
          "</VARIABLE-GROUP></VARIABLE-GROUPS>")
    dv = (f'<DIAG-VARIABLES><DIAG-VARIABLE ID="{L}.DV.v" OID="oid.dv" IS-READ-BEFORE-WRITE="true">' +
          named("var") + admin_data("dv", "CD.loc", "TM.loc.doe") +
          '<SW-VARIABLES><SW-VARIABLE OID="oid.swv">' +
          named("swv") + "<ORIGIN>somewhere</ORIGIN></SW-VARIABLE></SW-VARIABLES>"
          '<COMM-RELATIONS><COMM-RELATION VALUE-TYPE="CURRENT">' + desc("relation") +
          f'<RELATION-TYPE>READ</RELATION-TYPE><DIAG-COMM-REF ID-REF="{L}.SVC.svc"/>'
          '<IN-PARAM-IF-SNREF SHORT-NAME="x"/></COMM-RELATION>'
          "<COMM-RELATION><RELATION-TYPE>WRITE</RELATION-TYPE>"
          '<DIAG-COMM-SNREF SHORT-NAME="svc"/><OUT-PARAM-IF-SNREF SHORT-NAME="sid"/>'
          "</COMM-RELATION></COMM-RELATIONS>" + sdgs("dv", False) + "</DIAG-VARIABLE>"
          "</DIAG-VARIABLES>")
    # (VARIABLE-GROUPS cannot be loaded at all: VariableGroup.from_et raises TypeError, so the
    # parser does not "read" them and they are out of C11's scope)
    del vg
    add("diag-variable", "DiagVariable",
        mini_container("f_dv", layer_tail=dv, container_head=company_datas("loc")))
    add("diag-variable-plain", "DiagVariable", mini_container(
        "f_dvp", layer_tail=f'<DIAG-VARIABLES><DIAG-VARIABLE ID="{L}.DV.v"><SHORT-NAME>var'
        "</SHORT-NAME></DIAG-VARIABLE></DIAG-VARIABLES>"))
    dds = ("<DYN-DEFINED-SPEC><DYN-ID-DEF-MODE-INFOS><DYN-ID-DEF-MODE-INFO>"
           "<DEF-MODE>COMPOSITE</DEF-MODE>"
           '<CLEAR-DYN-DEF-MESSAGE-SNREF SHORT-NAME="clr"/>'
           '<READ-DYN-DEF-MESSAGE-SNREF SHORT-NAME="rd"/>'
           '<DYN-DEF-MESSAGE-SNREF SHORT-NAME="dfn"/>'
           "<SUPPORTED-DYN-IDS><SUPPORTED-DYN-ID>f200</SUPPORTED-DYN-ID></SUPPORTED-DYN-IDS>"
           '<SELECTION-TABLE-REFS><SELECTION-TABLE-SNREF SHORT-NAME="t"/>'
           f'<SELECTION-TABLE-REF ID-REF="{L}.TAB.t"/></SELECTION-TABLE-REFS>'
           "</DYN-ID-DEF-MODE-INFO></DYN-ID-DEF-MODE-INFOS></DYN-DEFINED-SPEC>")
    ddsvc = "".join(
        service(f"{L}.SVC.{n}", n, f"{L}.RQ.svc", [], [], attr=f' DIAGNOSTIC-CLASS="{dc}"')
        for n, dc in (("clr", "CLEAR-DYN-DEF-MESSAGE"), ("rd", "READ-DYN-DEFINED-MESSAGE"),
                      ("dfn", "DYN-DEF-MESSAGE")))
    add("dyn-defined-spec-base-variant", "DynDefinedSpec",
        mini_container("f_ddsbv", {"TABLES": tab}, comms=ddsvc, layer_tail=dds))
    ev = ('<ECU-VARIANT ID="LE"><SHORT-NAME>f_ddsev_ev</SHORT-NAME>' +
          dds.replace(f'<SELECTION-TABLE-REF ID-REF="{L}.TAB.t"/>', "") +
          '<PARENT-REFS><PARENT-REF ID-REF="L" DOCREF="f_ddsev" DOCTYPE="CONTAINER" '
          'xsi:type="BASE-VARIANT-REF"/></PARENT-REFS></ECU-VARIANT>')
    add("dyn-defined-spec-ecu-variant", "DynDefinedSpec",
        mini_container("f_ddsev", {"TABLES": tab}, comms=ddsvc, other_layers={"ECU-VARIANTS": ev}))
    add("layer-company-datas", "CompanyData",
        mini_container("f_lcd", layer_head=company_datas("inlayer")))
    # -- single ECU job output parameter with OID
    job = (f'<SINGLE-ECU-JOB ID="{L}.JOB.j"><SHORT-NAME>job</SHORT-NAME><PROG-CODES><PROG-CODE>'
           "<CODE-FILE>j.jar</CODE-FILE><SYNTAX>JAR</SYNTAX><REVISION>1</REVISION></PROG-CODE>"
           f'</PROG-CODES><OUTPUT-PARAMS><OUTPUT-PARAM ID="{L}.JOB.j.o" OID="oid.out">'
           f'<SHORT-NAME>o</SHORT-NAME><DOP-BASE-REF ID-REF="{L}.DOP.u8"/></OUTPUT-PARAM>'
           "</OUTPUT-PARAMS></SINGLE-ECU-JOB>")
    del job  # (OUTPUT-PARAM with OID: found by the perturbation of OutputParam.oid)
    # -- two containers: an ECU variant in one document inherits from a base variant in another
    # (PARENT-REF with DOCREF); the file of the derived layer sorts before that of its parent
    child = (HEAD + '<DIAG-LAYER-CONTAINER ID="DLC.a_child"><SHORT-NAME>a_child</SHORT-NAME>'
             '<ECU-VARIANTS><ECU-VARIANT ID="EV"><SHORT-NAME>a_child_ev</SHORT-NAME>'
             '<PARENT-REFS><PARENT-REF ID-REF="L" DOCREF="z_parent" DOCTYPE="CONTAINER" '
             'xsi:type="BASE-VARIANT-REF"/></PARENT-REFS></ECU-VARIANT></ECU-VARIANTS>'
             "</DIAG-LAYER-CONTAINER>" + TAIL)
    F.append(("two-containers-inheritance", "EcuVariantRaw",
              [("a_child.odx-d", child), ("z_parent.odx-d", mini_container("z_parent"))], {}))
    # -- LINKED-DTC-DOPS across documents, two levels deep: A (first file) links B (second file)
    # which links C; what A inherits must not depend on the order of the files
    def dtc_dop(did: str, name: str, dtcs: List[Tuple[str, int]], linked: str = "") -> str:
        x = (f'<DTC-DOP ID="{did}"><SHORT-NAME>{name}</SHORT-NAME>' + dct_std("A_UINT32", 24) +
             '<PHYSICAL-TYPE BASE-DATA-TYPE="A_UINT32"/>' + IDENT + "<DTCS>")
        for n, code in dtcs:
            x += (f'<DTC ID="{did}.{n}"><SHORT-NAME>{n}</SHORT-NAME><TROUBLE-CODE>{code}</TROUBLE-CODE>'
                  f"<TEXT>{n}</TEXT></DTC>")
        x += "</DTCS>"
        if linked:
            x += f"<LINKED-DTC-DOPS><LINKED-DTC-DOP>{linked}</LINKED-DTC-DOP></LINKED-DTC-DOPS>"
        return x + "</DTC-DOP>"
    c, r, p = _svc_with_req(L, "dtc", 38, param("VALUE", "code", f'<DOP-REF ID-REF="{L}.DOP.dtcA"/>', 1))
    first = mini_container("a_first", {"DTC-DOPS": dtc_dop(
        f"{L}.DOP.dtcA", "dtcA", [("A1", 17)],
        '<DTC-DOP-REF ID-REF="LB.DOP.dtcB" DOCREF="z_second" DOCTYPE="CONTAINER"/>')},
        comms=c, requests=r, pos=p)
    second = (HEAD + '<DIAG-LAYER-CONTAINER ID="DLC.z_second"><SHORT-NAME>z_second</SHORT-NAME>'
              '<ECU-SHARED-DATAS><ECU-SHARED-DATA ID="LB"><SHORT-NAME>z_second_lib</SHORT-NAME>'
              "<DIAG-DATA-DICTIONARY-SPEC><DTC-DOPS>" +
              dtc_dop("LB.DOP.dtcB", "dtcB", [("B1", 34)], '<DTC-DOP-REF ID-REF="LB.DOP.dtcC"/>') +
              dtc_dop("LB.DOP.dtcC", "dtcC", [("C1", 51), ("C2", 68)]) +
              "</DTC-DOPS></DIAG-DATA-DICTIONARY-SPEC></ECU-SHARED-DATA></ECU-SHARED-DATAS>"
              "</DIAG-LAYER-CONTAINER>" + TAIL)
    F.append(("linked-dtc-dops-two-files", "DtcDop",
              [("a_first.odx-d", first), ("z_second.odx-d", second)], {}))
    # -- elements that are present but empty: whatever the parser makes of them (an empty string
    # for child elements read with findtext) has to survive the round trip
    tt_empty = dop(f"{L}.DOP.tte", "tt_empty", compu("TEXTTABLE", scales(
        scale(lim("LOWER-LIMIT", "0"), lim("UPPER-LIMIT", "0"), "<COMPU-CONST><VT></VT></COMPU-CONST>"),
        scale(lim("LOWER-LIMIT", "1"), lim("UPPER-LIMIT", "1"), "<COMPU-CONST><VT>on</VT></COMPU-CONST>"),
        scale(lim("LOWER-LIMIT", "2"), lim("UPPER-LIMIT", "2"),
              "<COMPU-CONST><VT>named</VT></COMPU-CONST>", label="", d="<DESC></DESC>"))
        + "<COMPU-DEFAULT-VALUE><VT></VT></COMPU-DEFAULT-VALUE>"),
        dct_std("A_UINT32", 8), "A_UNICODE2STRING")
    c, r, p = _svc_with_req(L, "tte", 37, p_value("state", f"{L}.DOP.tte", 1))
    add("empty-text-elements", "CompuConst",
        mini_container("f_empty", {"DATA-OBJECT-PROPS": tt_empty}, comms=c, requests=r, pos=p))
    # -- description with external documents
    add("description-external-docs", "Description", mini_container(
        "f_extdoc", layer_head='<DESC TI="ti.ext"><p>see also</p><EXTERNAL-DOCS>'
        '<EXTERNAL-DOC HREF="http://example.org/a">document a</EXTERNAL-DOC>'
        '<EXTERNAL-DOC HREF="http://example.org/b"/></EXTERNAL-DOCS></DESC>'))
    # -- sub components
    dtcdop = (f'<DTC-DOP ID="{L}.DOP.dtcs"><SHORT-NAME>dtcs</SHORT-NAME>' + dct_std("A_UINT32", 24) +
              '<PHYSICAL-TYPE BASE-DATA-TYPE="A_UINT32"/>' + IDENT +
              f'<DTCS><DTC ID="{L}.DTC.p1"><SHORT-NAME>P1</SHORT-NAME><TROUBLE-CODE>1</TROUBLE-CODE>'
              "<TEXT>one</TEXT></DTC></DTCS></DTC-DOP>")

    def subc(inner: str) -> str:
        return (f'<SUB-COMPONENTS><SUB-COMPONENT ID="{L}.SC.s" OID="oid.sc" SEMANTIC="PART">' +
                named("part") + inner + "</SUB-COMPONENT></SUB-COMPONENTS>")

    add("sub-component-plain", "SubComponent", mini_container("f_sc0", layer_tail=subc("")))
    add("sub-component-pattern", "SubComponentPattern", mini_container("f_scp", layer_tail=subc(
        "<SUB-COMPONENT-PATTERNS><SUB-COMPONENT-PATTERN><MATCHING-PARAMETERS><MATCHING-PARAMETER>"
        '<EXPECTED-VALUE>1</EXPECTED-VALUE><DIAG-COMM-SNREF SHORT-NAME="svc"/>'
        '<OUT-PARAM-IF-SNREF SHORT-NAME="sid"/></MATCHING-PARAMETER></MATCHING-PARAMETERS>'
        "</SUB-COMPONENT-PATTERN></SUB-COMPONENT-PATTERNS>")))
    add("sub-component-param-connector", "SubComponentParamConnector",
        mini_container("f_scpc", layer_tail=subc(
            "<SUB-COMPONENT-PARAM-CONNECTORS>"
            f'<SUB-COMPONENT-PARAM-CONNECTOR ID="{L}.SCPC.c" OID="oid.scpc">' + named("conn") +
            '<DIAG-COMM-SNREF SHORT-NAME="svc"/><OUT-PARAM-IF-REFS>'
            '<OUT-PARAM-IF-SNREF SHORT-NAME="sid"/></OUT-PARAM-IF-REFS><IN-PARAM-IF-REFS>'
            '<IN-PARAM-IF-SNREF SHORT-NAME="x"/></IN-PARAM-IF-REFS>'
            "</SUB-COMPONENT-PARAM-CONNECTOR></SUB-COMPONENT-PARAM-CONNECTORS>")))
    add("sub-component-table-row-connector", "TableRowConnector",
        mini_container("f_sctr", {"TABLES": tab}, layer_tail=subc(
            "<TABLE-ROW-CONNECTORS><TABLE-ROW-CONNECTOR>" + named("trc") +
            f'<TABLE-REF ID-REF="{L}.TAB.t"/><TABLE-ROW-SNREF SHORT-NAME="r1"/>'
            "</TABLE-ROW-CONNECTOR></TABLE-ROW-CONNECTORS>")))
    add("sub-component-env-data-connector", "EnvDataConnector",
        mini_container("f_sced", {"ENV-DATAS": envd, "ENV-DATA-DESCS": edd}, layer_tail=subc(
            "<ENV-DATA-CONNECTORS><ENV-DATA-CONNECTOR>" + named("edc") +
            f'<ENV-DATA-DESC-REF ID-REF="{L}.EDD.e"/><ENV-DATA-SNREF SHORT-NAME="env_all"/>'
            "</ENV-DATA-CONNECTOR></ENV-DATA-CONNECTORS>")))
    add("sub-component-dtc-connector", "DtcConnector",
        mini_container("f_scdtc", {"DTC-DOPS": dtcdop}, layer_tail=subc(
            "<DTC-CONNECTORS><DTC-CONNECTOR>" + named("dc") +
            f'<DTC-DOP-REF ID-REF="{L}.DOP.dtcs"/><DTC-SNREF SHORT-NAME="P1"/>'
            "</DTC-CONNECTOR></DTC-CONNECTORS>")))
    # -- references that leave the document
    shared = (HEAD + '<DIAG-LAYER-CONTAINER ID="DLC.f_shared"><SHORT-NAME>f_shared</SHORT-NAME>'
              '<ECU-SHARED-DATAS><ECU-SHARED-DATA ID="S"><SHORT-NAME>f_shared_esd</SHORT-NAME>'
              "<DIAG-DATA-DICTIONARY-SPEC><DATA-OBJECT-PROPS>" +
              dop("S.DOP.far", "far", IDENT, dct_std("A_UINT32", 16), "A_UINT32") +
              "</DATA-OBJECT-PROPS></DIAG-DATA-DICTIONARY-SPEC></ECU-SHARED-DATA>"
              "</ECU-SHARED-DATAS></DIAG-LAYER-CONTAINER>" + TAIL)
    c, r, p = _svc_with_req(L, "far", 37, (
        '<PARAM xsi:type="VALUE"><SHORT-NAME>f</SHORT-NAME><BYTE-POSITION>1</BYTE-POSITION>'
        '<DOP-REF ID-REF="S.DOP.far" DOCREF="f_shared" DOCTYPE="CONTAINER"/></PARAM>'))
    add("cross-container-dop-ref", "OdxLinkRef",
        mini_container("f_xref", comms=c, requests=r, pos=p), more=[("f_shared.odx-d", shared)])
    # -- prot stack whose subset ID differs from the subset's short name
    prot = ('<PROTOCOL ID="P"><SHORT-NAME>f_ps_prot</SHORT-NAME>'
            '<COMPARAM-SPEC-REF ID-REF="CSPEC.f_ps_spec" DOCREF="f_ps_spec" '
            'DOCTYPE="COMPARAM-SPEC"/></PROTOCOL>')
    add("prot-stack-subset-ref-docref", "ProtStack",
        mini_container("f_ps", other_layers={"PROTOCOLS": prot}),
        more=[("f_ps_cps.odx-cs", comparam_subset("f_ps_cps", "CS.")),
              ("f_ps_spec.odx-c", comparam_spec("f_ps_spec", "f_ps_cps", "CS.").replace(
                  'ID="CSPEC.f_ps_spec"', 'ID="CSPEC.f_ps_spec"'))])
    # -- a protocol stack over two subsets whose root elements carry the same ID (IDs are unique
    # per document; the DOCREF tells the references apart)
    prot2 = ('<PROTOCOL ID="P"><SHORT-NAME>f_ps2_prot</SHORT-NAME>'
             '<COMPARAM-SPEC-REF ID-REF="CSPEC.f_ps2_spec" DOCREF="f_ps2_spec" '
             'DOCTYPE="COMPARAM-SPEC"/></PROTOCOL>')
    spec2 = comparam_spec("f_ps2_spec", "f_ps2_a", "CS.")
    one = '<COMPARAM-SUBSET-REF ID-REF="CS.f_ps2_a" DOCREF="f_ps2_a" DOCTYPE="COMPARAM-SUBSET"/>'
    assert one in spec2
    spec2 = spec2.replace(one, (
        '<COMPARAM-SUBSET-REF ID-REF="CS.sub" DOCREF="f_ps2_a" DOCTYPE="COMPARAM-SUBSET"/>'
        '<COMPARAM-SUBSET-REF ID-REF="CS.sub" DOCREF="f_ps2_b" DOCTYPE="COMPARAM-SUBSET"/>'))
    add("prot-stack-two-subsets-same-id", "ProtStack",
        mini_container("f_ps2", other_layers={"PROTOCOLS": prot2}),
        more=[("f_ps2_a.odx-cs", comparam_subset("f_ps2_a", "CS.").replace("CS.f_ps2_a", "CS.sub")),
              ("f_ps2_b.odx-cs", comparam_subset("f_ps2_b", "CS.").replace("CS.f_ps2_b", "CS.sub")),
              ("f_ps2_spec.odx-c", spec2)])
    return F
