"""C10 - every reference resolves to the object it names, or loading fails.

Events: after ``Database.refresh()`` on a generated multi-document database, the marker
(LONG-NAME) of the object bound to every reference attribute; or the exception of the load.
Oracle: c10gen.Resolver (written from the ODX rule).  Metamorphic: the outcome is the same
for every order of the input documents and for the reversed order of the layers inside the
containers; retarget_snrefs(db, T) rebinds the SNREFs of T and its ancestors to T's view.
"""
from __future__ import annotations

import hashlib
import itertools
import json
import warnings
from typing import Any, Callable, Dict, List, Optional, Tuple

from .. import common
from .. import c10gen as G

PROPERTY = "C10"
LEVEL = "exploration"
RULE = ("random databases of 2-3 DIAG-LAYER-CONTAINER documents x 2-4 layers (PROTOCOL + "
        "COMPARAM-SPEC documents, ECU-SHARED-DATA, BASE-VARIANT, ECU-VARIANT; PARENT-REF and "
        "IMPORT-REF across containers) in which every layer defines the same local IDs and "
        "short names with different content (marker in LONG-NAME); every reference kind in "
        "ID-REF form (no DOCREF / DOCTYPE=LAYER / DOCTYPE=CONTAINER / via sibling / via "
        "IMPORT-REF) and SNREF form; two thirds of the databases carry exactly one injected "
        "fault (dangling ID-REF, dangling SNREF, DOCREF to a fragment lacking the ID, "
        "ambiguous SNREF, ID visible only through a sibling's IMPORT-REF); each database is "
        "loaded in every document order and with reversed layer order.  Distinct = distinct "
        "model; non-trivial = at least one reference whose local ID / short name also exists "
        "in another fragment")
MIN_EVALS = {"quick": 60000, "thorough": 2000000}
ASSUMPTIONS = [
    "identity of a bound object is its LONG-NAME marker planted by the generator",
    "an ID that occurs twice inside the fragment named by DOCREF (DOCTYPE=CONTAINER with "
    "identical IDs in sibling layers) is not uniquely defined by ODX: any of them is accepted",
    "without DOCREF the relative order of 'objects imported into the layer' and 'objects of "
    "the enclosing container' is not fixed by the statement: either is accepted",
    "whether an SNREF may name an object that is visible only through IMPORT-REF is unclear: "
    "binding to the imported object and raising are both accepted (never anything else)",
    "a DOCREF naming the importing layer for an ID that this layer only imports is judged for "
    "order-independence only",
    "any exception type raised by Database.refresh() counts as 'an error'",
]

REQUIRED_FAULTS = ["dangling-id:nowhere", "dangling-id:other-container", "dangling-sn:nowhere",
                   "dangling-sn:unrelated-layer", "docref-lacks-id:layer-lacks",
                   "docref-lacks-id:container-lacks", "docref-lacks-id:ghost-fragment",
                   "ambiguous-sn", "leak:id-imported-by-sibling"]

# the ID is defined in no fragment the reference may search, but a layer *other than the
# referrer* inside such a fragment imports (IMPORT-REF) a layer that defines it
FOREIGN_IMPORT = "visible-only-through-foreign-import"

# ---------------------------------------------------------------------------
# observation at the public API


def _mk(o: Any) -> Any:
    if o is None:
        return None
    return getattr(o, "long_name", None) or ("?" + type(o).__name__)


def observe(db: Any) -> Tuple[Dict[Tuple[str, str], Any], List[str]]:
    """(referrer marker, slot) -> marker of the bound object | None | ("ERR", type)"""
    obs: Dict[Tuple[str, str], Any] = {}
    clashes: List[str] = []

    def rec(owner: Any, slot: str, fn: Callable[[], Any]) -> None:
        key = (_mk(owner) if not isinstance(owner, str) else owner, slot)
        try:
            v = _mk(fn())
        except Exception as e:  # attribute never bound
            v = ("ERR", type(e).__name__)
        if key in obs and obs[key] != v:
            clashes.append(f"{key}: {obs[key]} vs {v}")
        obs.setdefault(key, v)

    def params(ps: Any) -> None:
        for p in ps:
            pt = getattr(p, "parameter_type", None)
            if pt in ("VALUE", "LENGTH-KEY", "PHYS-CONST", "SYSTEM"):
                rec(p, "dop", lambda p=p: p.dop)
            elif pt == "TABLE-KEY":
                rec(p, "table", lambda p=p: p.table)
                rec(p, "row", lambda p=p: p.table_row)
            elif pt == "TABLE-STRUCT":
                rec(p, "key", lambda p=p: p.table_key)

    for lay in db.diag_layers:
        for n, pr in enumerate(getattr(lay, "parent_refs", []) or []):
            rec(lay, f"parent:{n}", lambda pr=pr: pr.layer)
        raw_cprefs = getattr(lay.diag_layer_raw, "comparam_refs", None) or []
        for n, ci in enumerate(raw_cprefs):
            rec(lay, f"cp:{n}", lambda ci=ci: ci.spec)
            # ... and it has to be the object of THIS database (documents of the same names
            # may have been loaded before)
            try:
                own = any(ci.spec is cp for ss in db.comparam_subsets for cp in ss.comparams)
            except Exception:
                own = True
            if not own:
                clashes.append(f"FOREIGN {_mk(lay)} cp:{n}: bound to a COMPARAM that is not part "
                               "of this database")
        if lay.variant_type.value == "PROTOCOL":
            rec(lay, "cps", lambda: lay.comparam_spec)
            rec(lay, "pstack", lambda: lay.prot_stack)
        d = lay.diag_data_dictionary_spec
        for dop in d.data_object_props:
            rec(dop, "unit", lambda dop=dop: dop.unit)
            dct = dop.diag_coded_type
            if hasattr(dct, "length_key_ref"):
                rec(dop, "lk", lambda dct=dct: dct.length_key)
        if d.unit_spec is not None:
            for u in d.unit_spec.units:
                rec(u, "pdim", lambda u=u: u.physical_dimension)
        for st in list(d.structures) + list(d.env_datas):
            params(st.parameters)
        for f in list(d.static_fields) + list(d.end_of_pdu_fields) + \
                list(d.dynamic_length_fields) + list(d.dynamic_endmarker_fields):
            rec(f, "struct", lambda f=f: f.structure)
        for m in d.muxs:
            rec(m, "swkey", lambda m=m: m.switch_key.dop)
            for cs in m.cases:
                rec(cs, "struct", lambda cs=cs: cs.structure)
            if m.default_case is not None:
                rec(m.default_case, "struct", lambda m=m: m.default_case.structure)
        for e in d.env_data_descs:
            for n in range(len(e.env_data_refs)):
                rec(e, f"env:{n}", lambda e=e, n=n: e.env_datas[n])
        for t in d.tables:
            rec(t, "keydop", lambda t=t: t.key_dop)
            for rw in t.table_rows:
                rec(rw, "struct", lambda rw=rw: rw.structure)
                rec(rw, "dop", lambda rw=rw: rw.dop)
        for msgs in (lay.requests, lay.positive_responses, lay.negative_responses,
                     getattr(lay, "global_negative_responses", [])):
            for msg in msgs:
                params(msg.parameters)
        for svc in lay.services:
            rec(svc, "req", lambda svc=svc: svc.request)
            for n in range(len(svc.pos_response_refs)):
                rec(svc, f"pos:{n}", lambda svc=svc, n=n: svc.positive_responses[n])
            for n in range(len(svc.neg_response_refs)):
                rec(svc, f"neg:{n}", lambda svc=svc, n=n: svc.negative_responses[n])
            for n in range(len(svc.functional_class_refs)):
                rec(svc, f"fc:{n}", lambda svc=svc, n=n: svc.functional_classes[n])
            if svc.request is not None:
                params(svc.request.parameters)
            for rsp in list(svc.positive_responses) + list(svc.negative_responses):
                params(rsp.parameters)
    return obs, clashes


def raise_site(err: BaseException) -> str:
    """categorical: the odxtools modules on the innermost part of the call chain"""
    import traceback
    mods: List[str] = []
    for fr in reversed(traceback.extract_tb(err.__traceback__)):
        if "odxtools" not in fr.filename:
            continue
        m = fr.filename.rsplit("/", 1)[-1].replace(".py", "")
        if m in ("exceptions", "odxlink") or (mods and mods[-1] == m):
            continue
        mods.append(m)
        if len(mods) == 4:
            break
    return "<".join(mods)


def load(xmls: List[str], order: Tuple[int, ...]) -> Tuple[Any, Optional[BaseException]]:
    from xml.etree import ElementTree

    import odxtools.exceptions
    from odxtools.database import Database
    odxtools.exceptions.strict_mode = True
    db = Database()
    try:
        with warnings.catch_warnings():
            warnings.simplefilter("ignore")
            for i in order:
                db._process_xml_tree(ElementTree.fromstring(xmls[i]))
            db.refresh()
    except Exception as e:  # "an error": any exception type
        return None, e
    return db, None


# ---------------------------------------------------------------------------
# judging one database


def imported_elsewhere(res: G.Resolver, st: G.Site) -> bool:
    ref = st.ref
    dr = ref.get("dr")
    for a in res.layer:
        if a == st.layer:
            continue
        if not any(ref["id"] in res.by_layer[s] for s in res.imports(a)):
            continue
        if dr:
            if (dr[0] == "LAYER" and dr[1] == a) or (dr[0] == "CONTAINER" and dr[1] == res.cont_of[a]):
                return True
        elif res.cont_of[a] == st.cont:
            return True
    return False


def orders_for(ndocs: int, ncps: int, tier: str) -> List[Tuple[int, ...]]:
    n = ndocs + ncps
    if n <= 3:
        return list(itertools.permutations(range(n)))
    # all orders of the containers; the comparam-spec documents rotate through the positions
    out = []
    for k, perm in enumerate(itertools.permutations(range(ndocs))):
        seq = list(perm)
        for j in range(ncps):
            seq.insert((k + j) % (len(seq) + 1), ndocs + j)
        out.append(tuple(seq))
    return out


def judge_db(model: Dict[str, Any], col: common.Collector, tier: str = "quick",
             do_retarget: bool = True) -> None:
    res = G.Resolver(model)
    sts = G.sites(model)
    exp = {st.key: res.expect(st) for st in sts}
    if res.imports_unresolved:
        col.fail_inconclusive("generator produced an unresolvable IMPORT-REF")
        return
    # ENV-DATA objects that an ENV-DATA-DESC of *another* layer points to: their parameters get
    # a label of their own (a mechanism of its own in the code under test)
    foreign_env = set()
    for st in sts:
        if st.kind == "ENV-DATA":
            for m in exp[st.key].accept:
                if m.split("/")[1] != st.layer:
                    foreign_env.add(m)
    for st in sts:
        if st.where == "ENV-DATA" and st.key[0].split("#")[0] in foreign_env:
            st.where = "ENV-DATA-of-foreign-ENV-DATA-DESC"
    fault = model.get("fault")
    if fault and fault.get("variant") == "docref-to-importer":
        # DOCREF names the importing layer, the ID is one that this layer only imports: both
        # readings are accepted, the outcome must merely not depend on the processing order
        for st in sts:
            if list(st.key) == fault["key"]:
                exp[st.key] = G.Expect(res.by_layer[fault["shared"]].get(st.ref["id"], []),
                                       raise_ok=True, note="docref-to-importer")
    unresolvable = [st for st in sts if exp[st.key].must_raise]
    unclear = [st for st in sts if exp[st.key].raise_ok]
    if fault is None and unresolvable:
        col.fail_inconclusive("generator bug: fault-free model has an unresolvable reference: "
                              f"{unresolvable[0].key} {unresolvable[0].ref}")
        return
    fault_unclear = bool(fault and fault.get("variant") == "docref-to-importer")
    if fault is not None and not unresolvable and not fault_unclear:
        col.fail_inconclusive(f"generator bug: injected fault {fault} left all references resolvable")
        return
    ndocs, ncps = len(model["docs"]), len(model.get("cps", [])) + len(model.get("css", []))
    orders = orders_for(ndocs, ncps, tier)
    xml_by_rev = {False: G.emit_all(model, False), True: G.emit_all(model, True)}
    variants = [(o, False) for o in orders] + [(orders[0], True)]
    if tier == "thorough":
        variants += [(o, True) for o in orders[1:]]
    if fault is not None:
        fault = dict(fault)
        fsite = next((st for st in sts if list(st.key) == fault["key"]), None)
        if fsite is not None and fsite.ref["f"] == "id" and fault["class"] != "leak" and \
                imported_elsewhere(res, fsite):
            # the ID is not visible to the referrer, but some *other* layer inside a fragment
            # the reference searches imports a layer that defines it
            fault["variant"] += "+imported-elsewhere"
    fclass = (fault["class"] + ":" + fault["variant"]) if fault else "none"
    fkind = fault["kind"] if fault else "valid-db"
    outcomes: List[Tuple[Tuple[Tuple[int, ...], bool], Any]] = []
    first_db = None

    def detail(order: Any, rev: bool, **kw: Any) -> Dict[str, Any]:
        d = {"model": model, "doc_order": list(order), "layers_reversed": rev, "fault": fault}
        d.update(kw)
        return d

    for order, rev in variants:
        db, err = load(xml_by_rev[rev], order)
        if err is not None:
            outcomes.append(((order, rev), ("raise", type(err).__name__, raise_site(err))))
            if not unresolvable and not unclear and not fault_unclear:
                col.violation(("load-raises-on-valid", type(err).__name__, raise_site(err)),
                              detail(order, rev, error=f"{type(err).__name__}: {err}"[:400]))
            col.ev()
            continue
        obs, clashes = observe(db)
        outcomes.append(((order, rev), obs))
        if first_db is None and not rev:
            first_db = db
        foreign = [x for x in clashes if x.startswith("FOREIGN ")]
        clashes = [x for x in clashes if not x.startswith("FOREIGN ")]
        if foreign:
            col.violation(("bound-to-object-of-another-database", "COMPARAM"),
                          detail(order, rev, problem=foreign[:5]))
        if clashes:
            col.violation(("view-disagrees", fkind), detail(order, rev, clashes=clashes[:5]))
        for st in sts:
            e = exp[st.key]
            o = obs.get(st.key, ("MISSING",))
            if unresolvable and not e.must_raise:
                continue  # a database that had to be rejected: only the fault itself is judged
            col.ev()
            if e.must_raise:
                sigc = {"dangling-id": "dangling-accepted", "dangling-sn": "dangling-accepted",
                        "docref-lacks-id": "dangling-accepted", "leak": "dangling-accepted",
                        "ambiguous-sn": "ambiguous-accepted"}.get(fault["class"] if fault else "",
                                                                    "unresolvable-accepted")
                # only the injected reference names the mechanism; collateral sites are skipped
                if fault and list(st.key) != fault["key"] and any(
                        list(s.key) == fault["key"] for s in unresolvable):
                    continue
                fv = fault["variant"] if fault else "?"
                if fault and (fault["class"] == "leak" or fv.endswith("+imported-elsewhere")):
                    # one resolver for all ID-REF kinds; kind and exact variant are in the detail
                    lab, fv = "ODXLINK", FOREIGN_IMPORT
                elif fv.startswith("same-layer-duplicate"):
                    lab, fv = "SNREF-in-" + str(st.sncat), ":".join(fv.split(":")[:2])
                else:
                    lab = st.label
                col.violation((sigc, lab, fv, st.form),
                              detail(order, rev, site=list(st.key), ref=st.ref, bound_to=o,
                                     problem="the reference cannot be resolved (uniquely) by "
                                     "the ODX rule, yet the database loaded in strict mode"))
                continue
            if e.unresolvable:  # unclear reading, loaded: must be bound to the candidate... none
                continue
            if isinstance(o, tuple):
                col.violation(("unbound-after-load", st.label, st.form),
                              detail(order, rev, site=list(st.key), ref=st.ref, observed=list(o),
                                     expected=sorted(e.accept)))
            elif o not in e.accept:
                col.violation(("bound-to-wrong-object", st.label,
                               {"sn": "snref", "id-nodocref": "no-docref"}.get(st.form, "with-docref")),
                              detail(order, rev, site=list(st.key), ref=st.ref, observed=o,
                                     expected=sorted(e.accept)))
            else:
                col.count(f"cell:{st.kind}:{st.form}")
                if st.ref["f"] == "id" and not st.ref.get("dr") and \
                        st.ref["id"] not in res.by_layer[st.layer]:
                    imp = any(st.ref["id"] in res.by_layer[s] for s in res.imports(st.layer))
                    col.count(f"cell:{st.kind}:id-via-{'import' if imp else 'container'}")
                if len(e.accept) > 1:
                    col.count("ambiguous_by_rule_sites")
                if e.note:
                    col.count("unclear:" + e.note + ":bound")
    # what did the fault do
    nraise = sum(1 for _, oc in outcomes if isinstance(oc, tuple))
    if fault is not None:
        col.count("fault:" + fclass, 1)
        col.count("fault:" + fault["class"], 1)
        if fault["class"] == "ambiguous-sn":
            col.count("fault:ambiguous-sn:" + fault["kind"])
        if nraise:
            col.count("fault_raised_loads", nraise)
    elif unclear and nraise:
        col.count("unclear:snref-to-imported:raised")
    # order independence
    ident = outcomes[0][1]
    for (order, rev), oc in outcomes[1:]:
        if isinstance(oc, tuple) != isinstance(ident, tuple):
            axis = "layer-order" if (rev and order == outcomes[0][0][0]) else "doc-order"
            fk, fc = fkind, fclass
            if fault is None:  # name the mechanism by where the (spurious) error came from
                fc = (oc if isinstance(oc, tuple) else ident)[2]
            if fault and (fault["class"] == "leak" or fclass.endswith("+imported-elsewhere")):
                fk, fc = "ODXLINK", FOREIGN_IMPORT
            col.violation(("order-dependent", fk, fc, axis, "raise-vs-load"),
                          detail(order, rev, first=("raised" if isinstance(ident, tuple) else "loaded"),
                                 this=("raised" if isinstance(oc, tuple) else "loaded"),
                                 reference_order=list(outcomes[0][0][0])))
            break
        if not isinstance(oc, tuple) and oc != ident and not unresolvable:
            diff = [k for k in ident if oc.get(k) != ident.get(k) and
                    (k not in exp or len(exp[k].accept) == 1)]
            if not diff:
                continue
            kind = next((st.label for st in sts if st.key in diff), "?")
            axis = "layer-order" if (rev and order == outcomes[0][0][0]) else "doc-order"
            fc = fclass if (fault and diff and list(diff[0]) == fault["key"]) else "none"
            col.violation(("order-dependent", kind, fc, axis, "binding"),
                          detail(order, rev, site=list(diff[0]) if diff else None,
                                 first=ident.get(diff[0]) if diff else None,
                                 this=oc.get(diff[0]) if diff else None))
            break
    col.ev()
    col.nontrivial(hashlib.blake2b(json.dumps(model, sort_keys=True).encode(),
                                   digest_size=8).hexdigest())
    # retargeting
    if do_retarget and fault is None and not unclear and first_db is not None:
        retarget(model, res, sts, exp, first_db, col)


def retarget(model: Dict[str, Any], res: G.Resolver, sts: List[G.Site], exp: Dict[Any, G.Expect],
             db: Any, col: common.Collector) -> None:
    from odxtools.utils import retarget_snrefs
    ctx = {l: l for l in res.layer}
    before, _ = observe(db)
    targets = [l for l in res.layer if res.parents(l)]
    for t in targets:
        # a short name that t's PARENT-REF declares NOT-INHERITED may be used by an object t
        # inherits: in t's context that reference has no target, retargeting has to fail
        inctx = [(st, res.expect(st, ctx=t)) for st in sts
                 if st.ref["f"] == "sn" and st.layer in res.closure(t) and exp[st.key].accept
                 and not exp[st.key].raise_ok]
        dangling = [st for st, e in inctx if not e.accept]
        # (hidden from inheritance but IMPORTed by t: the unclear reading, refusing is accepted)
        unclear_in_ctx = [st for st, e in inctx if e.accept and e.raise_ok]
        try:
            with warnings.catch_warnings():
                warnings.simplefilter("ignore")
                retarget_snrefs(db, db.diag_layers[t])
        except Exception as e:
            if dangling or unclear_in_ctx:
                col.count("retarget-refused:name-hidden-by-not-inherited")
                return  # (the database is half retargeted now)
            col.violation(("retarget-raises", type(e).__name__, raise_site(e)),
                          {"model": model, "target": t, "error": f"{type(e).__name__}: {e}"[:400]})
            col.ev()
            return
        if dangling:
            col.violation(("retarget-accepts-hidden-name", dangling[0].label),
                          {"model": model, "target": t, "site": list(dangling[0].key),
                           "ref": dangling[0].ref,
                           "problem": "the name is NOT-INHERITED in the target layer, yet the "
                           "reference was rebound in its context in strict mode"})
            return
        for l in res.closure(t):
            ctx[l] = t
        obs, _ = observe(db)
        for st in sts:
            e = res.expect(st, ctx=ctx[st.layer])
            o = obs.get(st.key, ("MISSING",))
            col.ev()
            changed = e.accept != exp[st.key].accept
            if isinstance(o, tuple) or o not in e.accept:
                if st.ref["f"] == "sn":
                    sig = ("retarget-not-rebound", st.label) if (changed and o == before.get(st.key)) \
                        else ("retarget-bound-to-wrong-object", st.label)
                else:
                    sig = ("retarget-disturbed-idref", st.label)
                col.violation(sig, {"model": model, "target": t, "context_layer": ctx[st.layer],
                                    "site": list(st.key), "ref": st.ref, "observed": o,
                                    "expected": sorted(e.accept),
                                    "bound_before": before.get(st.key)})
            elif changed:
                col.count("retarget_rebound_sites")
                col.count(f"retarget:{st.kind}")
        col.count("retargets")


# ---------------------------------------------------------------------------
# workload


def make_db(r: Any, i: int) -> Optional[Dict[str, Any]]:
    """every third database is fault free"""
    mode = i % 3
    if mode == 0:
        unclear = (i % 15 == 0)
        model, tp = G.generate(r, unclear=unclear)
        if not unclear:
            G.add_second_import(r, model, tp)
        return model
    fclass = G.FAULTS[(i // 3) % len(G.FAULTS)] if mode == 1 else r.choice(G.FAULTS)
    for _ in range(20):
        model, tp = G.generate(r, force_leak=(fclass == "leak"))
        f = G.inject(r, model, tp, fclass)
        if f is not None:
            model["fault"] = f
            return model
    return None


def part(task: Tuple[int, int, str], col: common.Collector) -> None:
    worker, count, tier = task
    r = common.rng(worker, "c10")
    for i in range(count):
        model = make_db(r, i + worker)
        if model is None:
            col.count("generator_gave_up")
            continue
        judge_db(model, col, tier)
        if model.get("second_import"):
            col.count("databases-with-two-imports")
            col.count("references-through-second-import", model["second_import"]["repointed"])
        if worker == 0 and i < 4:
            col.sample({"containers": {d["name"]: [f'{L["kind"]}:{L["name"]}' for L in d["layers"]]
                                       for d in model["docs"]},
                        "same_ids_inside_container": model["dup"], "fault": model["fault"],
                        "example_refs": [{"site": list(s.key), "kind": s.kind, "ref": s.ref}
                                         for s in G.sites(model)[:6]]}, limit=4)


def run(tier: str, col: common.Collector) -> None:
    per = 45 if tier == "quick" else 150
    nw = common.NCPU if tier == "quick" else common.NCPU * 4
    common.pmap(part, [(w, per, tier) for w in range(nw)], col)
    for need in ("databases-with-two-imports", "references-through-second-import"):
        if not col.counters.get(need):
            col.fail_inconclusive(f"monitor counter {need} stayed at zero")
    missing = []
    for k in G.ID_KINDS:
        forms = ["id-docref-comparam-spec"] if k == "COMPARAM-SPEC" else \
            ["id-nodocref", "id-docref-layer", "id-docref-container"]
        for f in forms:
            if not col.counters.get(f"cell:{k}:{f}"):
                missing.append(f"{k}:{f}")
    for k in G.SNREF_KINDS:
        if not col.counters.get(f"cell:{k}:sn"):
            missing.append(f"{k}:sn")
    for k in ("DOP", "ROW-STRUCTURE", "TK-TABLE", "FUNCT-CLASS", "UNIT"):
        if not col.counters.get(f"cell:{k}:id-via-import"):
            missing.append(f"{k}:id-via-import")
    for f in REQUIRED_FAULTS:
        if not col.counters.get("fault:" + f):
            missing.append("fault:" + f)
    if not col.counters.get("retarget_rebound_sites"):
        missing.append("retarget (no SNREF changed its expected target)")
    if missing:
        col.fail_inconclusive("feature matrix has empty cells: " + ", ".join(missing))
    col.notes["matrix"] = {k[5:]: v for k, v in col.counters.items() if k.startswith("cell:")}


def replay(w: Dict[str, Any], col: common.Collector) -> None:
    judge_db(w["model"], col, "thorough")
