"""C05 - decoding arbitrary bytes is total: it returns or raises the library's decode error.

Events: (object, bytes) for Request / Response / DiagService.decode_message /
DiagLayer.decode / decode_response: result, exception type, number of function entries
(sys.monitoring PY_START) inside the call.
Oracle: returns, or raises an instance of odxtools.exceptions.DecodeError; step count within a
budget linear in len(bytes) x #parameters; if the reference interpreter says the PDU ends
before a described fixed-size parameter the call must raise DecodeError.
"""
from __future__ import annotations

import itertools
import os
import random
import traceback
from typing import Any, Dict, List, Optional, Tuple

from .. import codeccompose, codecgen, codecrun, common, monitors, refodx
from .c02 import used_dobjs

PROPERTY = "C05"
LEVEL = "exploration"
RULE = ("for every generated description (grid, probes, random compositions) and the layers of "
        "the shipped somersault.pdx: every prefix and single-byte mutation (00,01,7F,80,FF,+1) "
        "of valid PDUs, every byte string of length <= 3 over {first bytes of all prefixes, "
        "00,01,7F,FF}, random strings up to 64 bytes and over-long strings, decoded through "
        "Request/Response.decode, DiagService.decode_message, DiagLayer.decode and "
        "decode_response; streams of tester/ECU telegrams through the snoop tool's "
        "handle_telegram (shadow of its last-request state kept with the API); a layer using the "
        "parameter kinds whose coding is unimplemented. Every call runs under a wall-clock "
        "trigger + executed-line budget (non-termination). Distinct+non-trivial = distinct "
        "(object kind, layout, byte-string class, outcome class)")
MIN_EVALS = {"quick": 60000, "thorough": 1000000}
ASSUMPTIONS = [
    "only odxtools.exceptions.DecodeError (and subclasses) counts as the library's decode "
    "error, as the statement and the callers in diaglayer/variantmatcher/snoop require",
    "the 'PDU too short' clause is judged only where vf/refodx.py reports Short for the same "
    "description",
]


def where_of(e: BaseException) -> str:
    tb = traceback.extract_tb(e.__traceback__)
    for fr in reversed(tb):
        if "/odxtools/" in fr.filename:
            return f"{os.path.basename(fr.filename)}:{fr.name}"
    return "?"


def mutations(pdu: bytes, r: random.Random, full: bool) -> List[Tuple[str, bytes]]:
    out: List[Tuple[str, bytes]] = []
    for k in range(len(pdu)):
        out.append(("prefix", pdu[:k]))
    if full or len(pdu) <= 24:
        positions: Any = range(len(pdu))
    else:
        # a sample of the positions, and every byte that may be a terminator or an end marker
        marks = [i for i, b in enumerate(pdu) if b in (0x00, 0xFF)][:64]
        positions = sorted(set(r.sample(range(len(pdu)), 24)) | set(marks))
    for i in positions:
        for v in (0x00, 0x01, 0x7F, 0x80, 0xFF, (pdu[i] + 1) & 0xFF):
            if v != pdu[i]:
                out.append(("mutation", pdu[:i] + bytes([v]) + pdu[i + 1:]))
    out.append(("overlong", pdu + b"\x00"))
    out.append(("overlong", pdu + bytes(r.getrandbits(8) for _ in range(r.randrange(1, 9)))))
    out.append(("overlong", pdu + b"\xff" * 40))
    return out


def judge(col: common.Collector, kind: str, layout: str, cls: str, fn: Any, args: Tuple,
          nparams: int, blob: bytes, detail: Dict[str, Any], ref_short: bool = False,
          count_steps: bool = False) -> None:
    if count_steps:
        with monitors.StepCounter() as sc:
            o = codecrun.call(fn, *args)
        budget = 400 * (len(blob) + 1) * (nparams + 1) + 2000
        col.count("step-counted-calls")
        col.notes["max_steps_seen"] = max(col.notes.get("max_steps_seen", 0), sc.n)
        if sc.n > budget:
            col.violation(("step-budget-exceeded", kind, layout),
                          dict(detail, steps=sc.n, budget=budget, bytes=blob))
    else:
        o = codecrun.call(fn, *args)
    if o.exc_type == "NonTermination":
        col.count("non-termination")
        col.violation(("does-not-terminate", kind, layout),
                      dict(detail, bytes=blob, byte_class=cls, problem=str(o.exc)))
        return
    col.ev()
    outcome = "returned" if o.ok else o.exc_family
    col.nontrivial((kind, layout, cls, outcome))
    col.count(f"outcome:{outcome}")
    if not o.ok and o.exc_family != "DecodeError":
        col.violation(("not-a-decode-error", o.exc_type, kind, layout),
                      dict(detail, bytes=blob, raised=o.brief(), where=where_of(o.exc),
                           byte_class=cls))
        return
    if o.ok and ref_short:
        col.violation(("short-pdu-accepted", kind, layout),
                      dict(detail, bytes=blob, returned=o.value, byte_class=cls,
                           problem="the PDU ends before a described parameter, yet decode returned"))


def run_layer(task: Tuple, col: common.Collector) -> None:
    mode, model, tier, wseed = task
    r = random.Random(wseed)
    try:
        ll = codecrun.LoadedLayer(model)
    except Exception as e:
        col.fail_inconclusive(f"generated layer {model['name']} does not load: {type(e).__name__}: {e}")
        return
    dobjs = {o["name"]: o for o in model["dobjs"]}
    full = tier == "thorough"
    n_call = 0
    for rq in model["requests"]:
        obj = ll.requests.get(rq["name"])
        if obj is None:
            continue
        layout = codecrun.coarse_cell(rq["feat"]) if mode == "grid" else (rq.get("shape") or "compose")
        if mode == "grid":
            assigns = codecgen.assignments_for(rq, dobjs, tier, r, hostile=False)
            assigns = assigns[::max(1, len(assigns) // (3 if not full else 12))]
        else:
            assigns = codeccompose.assignments(rq, model, r, n=2 if not full else 6)
        seeds: List[bytes] = []
        want = (6 if model["name"] == "probes" else 3) if not full else 8
        for attempt in range(5):
            for vals in assigns:
                k, e = codecrun.ref_encode(ll.ref, rq, vals)
                if k == "ok":
                    seeds.append(e.pdu)
                else:
                    o = codecrun.encode(obj, vals)
                    if o.ok:
                        seeds.append(o.value)
            if mode == "grid" or len(seeds) >= min(want, 3):
                break
            # (most assignments of this message cannot be represented - e.g. items that have to
            # fit a fixed size: draw again rather than start from one or two PDUs)
            assigns = codeccompose.assignments(rq, model, r, n=6)
            col.count("messages-with-extra-assignments")
        blobs: List[Tuple[str, bytes]] = []
        # (one message per construct in the probe layer: all of its valid PDUs are starting points)
        for s in seeds[:want]:
            blobs.append(("valid", s))
            blobs += mutations(s, r, full)
        for _ in range(4 if not full else 20):
            blobs.append(("random", bytes([0x22 if mode == "grid" else (seeds[0][0] if seeds and seeds[0] else 0x31)]) +
                          bytes(r.getrandbits(8) for _ in range(r.randrange(0, 64)))))
        blobs.append(("empty", b""))
        detail = {"layer": model["name"], "message": rq, "dobjs": used_dobjs(model, rq)}
        nparams = len(rq["params"]) + len(detail["dobjs"])
        for cls, b in blobs:
            n_call += 1
            k2, _ = codecrun.ref_decode(ll.ref, rq, b)
            judge(col, "request", layout, cls, obj.decode, (b,), nparams, b, detail,
                  ref_short=(k2 == "short"), count_steps=(n_call % 16 == 0))
        col.count("cell:" + (str(rq["feat"].get("dct")) if mode == "grid" else "compose"))
        # responses
        for pr in model["pos"] + model["neg"]:
            if pr.get("for") != rq["name"]:
                continue
            pobj = ll.pos.get(pr["name"]) or ll.neg.get(pr["name"])
            if pobj is None:
                continue
            for cls, b in blobs[::5]:
                judge(col, "response", layout, cls, pobj.decode, (b,), nparams, b,
                      {"layer": model["name"], "message": pr, "dobjs": used_dobjs(model, pr)})
    # layer-level entry points: alphabet strings, valid PDUs of all services and their mutations
    layer = ll.layer
    firsts = set()
    valid: List[bytes] = []
    for rq in model["requests"]:
        for vals in (codecgen.assignments_for(rq, dobjs, tier, r, False)[:1] if mode == "grid"
                     else codeccompose.assignments(rq, model, r, 1)):
            k, e = codecrun.ref_encode(ll.ref, rq, vals)
            if k == "ok" and e.pdu:
                firsts.add(e.pdu[0])
                valid.append(e.pdu)
    alpha = sorted(firsts | {0x00, 0x01, 0x7F, 0xFF})[:8]
    strings: List[Tuple[str, bytes]] = [("alphabet", bytes(t)) for n in range(0, 4)
                                        for t in itertools.product(alpha, repeat=n)]
    if not full:
        strings = r.sample(strings, min(len(strings), 150))
    for v in valid[:10 if not full else 60]:
        strings.append(("valid", v))
        strings += mutations(v, r, False)[:: (4 if not full else 1)]
    det = {"layer": model["name"], "mode": mode}
    nsvc = len(model["requests"])
    for cls, b in strings:
        n_call += 1
        judge(col, "layer.decode", mode, cls, layer.decode, (b,), 4 * nsvc, b, det,
              count_steps=(n_call % 16 == 0))
        if valid:
            rqb = valid[n_call % len(valid)]
            judge(col, "layer.decode_response", mode, cls, layer.decode_response, (b, rqb), 4 * nsvc,
                  b, dict(det, request=rqb))
    for svc in list(layer.services)[:20]:
        for cls, b in strings[::7]:
            judge(col, "service.decode_message", mode, cls, svc.decode_message, (b,), 20, b,
                  dict(det, service=svc.short_name))
    col.sample({"mode": mode, "layer": model["name"], "byte_strings_for_layer": len(strings),
                "example": strings[len(strings) // 2][1].hex() if strings else ""}, limit=4)


def run_somersault(task: Tuple, col: common.Collector) -> None:
    tier, wseed, part, nparts = task
    import odxtools
    r = random.Random(wseed)
    db = odxtools.load_pdx_file(os.path.join(common.REPO, "examples", "somersault.pdx"))
    n_call = 0
    for layer in db.diag_layers:
        services = [s for i, s in enumerate(layer.services) if i % nparts == part]
        seeds: List[bytes] = []
        for svc in services:
            try:
                prefix = bytes(svc.request.coded_const_prefix()) if svc.request else b""
            except Exception:
                prefix = b""
            seeds.append(prefix)
            for _ in range(3):
                seeds.append(prefix + bytes(r.getrandbits(8) for _ in range(r.randrange(0, 12))))
            for resp in list(svc.positive_responses) + list(svc.negative_responses):
                try:
                    rp = bytes(resp.coded_const_prefix(request_prefix=prefix))
                except Exception:
                    rp = b""
                seeds.append(rp + bytes(r.getrandbits(8) for _ in range(r.randrange(0, 12))))
        blobs: List[Tuple[str, bytes]] = []
        for s in seeds:
            blobs.append(("prefixed-random", s))
            blobs += mutations(s, r, tier == "thorough")[:: (5 if tier == "quick" else 1)]
        for _ in range(200 if tier == "quick" else 5000):
            blobs.append(("random", bytes(r.getrandbits(8) for _ in range(r.randrange(0, 24)))))
        det = {"database": "somersault.pdx", "layer": layer.short_name}
        for cls, b in blobs:
            n_call += 1
            judge(col, "layer.decode", "somersault", cls, layer.decode, (b,), 200, b, det,
                  count_steps=(n_call % 32 == 0))
            rq = seeds[n_call % len(seeds)] if seeds else b"\x10"
            judge(col, "layer.decode_response", "somersault", cls, layer.decode_response, (b, rq),
                  200, b, dict(det, request=rq))
        for svc in services:
            for cls, b in blobs[::9]:
                judge(col, "service.decode_message", "somersault", cls, svc.decode_message, (b,),
                      40, b, dict(det, service=svc.short_name))
                if svc.request is not None:
                    judge(col, "request", "somersault", cls, svc.request.decode, (b,), 40, b,
                          dict(det, service=svc.short_name))
                for resp in svc.positive_responses:
                    judge(col, "response", "somersault", cls, resp.decode, (b,), 40, b,
                          dict(det, service=svc.short_name, response=resp.short_name))
    col.count("somersault-parts")


def unimplemented_layer() -> Dict[str, Any]:
    """Parameter kinds that ODX defines and the parser reads, but whose coding odxtools does not
    implement (DYNAMIC, TABLE-ENTRY): a description using them is still 'a description'."""
    from ..odxgen import dct_std, dop, p_value, u8const
    dobjs = [dop("u8", dct_std("A_UINT32", 8)),
             {"t": "STRUCT", "name": "st", "params": [p_value("a", "u8")]},
             {"t": "TABLE", "name": "tab", "key_dop": "u8", "semantic": "X",
              "rows": [{"name": "r1", "key": 1, "struct": "st"}]}]
    rqs = [{"name": "rq_dyn", "shape": "DYNAMIC-param", "feat": {"shape": "DYNAMIC-param"},
            "params": [u8const("sid", 0x22), {"p": "DYNAMIC", "name": "d", "byte": None, "bit": None},
                       p_value("x", "u8")]},
           {"name": "rq_te", "shape": "TABLE-ENTRY-param", "feat": {"shape": "TABLE-ENTRY-param"},
            "params": [u8const("sid", 0x23),
                       {"p": "TABLE-ENTRY", "name": "te", "byte": None, "bit": None,
                        "row": ("tab", "r1"), "target": "KEY"}, p_value("x", "u8")]},
           {"name": "rq_plain", "shape": "plain", "feat": {"shape": "plain"},
            "params": [u8const("sid", 0x24), p_value("x", "u8")]}]
    return {"kind": "BASE-VARIANT", "name": "unimplemented", "dobjs": dobjs, "requests": rqs,
            "pos": [], "neg": [], "gneg": [],
            "services": [{"name": "svc_" + r["name"], "request": r["name"], "pos": [], "neg": []}
                         for r in rqs]}


def run_unimplemented(task: Tuple, col: common.Collector) -> None:
    from .. import odxgen
    model = unimplemented_layer()
    try:
        layer = odxgen.load_layer(model)
    except Exception as e:
        col.fail_inconclusive(f"layer with DYNAMIC / TABLE-ENTRY parameters does not load: {e}")
        return
    for svc in layer.services:
        rq = svc.request
        shape = next(m["shape"] for m in model["requests"] if m["name"] == rq.short_name)
        sid = next(m["params"][0]["value"] for m in model["requests"] if m["name"] == rq.short_name)
        det = {"layer": "unimplemented", "request": rq.short_name}
        for b in (bytes([sid, 1, 2]), bytes([sid, 1]), bytes([sid]), bytes([sid, 1, 2, 3, 4])):
            judge(col, "request", shape, "valid", rq.decode, (b,), 4, b, det)
            judge(col, "layer.decode", shape, "valid", layer.decode, (b,), 12, b, det)
            judge(col, "service.decode_message", shape, "valid", svc.decode_message, (b,), 4, b, det)
    col.count("unimplemented-kinds-probed")


def run_snoop(task: Tuple, col: common.Collector) -> None:
    """the snoop tool's handler as a caller of DiagLayer.decode / decode_response"""
    kind, arg, tier, wseed = task
    from .. import snoopleg
    r = random.Random(wseed)
    n = 400 if tier == "quick" else 6000
    if kind == "somersault":
        import odxtools
        db = odxtools.load_pdx_file(os.path.join(common.REPO, "examples", "somersault.pdx"))
        for layer in db.diag_layers:
            if not any(svc.request is not None for svc in layer.services):
                continue
            snoopleg.drive(col, layer, snoopleg.somersault_stream(layer, r, n), "somersault",
                           {"database": "somersault.pdx", "layer": layer.short_name})
    else:
        try:
            ll = codecrun.LoadedLayer(arg)
        except Exception as e:
            col.fail_inconclusive(f"generated layer {arg['name']} does not load: {e}")
            return
        snoopleg.drive(col, ll.layer, snoopleg.somersault_stream(ll.layer, r, n), "generated",
                       {"layer": arg})


def run(tier: str, col: common.Collector) -> None:
    seed = common.seed()
    tasks: List[Tuple] = []
    glayers = codecgen.grid_layers(tier, seed, per_layer=50)
    if tier == "quick":
        glayers = glayers[::2]
    for i, m in enumerate(glayers):
        tasks.append(("grid", m, tier, seed * 100003 + i))
    for i, m in enumerate(codeccompose.layers(tier, seed)):
        tasks.append(("compose", m, tier, seed * 100019 + i))
    from .c01 import extra_layer
    tasks.append(("compose", extra_layer(), tier, seed + 5))
    common.pmap(run_layer, tasks, col)
    common.pmap(run_somersault, [(tier, seed * 31 + p, p, 8) for p in range(8)], col)
    from . import c06
    r6 = random.Random(seed * 17 + 3)
    specs = c06.gen_specs("quick", r6)
    specs = r6.sample(specs, 24 if tier == "quick" else 200)
    stasks: List[Tuple] = [("somersault", None, tier, seed * 7 + 1)]
    for i, sp in enumerate(specs):
        stasks.append(("generated", c06.build_layer(i, [(s, list(c)) for s, c in sp], r6, i % 3), tier,
                       seed * 13 + i))
    common.pmap(run_snoop, stasks, col)
    common.pmap(run_unimplemented, [(tier,)], col)
    for need in ("cell:STD", "cell:MINMAX", "cell:LEAD", "cell:compose", "somersault-parts",
                 "step-counted-calls", "outcome:returned", "outcome:DecodeError",
                 "snoop:request", "snoop:response", "snoop:tester", "snoop:unrecognized",
                 "snoop:pending"):
        if not col.counters.get(need):
            col.fail_inconclusive(f"monitor counter {need} stayed at zero")


def replay(w: Dict[str, Any], col: common.Collector) -> None:
    if "message" not in w:
        col.fail_inconclusive("layer-level witness: re-run the tier with the same seed")
        return
    msg = w["message"]
    model = {"kind": "BASE-VARIANT", "name": "replay", "dobjs": w.get("dobjs", []),
             "requests": [msg], "pos": [], "neg": [], "gneg": [],
             "services": [{"name": "svc", "request": msg["name"], "pos": [], "neg": []}]}
    ll = codecrun.LoadedLayer(model)
    b = w["bytes"]
    k2, _ = codecrun.ref_decode(ll.ref, msg, b)
    judge(col, "request", "replay", "replay", ll.requests[msg["name"]].decode, (b,), 50, b,
          {"message": msg, "dobjs": w.get("dobjs", [])}, ref_short=(k2 == "short"))
