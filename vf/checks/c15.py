"""C15 - communication parameters resolve to the most specific definition.

Events (public API only): layer.comparam_refs, layer.get_comparam(name, protocol=..),
instance.get_value() / get_subvalue(name), and every typed accessor of HierarchyElement.
Oracle: an independent reference (`Ref`) computed from the description model alone:
table keyed by (subset, comparam id, protocol) filled from the lowest ranked parent to the
highest, then locally; lookup prefers the protocol specific entry; empty / omitted values
and sub-values resolve to the PHYSICAL-DEFAULT-VALUE of the specification; typed accessors
are int(content) / float(content) * 1e-6 / the number after "TX_DL=".
"""
from __future__ import annotations

import math
import re
import warnings
from typing import Any, Dict, List, Optional, Set, Tuple

from .. import c15gen, common, odxgen
from ..c15gen import RANK, TABLE

PROPERTY = "C15"
LEVEL = "exploration"
RULE = ("hand-made set-ups + random hierarchies (1-2 PROTOCOLs, optional FUNCTIONAL-GROUP / "
        "BASE-VARIANT / ECU-VARIANT, parents = non-empty subset of the lower ranked layers, "
        "optional ECU-SHARED-DATA parent) x COMPARAM-REF placements of the 13 parameters read by "
        "the typed accessors (two COMPARAM-SUBSETs: CAN and DoIP, both with a complex "
        "CP_UniqueRespIdTable) x qualifier {none, PROTOCOL-SNREF of a reachable protocol, several "
        "qualifiers in one layer} x value {present, empty, element omitted; complex: full, empty "
        "sub-values, trailing sub-values omitted, <COMPLEX-VALUE/>, element omitted}; every layer "
        "is judged: table, get_comparam for every name x {None, each protocol as str and object, "
        "unknown protocol}, get_value / get_subvalue of every instance, every typed accessor x "
        "the same protocol arguments. Distinct = distinct (hierarchy, placement, value-kind) "
        "structure; non-trivial = at least one layer inherits or overrides a parameter")
MIN_EVALS = {"quick": 200000, "thorough": 20000000}
ASSUMPTIONS = [
    "priority among parents = PROTOCOL < FUNCTIONAL-GROUP < BASE-VARIANT < ECU-VARIANT; both "
    "the recursive reading (a parent's whole table counts with the parent's rank) and the "
    "'most specific defining layer wins' reading are accepted; parents of equal rank that carry "
    "the same key are a tie, either is accepted",
    "get_comparam(name, protocol=None) may return any entry of that name; with several protocol "
    "specific (or several generic) entries of one short name any of them is accepted",
    "what an accessor returns when its parameter (or sub-parameter) is not defined is not judged, "
    "only that no exception foreign to odxtools escapes; get_can_baudrate / get_can_fd_baudrate "
    "may also return None when the layer does not certainly use CAN / CAN-FD",
    "a COMPLEX-PHYSICAL-DEFAULT-VALUE, when emitted, repeats the sub-parameters' own defaults",
    "the value element of COMPARAM-REF is optional (ODX 2.2 schema: choice minOccurs=0)",
]

J = Dict[str, Any]
Key = Tuple[str, str, Optional[str]]  # (subset, comparam id, protocol)

# accessor, parameter short name, sub-parameter or None, numeric kind
ACCESSORS: List[Tuple[str, str, Optional[str], str]] = [
    ("get_can_receive_id", TABLE, "CP_CanPhysReqId", "int"),
    ("get_can_send_id", TABLE, "CP_CanRespUSDTId", "int"),
    ("get_can_func_req_id", "CP_CanFuncReqId", None, "int"),
    ("get_can_baudrate", "CP_Baudrate", None, "int"),
    ("get_can_fd_baudrate", "CP_CANFDBaudrate", None, "int"),
    ("get_max_can_payload_size", "CP_CANFDTxMaxDataLength", None, "txdl"),
    ("get_doip_logical_ecu_address", TABLE, "CP_DoIPLogicalEcuAddress", "int"),
    ("get_doip_logical_gateway_address", "CP_DoIPLogicalGatewayAddress", None, "int"),
    ("get_doip_logical_tester_address", "CP_DoIPLogicalTesterAddress", None, "int"),
    ("get_doip_logical_functional_address", "CP_DoIPLogicalFunctionalAddress", None, "int"),
    ("get_doip_routing_activation_timeout", "CP_DoIPRoutingActivationTimeout", None, "us"),
    ("get_doip_routing_activation_type", "CP_DoIPRoutingActivationType", None, "int"),
    ("get_tester_present_time", "CP_TesterPresentTime", None, "us"),
]
# further parameters an accessor consults (for naming the cause of a failure only)
SECONDARY = {
    "get_can_fd_baudrate": [(TABLE, "CP_CanPhysReqId"), ("CP_CANFDTxMaxDataLength", None)],
    "get_max_can_payload_size": [(TABLE, "CP_CanPhysReqId")],
}
PLACEMENT_CELLS = ["simple-present", "simple-empty", "simple-omitted", "complex-full",
                   "complex-sub-empty", "complex-sub-omitted", "complex-omitted"]
REQUIRED_CELLS = (["acc-num:" + a[0] for a in ACCESSORS] +
                  ["placement:" + p for p in PLACEMENT_CELLS] +
                  ["qual:generic", "qual:protocol", "table:inherited", "table:override-closer-layer",
                   "table:override-parent-rank", "lookup:specific-and-generic",
                   "lookup:generic-fallback", "lookup:foreign-protocol", "lookup:dont-care",
                   "default:value-empty", "default:subvalue-empty", "default:subvalue-omitted"])
ALL_NAMES = sorted(set(c15gen.CAN_SIMPLE + c15gen.DOIP_SIMPLE + [TABLE]))


# ---------------------------------------------------------------------------
# reference


def vt(value: Any, is_complex: bool) -> Any:
    """Hashable form of a value.  How an omitted value element or an empty complex value is
    represented in `.value` is not prescribed: None, "", [] all read as "nothing given"."""
    if value is None or len(value) == 0:
        return ""
    if isinstance(value, (list, tuple)):
        return tuple(vt(x, isinstance(x, (list, tuple))) for x in value)
    return value


def placement_kind(ref: J, spec: J) -> str:
    v = ref["value"]
    if not ref["complex"]:
        return "simple-omitted" if v is None else ("simple-present" if v else "simple-empty")
    if v is None:
        return "complex-omitted"
    if len(v) < len(spec["subs"]):
        return "complex-sub-omitted"
    return "complex-sub-empty" if "" in v else "complex-full"


def numeric(kind: str, content: str) -> Any:
    if kind == "int":
        return int(content)
    if kind == "us":
        return float(content) * 1e-6
    m = re.search(r"TX_DL\s*=\s*([0-9]+)", content)
    return int(m.group(1)) if m else None


def same_number(kind: str, got: Any, exp: Any) -> bool:
    if isinstance(got, bool) or not isinstance(got, (int, float)):
        return False
    if kind == "us":
        return math.isclose(float(got), exp, rel_tol=1e-9, abs_tol=1e-15)
    return got == exp and isinstance(got, int)


class Ref:
    """Independent model of comparam resolution for one description model."""

    def __init__(self, model: J):
        self.model = model
        self.by = {l["name"]: l for l in model["layers"]}
        self.spec: Dict[Tuple[str, str], Tuple[J, bool]] = {}
        for s in model["subsets"]:
            for c in s["simple"]:
                self.spec[(s["name"], c["id"])] = (c, False)
            for c in s["complex"]:
                self.spec[(s["name"], c["id"])] = (c, True)
        self._a: Dict[str, Dict[Key, Set[Tuple[str, int]]]] = {}

    def hier_parents(self, name: str) -> List[str]:
        return [p for p in self.by[name]["parents"] if self.by[p]["kind"] in RANK]

    def rank(self, name: str) -> int:
        return RANK[self.by[name]["kind"]]

    def lineage(self, name: str) -> List[str]:
        seen: List[str] = []
        todo = [name]
        while todo:
            n = todo.pop()
            if n in seen:
                continue
            seen.append(n)
            todo += self.hier_parents(n)
        return seen

    @staticmethod
    def key(ref: J) -> Key:
        return (ref["subset"], ref["id"], ref["proto"])

    def local(self, name: str) -> Dict[Key, Set[Tuple[str, int]]]:
        res: Dict[Key, Set[Tuple[str, int]]] = {}
        for i, ref in enumerate(self.by[name].get("refs", [])):
            res.setdefault(self.key(ref), set()).add((name, i))
        return res

    def table_recursive(self, name: str) -> Dict[Key, Set[Tuple[str, int]]]:
        """lowest ranked parents first, equal rank = tie, then the local definitions"""
        if name in self._a:
            return self._a[name]
        tab: Dict[Key, Set[Tuple[str, int]]] = {}
        parents = self.hier_parents(name)
        for rk in sorted({self.rank(p) for p in parents}):
            group: Dict[Key, Set[Tuple[str, int]]] = {}
            for p in parents:
                if self.rank(p) == rk:
                    for k, s in self.table_recursive(p).items():
                        group.setdefault(k, set()).update(s)
            tab.update(group)
        tab.update(self.local(name))
        self._a[name] = tab
        return tab

    def table_specific(self, name: str) -> Dict[Key, Set[Tuple[str, int]]]:
        """the most specific (highest ranked) defining layer of the lineage wins"""
        best: Dict[Key, Tuple[int, Set[Tuple[str, int]]]] = {}
        for n in self.lineage(name):
            rk = self.rank(n)
            for k, s in self.local(n).items():
                if k not in best or best[k][0] < rk:
                    best[k] = (rk, set(s))
                elif best[k][0] == rk:
                    best[k][1].update(s)
        return {k: v[1] for k, v in best.items()}

    def accept(self, name: str) -> Dict[Key, Set[Tuple[str, int]]]:
        a = self.table_recursive(name)
        b = self.table_specific(name)
        return {k: set(a[k]) | set(b.get(k, ())) for k in a}

    def inst(self, iid: Tuple[str, int]) -> J:
        return self.by[iid[0]]["refs"][iid[1]]

    # -- values
    def content(self, subset: str, cid: str, value: Any, sub: Optional[str]) -> Tuple[Any, str]:
        """(resolved content or None when there is no such sub-parameter, kind)"""
        spec, is_complex = self.spec[(subset, cid)]
        if not is_complex:
            if sub is not None:
                return None, "no-such-sub"
            return (value, "present") if value else (spec["default"], "value-empty")
        names = [s["name"] for s in spec["subs"]]
        if sub not in names:
            return None, "no-such-sub"
        i = names.index(sub)
        v = value or ()
        if i >= len(v):
            return spec["subs"][i]["default"], "subvalue-omitted"
        if v[i] == "":
            return spec["subs"][i]["default"], "subvalue-empty"
        return v[i], "present"


# ---------------------------------------------------------------------------
# judging one model


def structure_key(model: J, ref: Ref) -> Tuple:
    lay = []
    for l in model["layers"]:
        refs = sorted((x["name"], x["subset"], x["proto"] or "",
                       placement_kind(x, ref.spec[(x["subset"], x["id"])][0]))
                      for x in l.get("refs", []))
        lay.append((l["name"], tuple(l["parents"]), tuple(refs)))
    return (model["bare_ids"], tuple(lay))


def judge_model(model: J, col: common.Collector, origin: str = "random") -> None:
    with warnings.catch_warnings():
        warnings.simplefilter("ignore")
        _judge_model(model, col, origin)


def _judge_model(model: J, col: common.Collector, origin: str) -> None:
    from odxtools.exceptions import OdxError
    ref = Ref(model)
    omitted = c15gen.has_omitted(model)

    def bad(sig: Tuple, **detail: Any) -> None:
        detail["model"] = model
        detail["origin"] = origin
        detail["signature"] = [str(x) for x in sig]
        col.violation(sig, detail)

    # ---- loading (every third model as two containers, the derived layers' document first)
    col.ev()
    split = (sum(len(l["name"]) for l in model["layers"]) + len(model["layers"])) % 3 == 0
    if split:
        col.count("models-loaded-from-two-containers")
    try:
        db = odxgen.load_xml(c15gen.emit_all(model, split=split))
    except Exception as e:
        if not omitted:
            bad(("load-raises", type(e).__name__, "values-present"),
                problem=f"loading raised {type(e).__name__}: {e}")
            return
        kinds = sorted({("complex" if x["complex"] else "simple")
                        for l in model["layers"] for x in l.get("refs", []) if x["value"] is None})
        bad(("load-raises", type(e).__name__, "value-omitted"),
            problem=f"a COMPARAM-REF without value element ({'/'.join(kinds)}) cannot be loaded: "
            f"{type(e).__name__}: {e}; expected: the default of the specification applies")
        col.ev()
        try:
            db = odxgen.load_xml(c15gen.emit_all(model, omitted_as_empty=True))
        except Exception as e2:
            bad(("load-raises", type(e2).__name__, "values-present"),
                problem=f"loading (omitted values written as empty) raised {type(e2).__name__}: {e2}")
            return
    for l in model["layers"]:
        for x in l.get("refs", []):
            col.count("placement:" + placement_kind(x, ref.spec[(x["subset"], x["id"])][0]))
            col.count("qual:generic" if x["proto"] is None else "qual:protocol")

    all_protocols = sorted(l["name"] for l in model["layers"] if l["kind"] == "PROTOCOL")
    proto_args: List[Tuple[str, Any, Optional[str]]] = [("none", None, None)]
    for p in all_protocols:
        proto_args.append(("str", p, p))
    for p in all_protocols:
        try:
            proto_args.append(("obj", db.protocols[p], p))
        except Exception:
            col.fail_inconclusive("protocol layer not found in the loaded database")
    proto_args.append(("unknown", "PX", "PX"))

    nontrivial = False
    for lm in model["layers"]:
        if lm["kind"] not in RANK:
            continue
        lname = lm["name"]
        try:
            layer = db.diag_layers[lname]
        except Exception:
            col.fail_inconclusive("layer not found in the loaded database")
            continue
        if ref.hier_parents(lname) and ref.accept(lname):
            nontrivial = True
        if not _judge_table(model, ref, lname, layer, col, bad):
            col.count("layers_skipped_after_table_violation")
            continue
        _judge_layer(ref, lname, layer, proto_args, col, bad, OdxError)
    if nontrivial:
        col.nontrivial(structure_key(model, ref))


def _observe(cp: Any) -> Tuple[Key, Any, str]:
    spec = cp.spec
    doc = spec.odx_id.doc_fragments[0].doc_name
    is_complex = not isinstance(cp.value, str)
    return (doc, spec.odx_id.local_id, cp.protocol_snref), vt(cp.value, is_complex), cp.short_name


def _judge_table(model: J, ref: Ref, lname: str, layer: Any, col: common.Collector,
                 bad: Any) -> bool:
    """layer.comparam_refs against the reference table. False = mismatch (layer not judged
    any further)."""
    accept = ref.accept(lname)
    strict = ref.table_recursive(lname)
    specific = ref.table_specific(lname)
    try:
        observed = [(_observe(cp), cp) for cp in layer.comparam_refs]
    except Exception as e:
        col.ev()
        bad(("comparam-refs-raises", type(e).__name__), layer=lname,
            problem=f"reading comparam_refs: {type(e).__name__}: {e}")
        return False
    obs_by_key: Dict[Key, List[Any]] = {}
    for (k, v, sn), cp in observed:
        obs_by_key.setdefault(k, []).append(v)
    ok = True
    lineage = ref.lineage(lname)
    for k, cands in sorted(accept.items(), key=lambda kv: repr(kv[0])):
        col.ev()
        exp_values = {vt(ref.inst(i)["value"], ref.inst(i)["complex"]): i for i in cands}
        got = obs_by_key.get(k, [])
        show = {"layer": lname, "key": list(k), "expected_any_of": [list(map(str, exp_values))],
                "observed_table": [[list(o[0][0]), o[0][1]] for o in observed]}
        # coverage bookkeeping
        definers = [n for n in lineage if k in ref.local(n)]
        if all(i[0] != lname for i in cands):
            col.count("table:inherited")
        if len(definers) > 1:
            win = {i[0] for i in strict[k]}
            losers = [n for n in definers if n not in win]
            if any(n in ref.lineage(w) for w in win for n in losers):
                col.count("table:override-closer-layer")
            if any(n not in ref.lineage(w) for w in win for n in losers):
                col.count("table:override-parent-rank")
        if len(strict[k]) > 1:
            col.count("table:tie-accepted")
        if strict[k] != specific.get(k):
            col.count("table:readings-differ")
        if len(got) == 1 and got[0] in exp_values:
            continue
        ok = False
        if not got:
            other_subset = [kk for kk in obs_by_key if kk[1] == k[1] and kk[2] == k[2] and kk[0] != k[0]]
            same_param = [kk for kk in obs_by_key if kk[0] == k[0] and kk[1] == k[1]]
            if other_subset:
                bad(("override-across-parameters", "same-id-other-subset"), **show,
                    problem=f"{k} is missing from comparam_refs; a parameter with the same ID "
                    f"of another COMPARAM-SUBSET took its place")
            elif same_param:
                bad(("override-across-protocols", "comparam_refs"), **show,
                    problem=f"{k} is missing from comparam_refs although the same parameter is "
                    f"present for another protocol qualifier")
            else:
                bad(("comparam-missing", "local" if any(i[0] == lname for i in cands)
                     else "inherited"), **show, problem=f"{k} is missing from comparam_refs")
            continue
        if len(got) > 1:
            bad(("comparam-duplicate", "comparam_refs"), **show,
                problem=f"{k} occurs {len(got)} times in comparam_refs")
            continue
        # one entry, but not the expected instance: where does it come from?
        src = [n for n in lineage for i, x in enumerate(ref.by[n].get("refs", []))
               if Ref.key(x) == k and vt(x["value"], x["complex"]) == got[0]]
        winners = {i[0] for i in cands}
        if src and all(any(s in ref.lineage(w) and s != w for w in winners) for s in src):
            bad(("override-ignored", "closer-layer"), **show,
                problem=f"{k}: comparam_refs carries the definition of {src}, which a closer "
                f"layer ({sorted(winners)}) overrides")
        elif src:
            bad(("override-ignored", "parent-rank"), **show,
                problem=f"{k}: comparam_refs carries the definition of {src}; the higher ranked "
                f"parent's ({sorted(winners)}) has priority")
        else:
            bad(("comparam-value-altered", "comparam_refs"), **show,
                problem=f"{k}: value {got[0]!r} is not a value defined for that key")
    for k in sorted(set(obs_by_key) - set(accept), key=repr):
        col.ev()
        ok = False
        bad(("comparam-extra", "comparam_refs"), layer=lname, key=list(k),
            problem=f"{k} is in comparam_refs but defined nowhere in the lineage")
    for (k, v, sn), cp in observed:
        if k[:2] in ref.spec and ref.spec[k[:2]][0]["name"] != sn:
            ok = False
            bad(("short-name-wrong", "instance"), layer=lname, key=list(k),
                problem=f"instance short_name {sn!r}")
    return ok


def _judge_layer(ref: Ref, lname: str, layer: Any, proto_args: List[Tuple[str, Any, Optional[str]]],
                 col: common.Collector, bad: Any, OdxError: Any) -> None:
    observed = [(_observe(cp), cp) for cp in layer.comparam_refs]
    entries = [{"key": k, "value": v, "name": sn, "cp": cp} for (k, v, sn), cp in observed]

    def lookup(name: str, p: Optional[str]) -> Tuple[List[J], List[J], List[J]]:
        """(acceptable entries, specific entries, generic entries)"""
        named = [e for e in entries if e["name"] == name]
        spec_e = [e for e in named if p is not None and e["key"][2] == p]
        gen_e = [e for e in named if e["key"][2] is None]
        if p is None:
            return named, spec_e, gen_e
        return (spec_e or gen_e), spec_e, gen_e

    def entry_of(cp: Any) -> Optional[J]:
        for e in entries:
            if e["cp"] is cp:
                return e
        return None

    def lookup_class(okl: List[J], spec_e: List[J], used: Optional[J], p: Optional[str]) -> str:
        if used is None:
            return "lookup-missing"
        if spec_e and used["key"][2] is None:
            return "generic-before-specific"
        if used["key"][2] not in (None, p):
            return "foreign-protocol-returned"
        return "lookup-wrong-entry"

    # ---- get_comparam
    for name in ALL_NAMES + ["CP_NoSuchParameter"]:
        for argkind, arg, p in proto_args:
            col.ev()
            okl, spec_e, gen_e = lookup(name, p)
            show = {"layer": lname, "call": f"get_comparam({name!r}, protocol={p!r} as {argkind})",
                    "table": [[list(e["key"]), e["value"]] for e in entries if e["name"] == name]}
            try:
                got = layer.get_comparam(name, protocol=arg)
            except Exception as e:
                bad(("get_comparam-raises", type(e).__name__), **show,
                    problem=f"{type(e).__name__}: {e}")
                continue
            if p is None:
                if len(okl) > 0:
                    col.count("lookup:dont-care")
            elif spec_e and gen_e:
                col.count("lookup:specific-and-generic")
            elif gen_e:
                col.count("lookup:generic-fallback")
            elif any(e["name"] == name for e in entries):
                col.count("lookup:foreign-protocol")
            if not okl:
                if got is not None:
                    used = entry_of(got)
                    cls = "foreign-protocol-returned" if used and used["name"] == name else \
                        "lookup-wrong-entry"
                    bad((cls, "get_comparam"), **show,
                        problem=f"expected None, got {used and [list(used['key']), used['value']]}")
                continue
            used = entry_of(got) if got is not None else None
            if got is not None and used is None:
                bad(("lookup-wrong-entry", "get_comparam"), **show,
                    problem="the returned instance is not an element of comparam_refs")
                continue
            if used is None or not any(used is e for e in okl):
                bad((lookup_class(okl, spec_e, used, p), "get_comparam"), **show,
                    problem=f"expected one of {[[list(e['key']), e['value']] for e in okl]}, got "
                    f"{used and [list(used['key']), used['value']]}")

    # ---- get_value / get_subvalue
    for e in entries:
        subset, cid, _ = e["key"]
        spec, is_complex = ref.spec[(subset, cid)]
        cp = e["cp"]
        if not is_complex:
            col.ev()
            exp, kind = ref.content(subset, cid, e["value"], None)
            if kind != "present":
                col.count("default:" + kind)
            show = {"layer": lname, "instance": [list(e["key"]), e["value"]],
                    "call": "get_value()", "expected": exp}
            try:
                got = cp.get_value()
            except Exception as ex:
                bad(("get_value-raises", type(ex).__name__, kind), **show,
                    problem=f"{type(ex).__name__}: {ex}")
                continue
            if got != exp:
                bad(("default-not-used", kind) if kind != "present" and not got else
                    ("value-wrong", kind), **show, problem=f"got {got!r}")
            continue
        for sub in spec["subs"]:
            if "nested" in sub:
                # a complex sub-parameter has no string value: what get_subvalue() makes of it
                # is left open; what counts is that the simple ones behind it keep their places
                col.count("complex-sub-parameter-in-spec")
                continue
            col.ev()
            exp, kind = ref.content(subset, cid, e["value"], sub["name"])
            if kind != "present":
                col.count("default:" + kind)
            show = {"layer": lname, "instance": [list(e["key"]), e["value"]],
                    "call": f"get_subvalue({sub['name']!r})", "expected": exp}
            try:
                got = cp.get_subvalue(sub["name"])
            except Exception as ex:
                bad(("get_subvalue-raises", type(ex).__name__, kind), **show,
                    problem=f"{type(ex).__name__}: {ex}")
                continue
            if got != exp:
                bad(("default-not-used", kind) if kind != "present" and not got else
                    ("subvalue-wrong", kind), **show, problem=f"got {got!r}")

    # ---- typed accessors
    # An accessor is judged against the reference.  A deviation is reported under the
    # accessor's own signature only if the primitives it is built on (get_comparam and
    # get_value / get_subvalue for the same arguments) behave correctly in this very
    # configuration; otherwise it is a consequence of a violation that has been reported
    # above and is merely counted ("cascade:..").
    prim_cache: Dict[Tuple[str, Optional[str], str, Optional[str]], Tuple[str, str]] = {}

    def primitive(name: str, sub: Optional[str], argkind: str, arg: Any,
                  p: Optional[str]) -> Tuple[str, str]:
        """(status, content kind); status: ok | undefined | lookup-broken | value-broken"""
        ck = (name, sub, argkind, p)
        if ck in prim_cache:
            return prim_cache[ck]
        okl = lookup(name, p)[0]
        used: Optional[J] = None
        res: Tuple[str, str]
        try:
            got = layer.get_comparam(name, protocol=arg)
            used = entry_of(got) if got is not None else None
            broken = got is not None and used is None
        except Exception:
            broken = True
        if broken:
            res = ("lookup-broken", "undefined")
        elif not okl:
            res = ("undefined", "undefined") if used is None else ("lookup-broken", "undefined")
        elif used is None or not any(used is e for e in okl):
            res = ("lookup-broken", "undefined")
        else:
            exp, kind = ref.content(used["key"][0], used["key"][1], used["value"], sub)
            if exp is None:
                res = ("ok", kind)
            else:
                try:
                    val = used["cp"].get_value() if sub is None else used["cp"].get_subvalue(sub)
                    res = ("ok", kind) if val == exp else ("value-broken", kind)
                except Exception:
                    res = ("value-broken", kind)
        prim_cache[ck] = res
        return res

    for acc, pname, sub, nkind in ACCESSORS:
        fn = getattr(layer, acc, None)
        if fn is None:
            col.fail_inconclusive(f"accessor {acc} does not exist any more")
            continue
        for argkind, arg, p in proto_args:
            col.ev()
            okl, spec_e, gen_e = lookup(pname, p)
            # expected numbers
            exp_nums: List[Any] = []
            silent = not okl
            for e in okl:
                c, kind = ref.content(e["key"][0], e["key"][1], e["value"], sub)
                if c is None:
                    silent = True  # no such sub-parameter: not judged
                else:
                    exp_nums.append(numeric(nkind, c))
            none_ok = False
            if acc in ("get_can_baudrate", "get_can_fd_baudrate"):
                tl, _, _ = lookup(TABLE, p)
                can_certain = bool(tl) and all(
                    ref.content(e["key"][0], e["key"][1], e["value"], "CP_CanPhysReqId")[0]
                    is not None for e in tl)
                none_ok = not can_certain
                if acc == "get_can_fd_baudrate" and not none_ok:
                    fl, _, _ = lookup("CP_CANFDTxMaxDataLength", p)
                    none_ok = not (fl and all(isinstance(e["value"], str) and "CANFD" in e["value"]
                                              for e in fl))
            # the primitives this accessor is built on, and the cause token
            prim = [(pname, sub) + primitive(pname, sub, argkind, arg, p)]
            for sname, ssub in SECONDARY.get(acc, []):
                prim.append((sname, ssub) + primitive(sname, ssub, argkind, arg, p))
            cascade = [f"{n}:{st}" for n, _, st, _ in prim if st.endswith("-broken")]
            cause = prim[0][3]
            if cause in ("present", "undefined", "no-such-sub"):
                for n, sb, st, kd in prim[1:]:
                    if kd not in ("present", "undefined", "no-such-sub"):
                        cause += f"+{sb or n}:{kd}"
                        break
            show = {"layer": lname, "call": f"{acc}(protocol={p!r} as {argkind})",
                    "parameter": pname, "sub": sub,
                    "table": [[list(e["key"]), e["value"]] for e in entries
                              if e["name"] in [pname] + [s for s, _ in SECONDARY.get(acc, [])]],
                    "expected_any_of": None if silent else exp_nums, "none_accepted": none_ok}
            try:
                got = fn(protocol=arg)
            except Exception as ex:
                if silent and isinstance(ex, OdxError):
                    col.count("acc-silent")
                elif cascade:
                    col.count(f"cascade:{acc}:{type(ex).__name__}")
                else:
                    bad(("accessor-raises", type(ex).__name__, acc, cause), **show,
                        problem=f"{type(ex).__name__}: {ex}")
                continue
            if silent:
                col.count("acc-silent")
                continue
            col.count("acc-num:" + acc)
            if got is None and none_ok:
                col.count("acc-none-accepted")
                continue
            if any(same_number(nkind, got, x) for x in exp_nums):
                continue
            if cascade:
                col.count(f"cascade:{acc}:wrong-result")
                continue
            gen_nums = [numeric(nkind, ref.content(e["key"][0], e["key"][1], e["value"], sub)[0])
                        for e in gen_e
                        if ref.content(e["key"][0], e["key"][1], e["value"], sub)[0] is not None]
            if (p is not None and spec_e and cause == "present" and
                    any(same_number(nkind, got, x) for x in gen_nums)):
                bad(("generic-before-specific", acc), **show, problem=f"got {got!r}")
            elif got is None:
                bad(("accessor-returns-none", acc, cause), **show, problem="got None")
            else:
                bad(("accessor-wrong-number", acc, cause), **show, problem=f"got {got!r}")


# ---------------------------------------------------------------------------
# driver


def part_random(task: Tuple[int, int], col: common.Collector) -> None:
    worker, count = task
    r = common.rng(worker, "c15")
    for n in range(count):
        model = c15gen.gen_model(r)
        judge_model(model, col)
        if n < 1 and worker < 3:
            col.sample({"layers": [{"name": l["name"], "kind": l["kind"], "parents": l["parents"],
                                    "refs": [[x["name"], x["proto"], x["value"]]
                                             for x in l.get("refs", [])][:6]}
                                   for l in model["layers"]]}, limit=3)


def part_directed(task: int, col: common.Collector) -> None:
    for i, m in enumerate(c15gen.directed_models()):
        judge_model(m, col, origin=f"directed-{i}")


def run(tier: str, col: common.Collector) -> None:
    common.pmap(part_directed, [0], col)
    per_worker = 600 if tier == "quick" else 10000
    common.pmap(part_random, [(w, per_worker) for w in range(common.NCPU)], col)
    col.notes["models"] = per_worker * common.NCPU + len(c15gen.directed_models())
    col.notes["cascade_counters"] = (
        "cascade:<accessor>:<what> = deviations of a typed accessor that are consequences of a "
        "get_comparam / get_value / get_subvalue violation reported for the same arguments; "
        "they are counted, not reported under a signature of their own")
    for cell in REQUIRED_CELLS:
        if not col.counters.get(cell):
            col.fail_inconclusive(f"feature cell '{cell}' was never evaluated")


def replay(w: Dict[str, Any], col: common.Collector) -> None:
    """Re-judge the stored model; only the witness's own mechanism is reported again."""
    tmp = common.Collector()
    judge_model(w["model"], tmp, origin="replay")
    want = tuple(str(x) for x in w.get("signature", []))
    col.ev(tmp.evaluations)
    for r in tmp.inconclusive:
        col.fail_inconclusive(r)
    for sig, ent in tmp.violations.items():
        if not want or sig == want:
            for d in ent["witnesses"]:
                col.violation(sig, d)
