"""C16 - NamedItemList keeps its list view and its name view consistent.

Monitor: shadow model (plain python list advanced by the same operation) + public-view
invariant (monitors.nil_public_view_problem) evaluated after every operation of a history,
plus the icontract class invariant attached to the real class (fires inside the real
methods, also for nested calls such as extend -> append).
Workload: all histories up to depth D over a small hostile item alphabet (pruned by the
observable state), then long random histories.
"""
from __future__ import annotations

import copy
import pickle
import random
from dataclasses import dataclass, field
from typing import Any, Dict, List, Optional, Tuple

from .. import common, monitors

PROPERTY = "C16"
LEVEL = "exploration"
RULE = ("histories of list operations (append/insert/extend/remove/pop/clear/copy/deepcopy/"
        "pickle) over items with colliding, keyword, digit-leading and method-like short names; "
        "exhaustive to the stated depth with pruning by observable state, then random long "
        "histories; a case is distinct+non-trivial if it reaches a new observable state "
        "(sequence of item tags + name->item map) with at least one item")
MIN_EVALS = {"quick": 20000, "thorough": 200000}
ASSUMPTIONS = [
    "items are value-equal dataclasses like odxtools' own elements; identity is tracked by a "
    "tag that does not take part in equality",
]


@dataclass
class Item:
    short_name: str
    payload: int = 0
    tag: str = field(default="", compare=False)


NAMES = [("a", "a"), ("a", "a'"), ("b", "b"), ("copy", "copy"), ("append", "append"),
         ("keys", "keys"), ("class", "class"), ("1x", "1x"), ("x_", "x_"), ("a_2", "a_2"),
         ("_item_dict", "_item_dict")]
EXTRA_NAMES = ["items", "values", "get", "pop", "remove", "clear", "insert", "extend", "sort",
               "index", "count", "reverse", "for", "None", "2", "_", "__class__", "a_3", "a_",
               "a_2_2", "x_2", "short_name", "__dict__", "c", "d"]


def make_alphabet(n: int) -> List[Item]:
    return [Item(sn, 0, tag) for sn, tag in NAMES[:n]]


def state_key(nil: Any) -> Tuple:
    return (tuple(x.tag for x in nil), tuple((k, v.tag) for k, v in nil.items()))


def ops_for(alpha: List[Item]) -> List[Tuple]:
    ops: List[Tuple] = []
    for i in range(len(alpha)):
        ops.append(("append", i))
        ops.append(("insert0", i))
        ops.append(("insertmid", i))
        if i % 3 == 0:
            ops.append(("insertneg1", i))
        ops.append(("remove", i))
    ops += [("extend", 0, 1), ("extendgen", 2, 0), ("extenditer", 1, 1), ("extendnil", 1, 0),
            ("pop",), ("pop0",), ("popmid",), ("clear",),
            ("copy",), ("copycopy",), ("deepcopy",), ("pickle",), ("ctor",)]
    return ops


class Broken(Exception):

    def __init__(self, clause: str, text: str):
        self.clause = clause
        self.text = text


def apply_op(nil: Any, model: List[Item], op: Tuple, alpha: List[Item], cls: Any) -> Tuple[Any, List[Item]]:
    """Apply op to the real list and to the model; returns the (possibly replaced) pair."""
    kind = op[0]
    if kind == "append":
        nil.append(alpha[op[1]])
        model.append(alpha[op[1]])
    elif kind == "insert0":
        nil.insert(0, alpha[op[1]])
        model.insert(0, alpha[op[1]])
    elif kind == "insertmid":
        nil.insert(len(model) // 2, alpha[op[1]])
        model.insert(len(model) // 2, alpha[op[1]])
    elif kind == "insertend":
        nil.insert(len(model), alpha[op[1]])
        model.insert(len(model), alpha[op[1]])
    elif kind in ("insertneg1", "insertneg2", "insertfar"):
        # negative indexes count from the end (as for list.insert), out-of-range ones clamp
        idx = {"insertneg1": -1, "insertneg2": -2, "insertfar": -100}[kind]
        nil.insert(idx, alpha[op[1]])
        model.insert(idx, alpha[op[1]])
    elif kind == "extendself":
        # list.extend(self) doubles the list; it terminates
        # (only for short lists: the histories are meant to stay small, and making n names
        # unique is quadratic in the worst case)
        if len(model) <= 16:
            budget = 50000 + 5000 * len(model)
            if common.runs_beyond(lambda: nil.extend(nil), budget):
                raise Broken("extend-self-does-not-terminate",
                             f"extend() of a list of {len(model)} item(s) with the list itself was "
                             f"still running after {budget} source lines (list now has "
                             f"{len(nil)} items)")
            model.extend(list(model))
    elif kind in ("extend", "extendgen", "extenditer", "extendtuple", "extendnil"):
        # list.extend takes any iterable: a list, a tuple, and one-shot iterables
        xs = [alpha[i] for i in op[1:]]
        arg: Any = xs
        if kind == "extendgen":
            arg = (x for x in xs)
        elif kind == "extenditer":
            arg = iter(tuple(xs))
        elif kind == "extendtuple":
            arg = tuple(xs)
        elif kind == "extendnil":
            arg = cls(xs)  # a named item list itself (with names of its own for its items)
        nil.extend(arg)
        model.extend(xs)
    elif kind == "remove":
        x = alpha[op[1]]
        try:
            model.remove(x)
            expect_err = False
        except ValueError:
            expect_err = True
        try:
            nil.remove(x)
            if expect_err:
                raise Broken("remove-absent-accepted", "remove() of an absent item did not raise")
        except ValueError:
            if not expect_err:
                raise Broken("remove-present-raised", "remove() of a present item raised")
    elif kind in ("pop", "pop0", "popmid"):
        if not model:
            try:
                nil.pop()
                raise Broken("pop-empty-accepted", "pop() on an empty list did not raise")
            except IndexError:
                pass
        else:
            idx = {"pop": -1, "pop0": 0, "popmid": len(model) // 2}[kind]
            want = model.pop(idx)
            got = nil.pop() if kind == "pop" else nil.pop(idx)
            if got is not want:
                raise Broken("pop-wrong-item", "pop() returned a different item than list.pop")
    elif kind == "clear":
        nil.clear()
        model.clear()
    elif kind in ("copy", "copycopy", "ctor"):
        if kind == "copy":
            new = nil.copy()
        elif kind == "copycopy":
            new = copy.copy(nil)
        else:
            new = cls(list(nil))
        if new is nil:
            raise Broken("copy-aliases", f"{kind} returned the same object")
        check(new, list(model), kind + "-result")
        # the copy must not share mutable state with the original
        probe = Item("zz_probe", 0, "zz")
        before = state_key(nil)
        new.append(probe)
        if state_key(nil) != before:
            raise Broken("copy-shares-state", f"appending to the {kind} result changed the original")
        new.pop()
        check(new, list(model), kind + "-result-after-pop")
        if state_key(nil) != before:
            raise Broken("copy-shares-state", f"popping from the {kind} result changed the original")
        nil = new
        model = list(model)
    elif kind in ("deepcopy", "pickle"):
        new = copy.deepcopy(nil) if kind == "deepcopy" else pickle.loads(pickle.dumps(nil))
        if type(new) is not type(nil):
            raise Broken("copy-wrong-type", f"{kind} returned {type(new).__name__}")
        new_items = list(new)
        if len(new_items) != len(model):
            raise Broken("copy-wrong-length", f"{kind} changed the number of items")
        for old, nw in zip(model, new_items):
            if nw is old or nw != old or nw.tag != old.tag:
                raise Broken("deepcopy-items", f"{kind} did not produce equal, distinct items in order")
        # object sharing inside the list must be preserved consistently
        for i in range(len(model)):
            for j in range(i):
                if (model[i] is model[j]) != (new_items[i] is new_items[j]):
                    raise Broken("deepcopy-sharing", f"{kind} changed which positions share an object")
        nil = new
        model = new_items
    else:
        raise AssertionError(kind)
    return nil, model


_METHODS = ["append", "insert", "remove", "pop", "extend", "clear", "copy", "keys", "values",
            "items", "get", "index", "count", "sort", "reverse"]


def check(nil: Any, model: List[Item], where: str) -> None:
    monitors.COUNTS["c16_checks"] += 1
    items = list(nil)
    if len(items) != len(model) or any(a is not b for a, b in zip(items, model)):
        raise Broken("list-differs-from-model",
                     f"{where}: list holds {[x.tag for x in items]}, model {[x.tag for x in model]}")
    prob = monitors.nil_public_view_problem(nil)
    if prob is not None:
        raise Broken(prob[0], f"{where}: {prob[1]}")
    for m in _METHODS:
        v = getattr(nil, m, None)
        if not callable(v) or isinstance(v, Item):
            raise Broken("shadows-method", f"{where}: attribute {m!r} no longer is the method")
    for x in model:
        # every item is reachable by *some* name that is derived from its short name
        pass


def run_history(hist: List[Tuple], alpha: List[Item], cls: Any) -> Tuple[Any, List[Item], Optional[Tuple[int, Broken]]]:
    nil = cls()
    model: List[Item] = []
    ever: set = set()   # every name that has ever been a key of (this lineage of) the list
    for n, op in enumerate(hist):
        try:
            nil, model = apply_op(nil, model, op, alpha, cls)
            check(nil, model, f"after op {n} {op}")
            now = set(nil.keys())
            ever |= now
            for gone in ever - now:
                # a name that is no key any more must not lead to an item any more either
                if hasattr(nil, gone) and not callable(getattr(type(nil), gone, None)) and \
                        not hasattr(list, gone):
                    raise Broken("name-outlives-item", f"after op {n} {op}: '{gone}' is no key "
                                 f"any more but getattr(nil, '{gone}') still answers")
        except Broken as b:
            return nil, model, (n, b)
        except monitors.NilInvariantBroken as e:
            return nil, model, (n, Broken(str(e).split(":")[0], "class invariant (icontract): " + str(e)))
    return nil, model, None


def report(col: common.Collector, hist: List[Tuple], n: int, b: Broken, mode: str) -> None:
    col.violation((b.clause, hist[n][0]),
                  {"history": [list(o) for o in hist[:n + 1]], "failing_op_index": n,
                   "problem": b.text, "mode": mode,
                   "alphabet": [[sn, tag] for sn, tag in NAMES]})


def expand(task: Tuple) -> Tuple[common.Collector, Dict[Tuple, List[Tuple]]]:
    """Extend every history of the chunk by every operation; return the newly seen states."""
    hists, nalpha, want_states, with_icontract = task
    common.setup_paths()
    from odxtools.nameditemlist import NamedItemList
    # the icontract class invariant costs ~20x; it is attached for the shallow levels and for
    # the random histories, the deep levels rely on the model + public-view oracle alone
    attached = monitors.install_nil_invariant(raise_on_failure=True) if with_icontract else False
    col = common.Collector()
    alpha = make_alphabet(nalpha)
    ops = ops_for(alpha)
    new_states: Dict[Tuple, List[Tuple]] = {}
    for base in hists:
        for op in ops:
            hist = base + [op]
            nil, model, bad = run_history(hist, alpha, NamedItemList)
            col.ev(1)
            if bad is not None:
                if bad[0] == len(hist) - 1:
                    report(col, hist, bad[0], bad[1], "exhaustive")
                continue
            key = state_key(nil)
            if len(model) > 0:
                col.nontrivial(key)
            if want_states and key not in new_states:
                new_states[key] = hist
    col.notes["class_invariant_evaluations"] = monitors.COUNTS["nil_invariant_evals"]
    col.notes["model_checks"] = monitors.COUNTS["c16_checks"]
    monitors.COUNTS.clear()
    return col, new_states


def explore_levels(depth: int, nalpha: int, col: common.Collector) -> None:
    """Breadth-first over observable states: level k holds one history per distinct state."""
    from concurrent.futures import ProcessPoolExecutor
    seen: Dict[Tuple, int] = {((), ()): 0}
    frontier: List[List[Tuple]] = [[]]
    per_level = []
    # pass 1 (icontract attached, own processes): levels 1..2; pass 2 (plain): all levels
    with ProcessPoolExecutor(max_workers=common.NCPU) as ex:
        fr: List[List[Tuple]] = [[]]
        sn: set = {((), ())}
        for level in (1, 2):
            n = max(1, min(len(fr), common.NCPU * 2))
            nx: List[List[Tuple]] = []
            for c, states in ex.map(expand, [(fr[i::n], nalpha, True, True) for i in range(n)]):
                col.merge(c)
                for key, hist in states.items():
                    if key not in sn:
                        sn.add(key)
                        nx.append(hist)
            fr = nx
    with ProcessPoolExecutor(max_workers=common.NCPU) as ex:
        for level in range(1, depth + 1):
            last = level == depth
            n = max(1, min(len(frontier), common.NCPU * 4))
            chunks = [frontier[i::n] for i in range(n)]
            nxt: List[List[Tuple]] = []
            for c, states in ex.map(expand, [(ch, nalpha, not last, False) for ch in chunks]):
                col.merge(c)
                for key, hist in states.items():
                    if key not in seen:
                        seen[key] = level
                        nxt.append(hist)
            per_level.append({"level": level, "histories_extended": len(frontier),
                              "new_states": len(nxt)})
            frontier = nxt
            if not frontier and not last:
                break
    col.notes["levels"] = per_level
    col.notes["distinct_states_expanded"] = len(seen)
    col.sample({"example_history_reaching_a_deep_state": [list(o) for o in (frontier[-1] if frontier else [])],
                "depth": depth, "alphabet": [n for n, _ in NAMES[:nalpha]]})


def random_histories(task: Tuple, col: common.Collector) -> None:
    worker, count, length = task
    from odxtools.nameditemlist import NamedItemList
    attached = monitors.install_nil_invariant(raise_on_failure=True)
    r = common.rng(worker, "c16")
    for h in range(count):
        names = [n for n, _ in NAMES] + r.sample(EXTRA_NAMES, 8)
        alpha = [Item(sn, r.choice([0, 0, 1]), f"{sn}#{i}") for i, sn in enumerate(names)]
        # a value-equal twin of some items
        for i in range(4):
            src = r.choice(alpha)
            alpha.append(Item(src.short_name, src.payload, src.tag + "'"))
        kinds = ["append"] * 6 + ["insert0", "insertmid", "insertend", "insertneg1", "insertneg2",
                                  "insertfar", "remove", "remove", "pop",
                                  "pop0", "popmid", "extend", "extendgen", "extenditer",
                                  "extendtuple", "extendnil", "extendnil", "extendself",
                                  "copy", "copycopy", "ctor",
                                  "deepcopy", "pickle"] + (["clear"] if r.random() < 0.3 else [])
        hist: List[Tuple] = []
        for _ in range(length):
            k = r.choice(kinds)
            if k in ("append", "insert0", "insertmid", "insertend", "insertneg1", "insertneg2",
                     "insertfar", "remove"):
                hist.append((k, r.randrange(len(alpha))))
            elif k == "extendself":
                hist.append((k,))
            elif k.startswith("extend"):
                hist.append((k, r.randrange(len(alpha)), r.randrange(len(alpha))))
            else:
                hist.append((k,))
        # deepcopy/pickle replace the items, so later 'remove' ops refer to value-equal objects
        nil, model, bad = run_history(hist, alpha, NamedItemList)
        col.ev(len(hist) if bad is None else bad[0] + 1)
        if bad is not None:
            col.violation((bad[1].clause, hist[bad[0]][0]),
                          {"history": [list(o) for o in hist[:bad[0] + 1]],
                           "failing_op_index": bad[0], "problem": bad[1].text, "mode": "random",
                           "alphabet": [[x.short_name, x.tag] for x in alpha]})
        else:
            col.nontrivial(("rnd", state_key(nil)))
        if h == 0:
            col.sample({"random_history_prefix": [list(o) for o in hist[:12]],
                        "final_names": list(nil.keys())[:12]})
    col.notes["invariant_attached"] = 1 if attached else 0
    col.notes["class_invariant_evaluations"] = monitors.COUNTS["nil_invariant_evals"]
    col.notes["model_checks"] = monitors.COUNTS["c16_checks"]


def start_repo_suite() -> Any:
    """The repository's own tests, run with the icontract class invariant attached (pytest
    plugin vf.pytest_plugin): NamedItemList is used by every loaded database."""
    import os
    import subprocess
    import sys
    env = dict(os.environ, ODXTOOLS_VERIF="1",
               PYTHONPATH=os.pathsep.join([common.REPO, common.ROOT, common.DEPS]))
    tests = os.path.join(common.REPO, "tests")
    if not os.path.isdir(tests):
        return None
    return subprocess.Popen([sys.executable, "-m", "pytest", "-q", "-p", "no:cacheprovider", "-p",
                             "vf.pytest_plugin", tests], cwd=common.REPO, env=env,
                            stdout=subprocess.PIPE, stderr=subprocess.STDOUT, text=True)


def finish_repo_suite(p: Any, col: common.Collector) -> None:
    import re
    if p is None:
        col.notes["repo_suite_with_invariant"] = "tests directory not present"
        return
    try:
        out, _ = p.communicate(timeout=900)
    except Exception:
        p.kill()
        col.notes["repo_suite_with_invariant"] = "timed out"
        return
    m = re.search(r"invariant evaluations=(\d+) failures=(\d+)", out)
    if not m:
        col.notes["repo_suite_with_invariant"] = "plugin summary not found"
        return
    evals, fails = int(m.group(1)), int(m.group(2))
    col.notes["repo_suite_invariant_evaluations"] = evals
    col.ev(evals)
    if fails:
        lines = [l.strip() for l in out.splitlines() if "invariant broken" in l][:5]
        clause = lines[0].split("(")[1].split(",")[0].strip("'\" ") if lines else "unknown"
        col.violation((clause, "inside-repo-test-suite"),
                      {"problem": "class invariant fired while the repository's tests ran",
                       "failures": fails, "first": lines, "mode": "repo-suite",
                       "alphabet": [], "history": []})


def run(tier: str, col: common.Collector) -> None:
    suite = start_repo_suite()
    depth, nalpha = (4, 8) if tier == "quick" else (5, 4)
    explore_levels(depth, nalpha, col)
    nrand, length = (6, 100) if tier == "quick" else (120, 200)
    common.pmap(random_histories, [(w, nrand, length) for w in range(common.NCPU)], col)
    finish_repo_suite(suite, col)
    col.notes["exhaustive"] = True
    col.notes["depth"] = depth
    col.notes["alphabet_size"] = nalpha
    if not col.notes.get("invariant_attached"):
        col.fail_inconclusive("icontract class invariant could not be attached")
    if not col.notes.get("class_invariant_evaluations"):
        col.fail_inconclusive("class invariant was never evaluated")


def replay(w: Dict[str, Any], col: common.Collector) -> None:
    from odxtools.nameditemlist import NamedItemList
    monitors.install_nil_invariant(raise_on_failure=True)
    alpha = [Item(sn, 0, tag) for sn, tag in w["alphabet"]]
    if w.get("mode") in ("random", "repo-suite"):
        col.fail_inconclusive("random-mode witnesses are replayed by re-running with the same seed")
        return
    hist = [tuple(o) for o in w["history"]]
    nil, model, bad = run_history(hist, alpha, NamedItemList)
    col.ev(1)
    if bad is not None:
        report(col, hist, bad[0], bad[1], "replay")
