"""C18 - the comparison and listing tools report the true differences and counts.

Events : the dictionaries returned by Comparison.compare_diagnostic_layers(new, old) and
         Comparison.compare_databases(new, old); the rows of the table print_dl_metrics prints
         (captured through rich's console, 240 columns, no colour).
Oracle : metamorphic.  compare(X, X') with X' an identical second load is empty in every
         category.  ONE edit is applied to the XML of one side (add / delete / rename a service,
         change BYTE-POSITION, BIT-LENGTH, CODED-VALUE, SEMANTIC, BASE-DATA-TYPE or DOP-REF of one
         parameter of a request / positive / negative response that a service refers to); the
         category of that edit must list exactly the services whose definition was touched (and
         name the parameter), every other category must stay empty.  Both orientations are
         judged (edited side is the "new" input, edited side is the "old" input).
         compare_databases must agree with the per-layer comparison.
         Metrics row == (len(layer.services), len(ddds.data_object_props),
         len(layer.comparam_refs)); for generated layers also == the counts in the XML.
Workload: generated containers (1-2 BASE-VARIANT layers of 1-6 services, 2-6 DOPs, 0-5
         COMPARAM-REFs) and the shipped somersault.pdx (inheritance, tables, shared responses);
         every applicable single edit of every service / parameter is enumerated on the XML.
         The two sides of every comparison are two separate loads.
"""
from __future__ import annotations

import io
import os
import re
import shutil
import tempfile
import warnings
import zipfile
from typing import Any, Dict, Iterable, List, Optional, Sequence, Set, Tuple
from xml.etree import ElementTree as ET

from .. import common
from .. import odxgen as G

_SESSION = None
_SESSION_DB = None
_SESSION_CALLS = 0

PROPERTY = "C18"
LEVEL = "exploration"
RULE = ("generated ODX containers (1-2 base variants x 1-6 services; requests = 1-2 CODED-CONST + "
        "0-3 VALUE parameters, 1-2 positive and 0-2 negative responses (private or shared), 2-6 "
        "DOPs of different types, 0-5 COMPARAM-REFs, implicit or explicit byte positions) plus "
        "examples/somersault.pdx; for each: self comparison of two separate loads, the metrics "
        "table, and EVERY applicable single edit {add, delete, rename service; BYTE-POSITION, "
        "BIT-LENGTH (shrink/grow), CODED-VALUE, SEMANTIC, BASE-DATA-TYPE, DOP-REF of each "
        "parameter of each referenced request/pos/neg response; in-place type change of each "
        "used DOP} applied to the XML of one side, judged in both orientations through "
        "compare_diagnostic_layers and compare_databases. Distinct = (container, edit, "
        "orientation); non-trivial = the edited XML differs from the original and loads")
MIN_EVALS = {"quick": 20000, "thorough": 800000}
ASSUMPTIONS = [
    "compare_databases is used the way the CLI uses it: Comparison.diagnostic_layer_names is "
    "set to the names of all layers of both databases",
    "services of one layer have pairwise distinct constant request prefixes and an edit never "
    "makes two prefixes equal (the tool documents that it pairs services by name and prefix)",
    "a parameter edit of a response shared by several services is expected for all of them",
    "for somersault (inheritance) the set of services of a layer and the messages they refer "
    "to are taken from odxtools' own layer.services on both sides",
    "only edits that keep the description valid are generated (no overlapping parameters, "
    "constant still fits its bit length and data type)",
]

XSI = "http://www.w3.org/2001/XMLSchema-instance"
XT = "{%s}type" % XSI
ET.register_namespace("xsi", XSI)

LAYER_TAGS = ("PROTOCOL", "FUNCTIONAL-GROUP", "ECU-SHARED-DATA", "BASE-VARIANT", "ECU-VARIANT")
MSGS = (("request", "REQUESTS", "REQUEST"), ("pos", "POS-RESPONSES", "POS-RESPONSE"),
        ("neg", "NEG-RESPONSES", "NEG-RESPONSE"))
MSG_WORD = {"request": "request", "pos": "positive response", "neg": "negative response"}
CATS = ("new_services", "deleted_services", "changed_name_of_service",
        "changed_parameters_of_service")
PARAM_ATTRS = ("byte-position", "bit-length", "coded-value", "semantic", "data-type",
               "linked-dop")
CHILD_ORDER = ["SHORT-NAME", "LONG-NAME", "DESC", "ADMIN-DATA", "COMPANY-DATAS", "FUNCT-CLASSS",
               "DIAG-DATA-DICTIONARY-SPEC", "DIAG-COMMS", "REQUESTS", "POS-RESPONSES",
               "NEG-RESPONSES", "GLOBAL-NEG-RESPONSES"]

# ---------------------------------------------------------------------------
# a tiny COMPARAM-SUBSET document for generated layers with COMPARAM-REFs

CPS_ID = "VF_CPS"
NCOMPARAM = 6


def cps_xml() -> str:
    cps = "".join(
        f'<COMPARAM ID="{CPS_ID}.CP_{i}" PARAM-CLASS="TIMING" CPTYPE="STANDARD" '
        f'CPUSAGE="ECU-COMM"><SHORT-NAME>CP_{i}</SHORT-NAME>'
        f'<PHYSICAL-DEFAULT-VALUE>{i}</PHYSICAL-DEFAULT-VALUE>'
        f'<DATA-OBJECT-PROP-REF ID-REF="{CPS_ID}.DOP.u32"/></COMPARAM>' for i in range(NCOMPARAM))
    return ('<?xml version="1.0" encoding="UTF-8" standalone="no" ?>\n'
            f'<ODX MODEL-VERSION="2.2.0" xmlns:xsi="{XSI}" '
            'xsi:noNamespaceSchemaLocation="odx.xsd">'
            f'<COMPARAM-SUBSET ID="{CPS_ID}" CATEGORY="VF"><SHORT-NAME>{CPS_ID}</SHORT-NAME>'
            f'<COMPARAMS>{cps}</COMPARAMS><DATA-OBJECT-PROPS>'
            f'<DATA-OBJECT-PROP ID="{CPS_ID}.DOP.u32"><SHORT-NAME>u32</SHORT-NAME>'
            '<COMPU-METHOD><CATEGORY>IDENTICAL</CATEGORY></COMPU-METHOD>'
            '<DIAG-CODED-TYPE BASE-DATA-TYPE="A_UINT32" xsi:type="STANDARD-LENGTH-TYPE">'
            '<BIT-LENGTH>32</BIT-LENGTH></DIAG-CODED-TYPE>'
            '<PHYSICAL-TYPE BASE-DATA-TYPE="A_UINT32"/></DATA-OBJECT-PROP></DATA-OBJECT-PROPS>'
            '</COMPARAM-SUBSET></ODX>')


def comparam_refs_xml(idxs: Sequence[int]) -> str:
    if not idxs:
        return ""
    return "<COMPARAM-REFS>" + "".join(
        f'<COMPARAM-REF ID-REF="{CPS_ID}.CP_{i}" DOCREF="{CPS_ID}" DOCTYPE="COMPARAM-SUBSET">'
        f'<SIMPLE-VALUE>{100 + i}</SIMPLE-VALUE></COMPARAM-REF>' for i in idxs) + "</COMPARAM-REFS>"


# ---------------------------------------------------------------------------
# generator (dict model of odxgen)

DOP_POOL = [("u8", "A_UINT32", 8, None), ("i8", "A_INT32", 8, None), ("u16", "A_UINT32", 16, None),
            ("i16", "A_INT32", 16, None), ("b2", "A_BYTEFIELD", 16, None),
            ("u24", "A_UINT32", 24, None), ("u32", "A_UINT32", 32, None),
            ("f32", "A_FLOAT32", 32, None), ("s4", "A_ASCIISTRING", 32, "A_UNICODE2STRING"),
            ("f64", "A_FLOAT64", 64, None)]
SEMANTICS = [None, None, "DATA", "SERVICE-ID", "SUBFUNCTION", "ID"]


def gen_layer(r: Any, name: str) -> G.J:
    nsvc = r.choice([1, 1, 2, 2, 3, 3, 4, 5, 6])
    pool = r.sample(DOP_POOL, r.randint(2, 6))
    dobjs = [G.dop("dop_" + n, G.dct_std(base, bits), ptype=pt) for n, base, bits, pt in pool]
    size = {"dop_" + n: bits // 8 for n, _, bits, _ in pool}
    dnames = sorted(size)
    sids = r.sample(range(0x10, 0x3F), nsvc)

    def message(mname: str, consts: List[Tuple[str, int, int]], nvals: int) -> G.J:
        explicit = r.random() < 0.6
        params: List[G.J] = []
        cur = 0
        for pname, bits, value in consts:
            base = "A_INT32" if (value < (1 << (bits - 1)) and r.random() < 0.15) else "A_UINT32"
            p = G.p_const(pname, G.dct_std(base, bits), value, cur if explicit else None)
            p["semantic"] = r.choice(SEMANTICS)
            params.append(p)
            cur += bits // 8
        for j in range(nvals):
            d = r.choice(dnames)
            if explicit and r.random() < 0.35:
                cur += 1  # a gap
            p = G.p_value(f"v{j}", d, byte=cur if explicit else None)
            p["semantic"] = r.choice(SEMANTICS)
            params.append(p)
            cur += size[d]
        return {"name": mname, "params": params}

    requests, pos, neg, services = [], [], [], []
    shared_neg = message("nr_shared", [("sid_nr", 8, 0x7F)], 2)
    use_shared = False
    for i, sid in enumerate(sids):
        consts = [("sid", 8, sid)]
        if r.random() < 0.55:
            consts.append(("sub", r.choice([8, 8, 16]), r.randrange(0, 0x7F)))
        requests.append(message(f"rq{i}", consts, r.randint(0, 3)))
        pnames = []
        if i > 0 and r.random() < 0.15:
            pnames.append(services[i - 1]["pos"][0])  # shared positive response
        else:
            pc = [("sid", 8, sid + 0x40)]
            if len(consts) > 1 and r.random() < 0.5:
                pc.append(("sub", consts[1][1], consts[1][2]))
            pos.append(message(f"pr{i}", pc, r.randint(0, 3)))
            pnames.append(f"pr{i}")
        if r.random() < 0.2:
            pos.append(message(f"pr{i}b", [("sid", 8, sid + 0x40), ("tag", 8, 0x55)], r.randint(0, 2)))
            pnames.append(f"pr{i}b")
        nnames = []
        if r.random() < 0.6:
            nc = [("sid_nr", 8, 0x7F), ("sid_rq", 8, sid)]
            if r.random() < 0.5:
                nc.append(("nrc", 8, r.choice([0x10, 0x11, 0x12, 0x22, 0x31, 0x33])))
            neg.append(message(f"nr{i}", nc, r.randint(0, 1)))
            nnames.append(f"nr{i}")
        if r.random() < 0.45:
            use_shared = True
            nnames.append("nr_shared")
        services.append({"name": (ODD_NAMES[(sid + i) % len(ODD_NAMES)] if r.random() < 0.12 and
                                  not any(x["name"] == ODD_NAMES[(sid + i) % len(ODD_NAMES)]
                                          for x in services) else f"svc{i}"),
                         "request": f"rq{i}", "pos": pnames, "neg": nnames,
                         "semantic": r.choice([None, "FUNCTION", "SESSION"])})
    if use_shared:
        neg.append(shared_neg)
    cps = sorted(r.sample(range(NCOMPARAM), r.choice([0, 0, 1, 2, 3, 5])))
    return {"kind": "BASE-VARIANT", "name": name, "dobjs": dobjs, "requests": requests,
            "pos": pos, "neg": neg, "gneg": [], "services": services,
            "xml_tail": comparam_refs_xml(cps), "ncp": len(cps)}


#: short names that are valid in ODX but are not identical to the key under which a
#: NamedItemList files them (python keywords, list members, leading digits)
ODD_NAMES = ["class", "index", "copy", "count", "sort", "from", "items", "pop", "keys", "import",
             "2nd_layer", "0x10_session"]


def gen_doc(r: Any, idx: int) -> G.J:
    odd = r.sample(ODD_NAMES, 2)
    layers = [gen_layer(r, odd[0] if r.random() < 0.2 else f"L{idx}a")]
    if r.random() < 0.25:
        layers.append(gen_layer(r, odd[1] if r.random() < 0.3 else f"L{idx}b"))
    if r.random() < 0.3:
        # a library layer: the only layer kind without communication parameters
        lib = gen_layer(r, f"L{idx}lib")
        lib.update({"kind": "ECU-SHARED-DATA", "xml_tail": "", "ncp": 0})
        layers.insert(r.randrange(0, len(layers) + 1), lib)
    return {"name": f"doc{idx}", "layers": layers}


# ---------------------------------------------------------------------------
# XML helpers (the independent view of a description)


def sn(el: ET.Element) -> str:
    return el.findtext("SHORT-NAME") or ""


def layers_of(root: ET.Element) -> List[ET.Element]:
    dlc = root.find("DIAG-LAYER-CONTAINER")
    if dlc is None:
        return []
    return [el for grp in dlc for el in grp if el.tag in LAYER_TAGS]


def find_layer(root: ET.Element, name: str) -> ET.Element:
    for L in layers_of(root):
        if sn(L) == name:
            return L
    raise KeyError(name)


def services_of(L: ET.Element) -> List[ET.Element]:
    return L.findall("DIAG-COMMS/DIAG-SERVICE")


def svc_refs(svc: ET.Element) -> Set[str]:
    refs = set()
    for path in ("REQUEST-REF", "POS-RESPONSE-REFS/POS-RESPONSE-REF",
                 "NEG-RESPONSE-REFS/NEG-RESPONSE-REF"):
        for el in svc.findall(path):
            refs.add(el.get("ID-REF") or "")
    return refs


def find_msg(L: ET.Element, kind: str, mid: str) -> ET.Element:
    for k, grp, tag in MSGS:
        if k == kind:
            for m in L.findall(f"{grp}/{tag}"):
                if m.get("ID") == mid:
                    return m
    raise KeyError(mid)


def dop_index(L: ET.Element) -> Dict[str, ET.Element]:
    return {d.get("ID") or "": d
            for d in L.findall("DIAG-DATA-DICTIONARY-SPEC/DATA-OBJECT-PROPS/DATA-OBJECT-PROP")}


def std_bits(dct: Optional[ET.Element]) -> Optional[int]:
    if dct is None or dct.get(XT) != "STANDARD-LENGTH-TYPE":
        return None
    try:
        return int(dct.findtext("BIT-LENGTH") or "")
    except ValueError:
        return None


def param_nbytes(p: ET.Element, dops: Dict[str, ET.Element],
                 dop_override: Optional[str] = None, bits_override: Optional[int] = None
                 ) -> Optional[int]:
    t = p.get(XT)
    bitpos = int(p.findtext("BIT-POSITION") or 0)
    bits: Optional[int] = None
    if t in ("CODED-CONST", "NRC-CONST"):
        bits = bits_override or std_bits(p.find("DIAG-CODED-TYPE"))
    elif t in ("VALUE", "PHYS-CONST", "SYSTEM", "LENGTH-KEY"):
        ref = p.find("DOP-REF")
        if ref is None or ref.get("DOCREF"):
            return None
        d = dops.get(dop_override or ref.get("ID-REF") or "")
        if d is None:
            return None
        bits = std_bits(d.find("DIAG-CODED-TYPE"))
    elif t == "MATCHING-REQUEST-PARAM":
        try:
            bits = 8 * int(p.findtext("BYTE-LENGTH") or "")
        except ValueError:
            return None
    elif t == "RESERVED":
        try:
            bits = int(p.findtext("BIT-LENGTH") or "")
        except ValueError:
            return None
    if bits is None:
        return None
    return (bitpos + bits + 7) // 8


def layout(msg: ET.Element, dops: Dict[str, ET.Element]) -> Optional[List[Tuple[int, int]]]:
    """[(first byte, number of bytes)] per parameter, None if not statically known."""
    res = []
    cur = 0
    for p in msg.findall("PARAMS/PARAM"):
        n = param_nbytes(p, dops)
        if n is None:
            return None
        bp = p.findtext("BYTE-POSITION")
        start = int(bp) if bp is not None else cur
        res.append((start, n))
        cur = start + n
    return res


def fits_alone(lay: List[Tuple[int, int]], i: int, n_new: int) -> bool:
    s = lay[i][0]
    for j, (s2, n2) in enumerate(lay):
        if j != i and n2 > 0 and s < s2 + n2 and s2 < s + n_new:
            return False
    return True


def const_prefix_tuple(rq: ET.Element) -> Tuple:
    """The leading run of constant parameters of a request as a comparable value."""
    res = []
    for p in rq.findall("PARAMS/PARAM"):
        if p.get(XT) != "CODED-CONST":
            break
        res.append((p.findtext("BYTE-POSITION"), p.findtext("BIT-POSITION"),
                    std_bits(p.find("DIAG-CODED-TYPE")), p.findtext("CODED-VALUE")))
    return tuple(res)


def in_const_prefix(msg: ET.Element, idx: int) -> bool:
    for i, p in enumerate(msg.findall("PARAMS/PARAM")):
        if p.get(XT) not in ("CODED-CONST", "PHYS-CONST"):
            return False
        if i == idx:
            return True
    return False


def int_const(p: ET.Element) -> Optional[Tuple[int, int, str]]:
    """(value, bits, base type) of an integer CODED-CONST with a standard length type."""
    if p.get(XT) != "CODED-CONST":
        return None
    dct = p.find("DIAG-CODED-TYPE")
    bits = std_bits(dct)
    base = dct.get("BASE-DATA-TYPE") if dct is not None else None
    if bits is None or base not in ("A_UINT32", "A_INT32") or dct.find("BIT-MASK") is not None:
        return None
    try:
        v = int(p.findtext("CODED-VALUE") or "")
    except ValueError:
        return None
    return v, bits, base


def value_fits(v: int, bits: int, base: str) -> bool:
    if base == "A_UINT32":
        return 0 <= v < (1 << bits)
    return -(1 << (bits - 1)) <= v < (1 << (bits - 1))


# ---------------------------------------------------------------------------
# edit enumeration and application (on the XML tree)


def enumerate_edits(root: ET.Element, dop_type_edits: bool) -> List[G.J]:
    edits: List[G.J] = []
    all_first = set()
    for L in layers_of(root):
        for rq in L.findall("REQUESTS/REQUEST"):
            ic = [int_const(p) for p in rq.findall("PARAMS/PARAM")[:1]]
            if ic and ic[0] is not None:
                all_first.add(ic[0][0])
    new_sid = next(v for v in range(0x81, 0xBF) if v not in all_first)
    for L in layers_of(root):
        lname = sn(L)
        svcs = services_of(L)
        names = {sn(s) for s in svcs}
        dops = dop_index(L)
        edits.append({"op": "add", "layer": lname, "service": "vf_added", "sid": new_sid,
                      "dop_id": sorted(dops)[0] if dops else None})
        for s in svcs:
            edits.append({"op": "delete", "layer": lname, "service": sn(s)})
            nn = sn(s) + "_rn"
            if nn not in names:
                edits.append({"op": "rename", "layer": lname, "service": sn(s), "new_name": nn})
                # ... and the same rename while a service listed in front of it goes away (the
                # renamed service then sits at different positions in the two layers)
                k = svcs.index(s)
                if k > 0:
                    edits.append({"op": "rename", "layer": lname, "service": sn(s), "new_name": nn,
                                  "also_delete": sn(svcs[k - 1])})
        refd: Set[str] = set()
        for s in svcs:
            refd |= svc_refs(s)
        prefixes = {rq.get("ID"): const_prefix_tuple(rq) for rq in L.findall("REQUESTS/REQUEST")}
        used_dops: Set[str] = set()
        for kind, grp, tag in MSGS:
            for m in L.findall(f"{grp}/{tag}"):
                mid = m.get("ID") or ""
                if mid not in refd:
                    continue
                params = m.findall("PARAMS/PARAM")
                lay = layout(m, dops)
                for i, p in enumerate(params):
                    base = {"op": "param", "layer": lname, "msg_kind": kind, "msg_id": mid,
                            "index": i, "param": sn(p),
                            "in_prefix": kind == "request" and in_const_prefix(m, i)}
                    edits.append({**base, "attr": "semantic", "new": (p.get("SEMANTIC") or "") + "X"})
                    if lay is not None:
                        end = max(s + n for s, n in lay)
                        edits.append({**base, "attr": "byte-position", "new": end + (i % 2)})
                    ic = int_const(p)
                    if ic is not None:
                        v, bits, bt = ic
                        others = [t for k, t in prefixes.items() if k != mid]
                        for bit in range(bits):
                            nv = v ^ (1 << bit)
                            if not value_fits(nv, bits, bt):
                                continue
                            if kind == "request" and base["in_prefix"]:
                                pt = list(prefixes[mid])
                                pt[i] = pt[i][:3] + (str(nv),)
                                if tuple(pt) in others:
                                    continue
                            edits.append({**base, "attr": "coded-value", "new": nv})
                            break
                        if bits > 1 and value_fits(v, bits - 1, bt):
                            edits.append({**base, "attr": "bit-length", "new": bits - 1,
                                          "variant": "shrink"})
                        if lay is not None and bits + 8 <= 32:
                            n_new = param_nbytes(p, dops, bits_override=bits + 8)
                            if n_new is not None and fits_alone(lay, i, n_new):
                                edits.append({**base, "attr": "bit-length", "new": bits + 8,
                                              "variant": "grow"})
                        nbt = "A_INT32" if bt == "A_UINT32" else "A_UINT32"
                        if value_fits(v, bits, nbt):
                            edits.append({**base, "attr": "data-type", "new": nbt})
                    ref = p.find("DOP-REF")
                    if ref is not None and not ref.get("DOCREF") and ref.get("ID-REF") in dops:
                        used_dops.add(ref.get("ID-REF") or "")
                    if (p.get(XT) == "VALUE" and ref is not None and not ref.get("DOCREF") and
                            ref.get("ID-REF") in dops and
                            p.find("PHYSICAL-DEFAULT-VALUE") is None and lay is not None):
                        cur = ref.get("ID-REF")
                        cands = []
                        for did in sorted(dops):
                            if did == cur:
                                continue
                            n_new = param_nbytes(p, dops, dop_override=did)
                            if n_new is not None and fits_alone(lay, i, n_new):
                                cands.append(did)
                        if cands:
                            edits.append({**base, "attr": "linked-dop",
                                          "new": cands[i % len(cands)]})
        if dop_type_edits:
            for did in sorted(used_dops):
                d = dops[did]
                dct = d.find("DIAG-CODED-TYPE")
                pt = d.find("PHYSICAL-TYPE")
                if dct is None or pt is None or std_bits(dct) is None:
                    continue
                if dct.get("BASE-DATA-TYPE") in ("A_UINT32", "A_INT32") and \
                        pt.get("BASE-DATA-TYPE") == dct.get("BASE-DATA-TYPE"):
                    edits.append({"op": "dop-type", "layer": lname, "dop_id": did})
    return edits


def _frag(xml: str) -> ET.Element:
    return ET.fromstring(f'<W xmlns:xsi="{XSI}">{xml}</W>')[0]


def ensure_child(L: ET.Element, tag: str) -> ET.Element:
    el = L.find(tag)
    if el is not None:
        return el
    before = set(CHILD_ORDER[:CHILD_ORDER.index(tag)])
    pos = 0
    for i, ch in enumerate(list(L)):
        if ch.tag in before:
            pos = i + 1
    el = ET.Element(tag)
    L.insert(pos, el)
    return el


def _const_xml(name: str, byte: int, value: int) -> str:
    return (f'<PARAM xsi:type="CODED-CONST"><SHORT-NAME>{name}</SHORT-NAME>'
            f'<BYTE-POSITION>{byte}</BYTE-POSITION><CODED-VALUE>{value}</CODED-VALUE>'
            '<DIAG-CODED-TYPE BASE-DATA-TYPE="A_UINT32" xsi:type="STANDARD-LENGTH-TYPE">'
            '<BIT-LENGTH>8</BIT-LENGTH></DIAG-CODED-TYPE></PARAM>')


def apply_edit(root: ET.Element, e: G.J) -> None:
    L = find_layer(root, e["layer"])
    op = e["op"]
    if op == "add":
        lid = L.get("ID")
        sid = int(e["sid"])
        val = ""
        if e.get("dop_id"):
            val = ('<PARAM xsi:type="VALUE"><SHORT-NAME>vf_value</SHORT-NAME>'
                   f'<BYTE-POSITION>2</BYTE-POSITION><DOP-REF ID-REF="{e["dop_id"]}"/></PARAM>')
        rq = _frag(f'<REQUEST ID="{lid}.RQ.vf_added_rq"><SHORT-NAME>vf_added_rq</SHORT-NAME><PARAMS>'
                   + _const_xml("sid", 0, sid) + _const_xml("sub", 1, 1) + val + '</PARAMS></REQUEST>')
        pr = _frag(f'<POS-RESPONSE ID="{lid}.PR.vf_added_pr"><SHORT-NAME>vf_added_pr</SHORT-NAME>'
                   '<PARAMS>' + _const_xml("sid", 0, sid + 0x40) + val.replace(
                       "<BYTE-POSITION>2", "<BYTE-POSITION>1") + '</PARAMS></POS-RESPONSE>')
        sv = _frag(f'<DIAG-SERVICE ID="{lid}.SVC.{e["service"]}"><SHORT-NAME>{e["service"]}'
                   f'</SHORT-NAME><REQUEST-REF ID-REF="{lid}.RQ.vf_added_rq"/><POS-RESPONSE-REFS>'
                   f'<POS-RESPONSE-REF ID-REF="{lid}.PR.vf_added_pr"/></POS-RESPONSE-REFS>'
                   '</DIAG-SERVICE>')
        ensure_child(L, "DIAG-COMMS").append(sv)
        ensure_child(L, "REQUESTS").append(rq)
        ensure_child(L, "POS-RESPONSES").append(pr)
        return
    if op in ("delete", "rename"):
        dcs = L.find("DIAG-COMMS")
        assert dcs is not None
        for s in list(dcs):
            if s.tag == "DIAG-SERVICE" and sn(s) == e["service"]:
                if op == "delete":
                    dcs.remove(s)
                    if len(dcs) == 0:
                        L.remove(dcs)
                else:
                    el = s.find("SHORT-NAME")
                    assert el is not None
                    el.text = e["new_name"]
                    if e.get("also_delete"):
                        for s2 in list(dcs):
                            if s2.tag == "DIAG-SERVICE" and sn(s2) == e["also_delete"]:
                                dcs.remove(s2)
                return
        raise KeyError(e["service"])
    if op == "dop-type":
        d = dop_index(L)[e["dop_id"]]
        for tag in ("DIAG-CODED-TYPE", "PHYSICAL-TYPE"):
            el = d.find(tag)
            assert el is not None
            el.set("BASE-DATA-TYPE",
                   "A_INT32" if el.get("BASE-DATA-TYPE") == "A_UINT32" else "A_UINT32")
        return
    assert op == "param"
    m = find_msg(L, e["msg_kind"], e["msg_id"])
    p = m.findall("PARAMS/PARAM")[e["index"]]
    assert sn(p) == e["param"]
    attr = e["attr"]
    if attr == "semantic":
        p.set("SEMANTIC", e["new"])
    elif attr == "byte-position":
        el = p.find("BYTE-POSITION")
        if el is None:
            pos = 0
            for i, ch in enumerate(list(p)):
                if ch.tag in ("SHORT-NAME", "LONG-NAME", "DESC", "SDGS"):
                    pos = i + 1
            el = ET.Element("BYTE-POSITION")
            p.insert(pos, el)
        el.text = str(e["new"])
    elif attr == "coded-value":
        el = p.find("CODED-VALUE")
        assert el is not None
        el.text = str(e["new"])
    elif attr == "bit-length":
        el = p.find("DIAG-CODED-TYPE/BIT-LENGTH")
        assert el is not None
        el.text = str(e["new"])
    elif attr == "data-type":
        el = p.find("DIAG-CODED-TYPE")
        assert el is not None
        el.set("BASE-DATA-TYPE", e["new"])
    elif attr == "linked-dop":
        el = p.find("DOP-REF")
        assert el is not None
        el.set("ID-REF", e["new"])
    else:
        raise ValueError(attr)


def to_xml(root: ET.Element) -> str:
    return ET.tostring(root, encoding="unicode")


# ---------------------------------------------------------------------------
# subjects: where the XML comes from and how it is loaded


class Subject:

    def __init__(self, source: str, doc: Optional[G.J] = None, tmp: Optional[str] = None):
        self.source = source
        self.doc = doc
        self.tmp = tmp
        self.nload = 0
        if source == "gen":
            assert doc is not None
            self.xml = G.emit_container(doc)
            self.extra = [cps_xml()] if any(l.get("ncp") for l in doc["layers"]) else []
        else:
            self.pdx = os.path.join(common.REPO, "examples", "somersault.pdx")
            with zipfile.ZipFile(self.pdx) as z:
                self.files = {i.filename: z.read(i.filename) for i in z.infolist()}
            self.xml = self.files["somersault.odx-d"].decode("utf-8")

    def descr(self) -> G.J:
        return {"source": self.source, "doc": self.doc}

    def load(self, xml: Optional[str] = None) -> Any:
        """A fresh Database; xml=None means the unedited description."""
        if self.source == "gen":
            return G.load_xml([xml or self.xml] + self.extra)
        import odxtools
        if xml is None:
            return odxtools.load_pdx_file(self.pdx)
        assert self.tmp is not None
        self.nload += 1
        path = os.path.join(self.tmp, f"e{os.getpid()}_{self.nload}.pdx")
        with zipfile.ZipFile(path, "w", zipfile.ZIP_DEFLATED) as z:
            for name, data in self.files.items():
                z.writestr(name, xml.encode("utf-8") if name == "somersault.odx-d" else data)
        try:
            return odxtools.load_pdx_file(path)
        finally:
            os.unlink(path)


# ---------------------------------------------------------------------------
# observation of the public results


def observe(res: Any) -> Dict[str, List]:
    """Categories of a compare_diagnostic_layers result as plain, sorted data."""
    ren = res["changed_name_of_service"]
    chg = res["changed_parameters_of_service"]
    return {
        "new_services": sorted(s.short_name for s in res["new_services"]),
        "deleted_services": sorted(s.short_name for s in res["deleted_services"]),
        "changed_name_of_service": sorted([s.short_name, str(o)] for s, o in zip(ren[0], ren[1])),
        "changed_parameters_of_service": sorted(
            [s.short_name, str(t)] for s, t in zip(chg[0], chg[1])),
        "_ragged": [len(x) for x in ren] + [len(x) for x in chg],
    }


NAMED_RE = re.compile(r"(request|positive response|negative response) parameter '([^']*)'")


def trusted_refs(s: Any) -> Set[str]:
    refs = set()
    rq = getattr(s, "request", None)
    if rq is not None:
        refs.add(rq.odx_id.local_id)
    for r in list(getattr(s, "positive_responses", [])) + list(getattr(s, "negative_responses", [])):
        refs.add(r.odx_id.local_id)
    return refs


def effect_independent(e: G.J, lname: str, root_e: ET.Element, root_o: ET.Element) -> G.J:
    """What the edit did to layer `lname`, from the XML alone (no inheritance)."""
    eff: G.J = {"added": [], "removed": [], "renamed": [], "changed": [], "params": None}
    if e["layer"] != lname:
        return eff
    if e["op"] == "add":
        eff["added"] = [e["service"]]
    elif e["op"] == "delete":
        eff["removed"] = [e["service"]]
    elif e["op"] == "rename":
        eff["renamed"] = [[e["new_name"], e["service"]]]
        if e.get("also_delete"):
            eff["removed"] = [e["also_delete"]]
    elif e["op"] == "param":
        L = find_layer(root_o, lname)
        eff["changed"] = sorted(sn(s) for s in services_of(L) if e["msg_id"] in svc_refs(s))
        eff["params"] = {n: {e["param"]} for n in eff["changed"]}
    elif e["op"] == "dop-type":
        L = find_layer(root_o, lname)
        eff["params"] = {}
        for s in services_of(L):
            refs = svc_refs(s)
            named = set()
            for kind, grp, tag in MSGS:
                for m in L.findall(f"{grp}/{tag}"):
                    if m.get("ID") in refs:
                        for p in m.findall("PARAMS/PARAM"):
                            ref = p.find("DOP-REF")
                            if ref is not None and ref.get("ID-REF") == e["dop_id"]:
                                named.add(sn(p))
            if named:
                eff["changed"].append(sn(s))
                eff["params"][sn(s)] = named
        eff["changed"].sort()
    return eff


def effect_trusted(e: G.J, layer_e: Any, layer_o: Any) -> Optional[G.J]:
    """Same, but membership and message references are read from odxtools' layer.services."""
    eff: G.J = {"added": [], "removed": [], "renamed": [], "changed": [], "params": None}
    en = [s.short_name for s in layer_e.services]
    on = [s.short_name for s in layer_o.services]
    if e["op"] == "add":
        if e["service"] in en and e["service"] not in on:
            eff["added"] = [e["service"]]
    elif e["op"] == "delete":
        if e["service"] in on and e["service"] not in en:
            eff["removed"] = [e["service"]]
    elif e["op"] == "rename":
        o_has, e_has_old = e["service"] in on, e["service"] in en
        e_has_new, o_has_new = e["new_name"] in en, e["new_name"] in on
        if o_has and not e_has_old and e_has_new and not o_has_new:
            eff["renamed"] = [[e["new_name"], e["service"]]]
            if e.get("also_delete") and e["also_delete"] in on and e["also_delete"] not in en:
                eff["removed"] = [e["also_delete"]]
            elif e.get("also_delete"):
                return None
        elif not o_has and not e_has_new:
            pass
        else:
            return None  # e.g. a NOT-INHERITED entry stopped matching: no simple expectation
    elif e["op"] == "param":
        eff["changed"] = sorted(s.short_name for s in layer_e.services
                                if e["msg_id"] in trusted_refs(s) and s.short_name in on)
        eff["params"] = {n: {e["param"]} for n in eff["changed"]}
    else:
        return None
    return eff


def expectation(eff: G.J, edited_is_new: bool) -> Tuple[str, Dict[str, List]]:
    """(effective kind, expected categories) for compare(new, old)."""
    if edited_is_new:
        exp = {"new_services": sorted(eff["added"]), "deleted_services": sorted(eff["removed"]),
               "changed_name_of_service": sorted(eff["renamed"]),
               "changed_parameters_of_service": sorted(eff["changed"])}
    else:
        exp = {"new_services": sorted(eff["removed"]), "deleted_services": sorted(eff["added"]),
               "changed_name_of_service": sorted([o, n] for n, o in eff["renamed"]),
               "changed_parameters_of_service": sorted(eff["changed"])}
    kind = "none"
    for k, cat in (("add", "new_services"), ("delete", "deleted_services"),
                   ("rename", "changed_name_of_service"),
                   ("param-change", "changed_parameters_of_service")):
        if exp[cat]:
            kind = k
    return kind, exp


SHORT = {"new_services": "new", "deleted_services": "deleted",
         "changed_name_of_service": "renamed", "changed_parameters_of_service": "param-changed"}
PRIMARY = {"add": "new_services", "delete": "deleted_services",
           "rename": "changed_name_of_service", "param-change": "changed_parameters_of_service"}


def edit_feature(e: Optional[G.J]) -> str:
    if e is None:
        return "service"
    if e["op"] == "param":
        f = f'{e["attr"]}/{e["msg_kind"]}'
        if e.get("in_prefix") and e["attr"] in ("byte-position", "bit-length", "coded-value"):
            f += "-prefix"
        return f
    if e["op"] == "dop-type":
        return "dop-data-type"
    if e.get("also_delete"):
        return "service+another-deleted-in-front"
    return "service"


def judge_layer_pair(col: common.Collector, new: Any, old: Any, kind: str,
                     exp: Dict[str, List], params: Optional[Dict[str, Set[str]]], feat: str,
                     none_clause: str, detail: G.J) -> Optional[Dict[str, List]]:
    """Run compare_diagnostic_layers(new, old) and judge the returned categories."""
    from odxtools.cli.compare import Comparison
    col.ev()
    det = dict(detail)
    det.update({"call": "Comparison().compare_diagnostic_layers(new_layer, old_layer)",
                "layer": new.short_name, "effective_kind": kind,
                "expected": {k: v for k, v in exp.items()}})
    try:
        # the CLI uses ONE Comparison object for a whole session of comparisons; every other
        # evaluation therefore goes through a long-lived object shared by all comparisons of
        # this worker, so that results which depend on the history of the object show up
        global _SESSION, _SESSION_CALLS
        _SESSION_CALLS += 1
        if _SESSION is None:
            _SESSION = Comparison()
        cmp_obj = _SESSION if _SESSION_CALLS % 2 else Comparison()
        det["comparison_object"] = "long-lived (call #%d)" % _SESSION_CALLS if _SESSION_CALLS % 2 \
            else "fresh"
        res = cmp_obj.compare_diagnostic_layers(new, old)
        obs = observe(res)
    except Exception as x:
        det["problem"] = f"{type(x).__name__}: {x}"
        col.violation(("raises", f"compare_diagnostic_layers/{type(x).__name__}/{kind}/{feat}"), det)
        return None
    det["observed"] = {k: obs[k] for k in CATS}
    if len(set(obs["_ragged"][:2])) > 1 or len(set(obs["_ragged"][2:])) > 1:
        det["problem"] = f"parallel lists of unequal length {obs['_ragged']}"
        col.violation(("malformed-result", kind), det)
    if new.short_name != res.get("diag_layer"):
        det["problem"] = "diag_layer is not the name of the new layer"
        col.violation(("malformed-result", "diag_layer"), det)
    for cat in CATS:
        want = exp[cat]
        got_names = [x if isinstance(x, str) else x[0] for x in obs[cat]]
        want_names = [x if isinstance(x, str) else x[0] for x in want]
        if not want and not got_names:
            continue
        if kind == "none":
            det["problem"] = f"{cat} lists {got_names} although nothing differs"
            col.violation((none_clause, cat), det)
            continue
        if cat != PRIMARY[kind]:
            # (a compound edit - a rename while another service goes away - has expectations
            # in two categories: the secondary one is compared by name)
            if sorted(got_names) != sorted(want_names):
                det["problem"] = (f"{cat} lists {got_names}" + (f", expected {want_names}" if want_names
                                                               else f"; the only difference is a {kind}"))
                col.violation((f"{kind}-also-reported-as-{SHORT[cat]}" if not want_names else
                               f"{kind}-with-wrong-{SHORT[cat]}", feat), det)
            continue
        if got_names != want_names:
            if not got_names:
                det["problem"] = f"{cat} is empty, expected {want_names}"
                col.violation((f"{kind}-not-reported", feat), det)
            elif sorted(set(got_names)) == want_names:
                det["problem"] = f"{cat} lists a service more than once: {got_names}"
                col.violation((f"{kind}-reported-twice", feat), det)
            else:
                det["problem"] = f"{cat} lists {got_names}, expected {want_names}"
                col.violation((f"{kind}-wrong-service", feat), det)
            continue
        if kind == "rename" and obs[cat] != want:
            det["problem"] = f"old names reported {obs[cat]}, expected {want}"
            col.violation(("rename-wrong-old-name", feat), det)
        if kind == "param-change" and params is not None:
            for name, text in obs[cat]:
                named = {m.group(2) for m in NAMED_RE.finditer(text)}
                if "parameter list" in text or "responses list" in text:
                    det["problem"] = f"{name}: reported as a changed list: {text!r}"
                    col.violation(("param-change-reported-as-list-change", feat), det)
                elif not params[name] <= named:
                    det["problem"] = f"{name}: {sorted(params[name])} not named in {text!r}"
                    col.violation(("param-not-named", feat), det)
                elif named - params[name]:
                    det["problem"] = (f"{name}: unedited parameter(s) "
                                      f"{sorted(named - params[name])} named in {text!r}")
                    col.violation(("param-extra-named", feat), det)
    return obs


def judge_databases(col: common.Collector, db_new: Any, db_old: Any,
                    per_layer: Dict[str, Optional[Dict[str, List]]], what: str,
                    detail: G.J) -> None:
    """compare_databases must agree with the per-layer comparison and invent no layers."""
    from odxtools.cli.compare import Comparison
    col.ev()
    det = dict(detail)
    det["call"] = ("c = Comparison(); c.diagnostic_layer_names = {all layer names}; "
                   "c.compare_databases(db_new, db_old)")
    try:
        global _SESSION_DB
        if _SESSION_DB is None:
            _SESSION_DB = Comparison()
        c = _SESSION_DB if _SESSION_CALLS % 3 == 0 else Comparison()
        c.diagnostic_layer_names = {dl.short_name for dl in db_new.diag_layers} | {
            dl.short_name for dl in db_old.diag_layers}
        res = c.compare_databases(db_new, db_old)
        layer_changes = {}
        for k in ("new_diagnostic_layers", "deleted_diagnostic_layers"):
            layer_changes[k] = [dl.short_name for dl in res[k]]
        obs = {}
        for name in per_layer:
            v = res.get(name)
            obs[name] = observe(v) if isinstance(v, dict) else None
    except Exception as x:
        det["problem"] = f"{type(x).__name__}: {x}"
        col.violation(("raises", f"compare_databases/{type(x).__name__}/{what}"), det)
        return
    for k, v in layer_changes.items():
        if v:
            det["problem"] = f"{k} lists {v} although both databases have the same layers"
            col.violation(("databases-layer-misreported", k), det)
    for name, ref in per_layer.items():
        if ref is None:
            continue
        if obs[name] is None:
            det["problem"] = f"no entry for layer {name}"
            col.violation(("databases-layer-missing", what), det)
            continue
        for cat in CATS:
            if obs[name][cat] != ref[cat]:
                det["problem"] = (f"layer {name}: compare_databases gives {cat}={obs[name][cat]}, "
                                  f"compare_diagnostic_layers gives {ref[cat]}")
                col.violation(("databases-differs-from-layers", cat), det)
    col.count("db-compare:" + what)


# ---------------------------------------------------------------------------
# metrics table

_BUF: Optional[io.StringIO] = None


def capture_metrics(layers: List[Any]) -> str:
    global _BUF
    import rich
    from odxtools.cli._print_utils import print_dl_metrics
    if _BUF is None:
        _BUF = io.StringIO()
        rich.reconfigure(file=_BUF, width=240, color_system=None, force_terminal=False,
                         force_jupyter=False, force_interactive=False, no_color=True,
                         legacy_windows=False)
    _BUF.seek(0)
    _BUF.truncate()
    print_dl_metrics(layers)
    return _BUF.getvalue()


def parse_table(text: str) -> List[List[str]]:
    rows = []
    for line in text.splitlines():
        line = line.strip()
        if line.startswith("│") and line.endswith("│"):
            rows.append([c.strip() for c in line[1:-1].split("│")])
    return rows


def xml_counts(L: ET.Element) -> Tuple[int, int, int]:
    nsvc = len(L.findall("DIAG-COMMS/DIAG-SERVICE")) + len(L.findall("DIAG-COMMS/SINGLE-ECU-JOB"))
    ndop = len(dop_index(L))
    cps = {(c.get("ID-REF"), (c.find("PROTOCOL-SNREF").get("SHORT-NAME")
                              if c.find("PROTOCOL-SNREF") is not None else None))
           for c in L.findall("COMPARAM-REFS/COMPARAM-REF")}
    return nsvc, ndop, len(cps)


def judge_metrics(col: common.Collector, db: Any, root: Optional[ET.Element],
                  detail: G.J) -> None:
    layers = list(db.diag_layers)
    det = dict(detail)
    det["call"] = "print_dl_metrics(list(db.diag_layers)) captured with rich (width 240, no colour)"
    col.ev()
    try:
        text = capture_metrics(layers)
    except Exception as x:
        det["problem"] = f"{type(x).__name__}: {x}"
        col.violation(("metrics-raises", type(x).__name__), det)
        return
    rows = parse_table(text)
    det["table_rows"] = rows
    if len(rows) != len(layers):
        det["problem"] = f"{len(rows)} rows for {len(layers)} layers"
        col.violation(("metrics-wrong", "row-count"), det)
        return
    for dl, row in zip(layers, rows):
        want = (len(dl.services), len(dl.diag_data_dictionary_spec.data_object_props),
                len(getattr(dl, "comparam_refs", [])))
        if root is not None:
            indep = xml_counts(find_layer(root, dl.short_name))
            if indep != want:
                col.fail_inconclusive(
                    f"reference disagreement: XML counts {indep} vs odxtools attributes {want}")
        det["expected_row"] = [dl.short_name, dl.variant_type.value] + [str(x) for x in want]
        det["observed_row"] = row
        if len(row) != 5 or row[0] != dl.short_name or row[1] != dl.variant_type.value:
            det["problem"] = "row does not start with the layer's name and type"
            col.violation(("metrics-wrong", "row-identity"), det)
            continue
        for colname, w, g in zip(("services", "dops", "comparams"), want, row[2:]):
            if str(w) != g:
                tag = colname + ("/reported-0" if g == "0" else "")
                det["problem"] = f"column {colname}: table says {g}, the layer has {w}"
                col.violation(("metrics-wrong", tag), det)
        col.count("metrics-rows")
        if want[2] > 0:
            col.count("metrics-rows-with-comparams")
        if want[1] > 0:
            col.count("metrics-rows-with-dops")


# ---------------------------------------------------------------------------
# one subject: self comparison, metrics, all edits


def judge_self(col: common.Collector, subj: Subject, db_a: Any, db_b: Any) -> None:
    detail = {**subj.descr(), "what": "self", "edit": None}
    per_layer: Dict[str, Optional[Dict[str, List]]] = {}
    empty = {c: [] for c in CATS}
    for la, lb in zip(db_a.diag_layers, db_b.diag_layers):
        per_layer[la.short_name] = judge_layer_pair(col, la, lb, "none", empty, None, "self",
                                                    "self-compare-nonempty", detail)
        col.count("self-compare:layers")
    judge_databases(col, db_a, db_b, per_layer, "self", detail)
    col.nontrivial((subj.source, subj.xml if subj.source == "gen" else "", "self"))


def judge_edit(col: common.Collector, subj: Subject, db_o: Any, root_o: ET.Element, e: G.J,
               metrics: bool = False) -> None:
    root_e = ET.fromstring(subj.xml)
    apply_edit(root_e, e)
    xml_e = to_xml(root_e)
    try:
        db_e = subj.load(xml_e)
    except Exception as x:  # the edited description is not loadable: not a case
        col.count(f"edit-not-loadable:{e['op']}/{type(x).__name__}")
        return
    feat0 = edit_feature(e)
    layers_o = {dl.short_name: dl for dl in db_o.diag_layers}
    layers_e = {dl.short_name: dl for dl in db_e.diag_layers}
    if list(layers_o) != list(layers_e):
        col.fail_inconclusive("edit changed the set of layers")
        return
    for edited_is_new in (True, False):
        detail = {**subj.descr(), "what": "edit", "edit": e,
                  "orientation": "edited-is-new" if edited_is_new else "edited-is-old"}
        per_layer: Dict[str, Optional[Dict[str, List]]] = {}
        for name in layers_o:
            if subj.source == "gen":
                eff: Optional[G.J] = effect_independent(e, name, root_e, root_o)
            else:
                eff = effect_trusted(e, layers_e[name], layers_o[name])
            new, old = (layers_e[name], layers_o[name]) if edited_is_new else \
                (layers_o[name], layers_e[name])
            if eff is None:
                col.count("layer-without-simple-expectation")
                per_layer[name] = None
                continue
            kind, exp = expectation(eff, edited_is_new)
            feat = feat0
            if kind == "delete" and len(new.services) == 0:
                feat += "/new-layer-has-no-service"
            if kind == "add" and len(old.services) == 0:
                feat += "/old-layer-has-no-service"
            per_layer[name] = judge_layer_pair(col, new, old, kind, exp, eff["params"], feat,
                                               "untouched-layer-nonempty", detail)
            if kind != "none":
                col.count(f"edit:{kind}/{feat}")
                col.count(f"kind:{kind}")
                if e["op"] == "param":
                    col.count(f"attr:{e['attr']}/{e['msg_kind']}")
        db_new, db_old = (db_e, db_o) if edited_is_new else (db_o, db_e)
        judge_databases(col, db_new, db_old, per_layer, "edit", detail)
        col.nontrivial((subj.source, subj.doc["name"] if subj.doc else "", repr(sorted(e.items())),
                        edited_is_new))
    if metrics:
        judge_metrics(col, db_e, root_e if subj.source == "gen" else None,
                      {**subj.descr(), "what": "metrics", "edit": e})


def run_subject(col: common.Collector, subj: Subject, edits: Optional[List[G.J]] = None,
                do_self: bool = True) -> None:
    root_o = ET.fromstring(subj.xml)
    db_o = subj.load()
    if do_self:
        db_b = subj.load()
        judge_self(col, subj, db_o, db_b)
        judge_metrics(col, db_o, root_o if subj.source == "gen" else None,
                      {**subj.descr(), "what": "metrics", "edit": None})
    if edits is None:
        edits = enumerate_edits(root_o, dop_type_edits=subj.source == "gen")
    for n, e in enumerate(edits):
        judge_edit(col, subj, db_o, root_o, e, metrics=e["op"] in ("add", "delete") or n % 8 == 0)


# ---------------------------------------------------------------------------
# tasks


def part_generated(task: Tuple, col: common.Collector) -> None:
    worker, count = task
    warnings.simplefilter("ignore")
    r = common.rng(worker, "c18")
    for i in range(count):
        doc = gen_doc(r, worker * 100000 + i)
        subj = Subject("gen", doc)
        run_subject(col, subj)
        if i == 0 and worker < 2:
            L = doc["layers"][0]
            col.sample({"generated_layer": L["name"],
                        "services": [[s["name"], s["request"], s["pos"], s["neg"]]
                                     for s in L["services"]],
                        "request0": [[p["name"], p["p"], p.get("byte")] for p in
                                     L["requests"][0]["params"]],
                        "dops": [d["name"] for d in L["dobjs"]], "comparam_refs": L["ncp"],
                        "edits_enumerated": len(enumerate_edits(ET.fromstring(subj.xml), True))},
                       limit=3)


def capture_tool(fn: Any, *a: Any) -> str:
    """stdout of a tool entry point that prints with rich"""
    global _BUF
    import rich
    if _BUF is None:
        _BUF = io.StringIO()
        rich.reconfigure(file=_BUF, width=240, color_system=None, force_terminal=False,
                         force_jupyter=False, force_interactive=False, no_color=True,
                         legacy_windows=False)
    _BUF.seek(0)
    _BUF.truncate()
    fn(*a)
    return _BUF.getvalue()


def tool_leg(col: common.Collector, tmp: str, edits: List[G.J]) -> None:
    """The compare tool end to end (compare.run with the namespace its own argument parser
    produces): the two overview tables it prints are those of the two files named in their
    headlines, with and without a selection of variants."""
    import argparse
    import odxtools
    from odxtools.cli import compare
    subj = Subject("somersault", None, tmp)
    root_o = ET.fromstring(subj.xml)
    picks = [e for e in edits if e["op"] in ("add", "delete")][:2]
    parser = argparse.ArgumentParser()
    sub = parser.add_subparsers(dest="subparser_name")
    compare.add_subparser(sub)
    old_path = os.path.join(tmp, "old_db.pdx")
    shutil.copy(subj.pdx, old_path)
    db_old = odxtools.load_pdx_file(old_path)
    # the list tool end to end: the overview it prints first
    from odxtools.cli import list as list_tool
    lparser = argparse.ArgumentParser()
    lsub = lparser.add_subparsers(dest="subparser_name")
    list_tool.add_subparser(lsub)
    all_names = [dl.short_name for dl in db_old.diag_layers]
    for variants in (None, all_names[1:3], list(reversed(all_names[:3])), all_names[-1:]):
        argv = ["list", old_path] + (["-v"] + variants if variants else [])
        det = {"what": "list-tool", "argv": argv[:1] + ["<pdx>"] + argv[2:]}
        col.ev()
        try:
            text = capture_tool(list_tool.run, lparser.parse_args(argv))
        except BaseException as x:  # noqa
            det["problem"] = f"{type(x).__name__}: {x}"
            col.violation(("list-tool-raises", type(x).__name__), det)
            continue
        body = text.split("Diagnostic layer:", 1)[0]
        rows = parse_table(body)
        chosen = variants if variants else all_names
        by_name = {dl.short_name: dl for dl in db_old.diag_layers}
        want = [[n, by_name[n].variant_type.value, str(len(by_name[n].services)),
                 str(len(by_name[n].diag_data_dictionary_spec.data_object_props)),
                 str(len(getattr(by_name[n], "comparam_refs", [])))] for n in chosen]
        col.count("tool-leg:list-overviews")
        col.nontrivial(("list-tool", tuple(chosen)))
        if rows != want:
            col.violation(("list-tool-overview-wrong", "variants-selected" if variants else "all-layers"),
                          dict(det, table_rows=rows, expected_rows=want))
    # the compare tool for the variants of ONE file, several times in this process: every run
    # prints the overview of exactly the variants it was asked for
    cparser = argparse.ArgumentParser()
    csub = cparser.add_subparsers(dest="subparser_name")
    compare.add_subparser(csub)
    for variants in (all_names[:2], all_names[1:3], all_names[-2:], all_names[:3]):
        if len(variants) < 2:
            continue
        argv = ["compare", old_path, "-v"] + variants
        det = {"what": "compare-tool-variants", "argv": ["compare", "<pdx>", "-v"] + variants}
        col.ev()
        try:
            text = capture_tool(compare.run, cparser.parse_args(argv))
        except BaseException as x:  # noqa
            det["problem"] = f"{type(x).__name__}: {x}"
            col.violation(("compare-tool-raises", type(x).__name__), det)
            continue
        body = text.split("Changes in diagnostic layer", 1)[0]
        rows = parse_table(body)
        by_name = {dl.short_name: dl for dl in db_old.diag_layers}
        want = sorted([n, by_name[n].variant_type.value, str(len(by_name[n].services)),
                       str(len(by_name[n].diag_data_dictionary_spec.data_object_props)),
                       str(len(getattr(by_name[n], "comparam_refs", [])))] for n in set(variants))
        col.count("tool-leg:variant-overviews")
        col.nontrivial(("compare-tool-variants", tuple(variants)))
        if sorted(rows) != want:
            col.violation(("compare-tool-overview-wrong", "variants-of-one-file"),
                          dict(det, table_rows=rows, expected_rows=want))
        if text.count("Changes in diagnostic layer") != len(set(variants)) - 1:
            col.violation(("compare-tool-overview-wrong", "number-of-comparisons"),
                          dict(det, comparisons=text.count("Changes in diagnostic layer"),
                               expected=len(set(variants)) - 1))
    for n, e in enumerate(picks):
        root_e = ET.fromstring(subj.xml)
        apply_edit(root_e, e)
        new_path = os.path.join(tmp, f"new_db_{n}.pdx")
        with zipfile.ZipFile(new_path, "w", zipfile.ZIP_DEFLATED) as z:
            for name, data in subj.files.items():
                z.writestr(name, to_xml(root_e).encode("utf-8") if name == "somersault.odx-d" else data)
        try:
            db_new = odxtools.load_pdx_file(new_path)
        except Exception:
            col.count("tool-leg:edit-not-loadable")
            continue
        names = [dl.short_name for dl in db_new.diag_layers]
        for variants in (None, names, names[:2], [e["layer"]]):
            argv = ["compare", new_path, "-db", old_path] + (["-v"] + variants if variants else [])
            det = {"what": "compare-tool", "edit": e, "argv": argv[:1] + ["<new>", "-db", "<old>"] + argv[4:]}
            col.ev()
            try:
                text = capture_tool(compare.run, parser.parse_args(argv))
            except BaseException as x:  # noqa
                det["problem"] = f"{type(x).__name__}: {x}"
                col.violation(("compare-tool-raises", type(x).__name__), det)
                continue
            # split the output at the overview headlines
            sections: List[Tuple[str, str]] = []
            cur: Optional[List[str]] = None
            for line in text.splitlines():
                m = re.match(r"\s*Overview of diagnostic layers \(for (.*)\)", line)
                if m:
                    cur = []
                    sections.append((m.group(1), ""))
                elif line.strip().startswith("Changed diagnostic services") or \
                        line.strip().startswith("Changes in"):
                    cur = None
                if cur is not None and not m:
                    sections[-1] = (sections[-1][0], sections[-1][1] + line + "\n")
            want_names = [os.path.basename(new_path), os.path.basename(old_path)]
            if [n for n, _ in sections[:2]] != want_names:
                det["problem"] = f"overview headlines {[n for n, _ in sections]}, expected {want_names}"
                col.violation(("compare-tool-overview-wrong", "headlines"), det)
                continue
            for (fname, body), db in zip(sections[:2], (db_new, db_old)):
                layers = [dl for dl in db.diag_layers if variants is None or dl.short_name in variants]
                rows = parse_table(body)
                want = [[dl.short_name, dl.variant_type.value, str(len(dl.services)),
                         str(len(dl.diag_data_dictionary_spec.data_object_props)),
                         str(len(getattr(dl, "comparam_refs", [])))] for dl in layers]
                col.count("tool-leg:overview-tables")
                col.nontrivial(("compare-tool", e["op"], variants is None, fname == want_names[0]))
                if rows != want:
                    det2 = dict(det, file=("new" if fname == want_names[0] else "old"),
                                table_rows=rows, expected_rows=want,
                                problem="the overview printed for this file does not show its layers' numbers")
                    col.violation(("compare-tool-overview-wrong",
                                   "variants-selected" if variants else "all-layers"), det2)


def part_somersault(task: Tuple, col: common.Collector) -> None:
    chunk, edits = task
    warnings.simplefilter("ignore")
    tmp = tempfile.mkdtemp(prefix="vf_c18_")
    try:
        subj = Subject("somersault", None, tmp)
        run_subject(col, subj, edits, do_self=chunk == 0)
        col.count("somersault-edits", len(edits))
        if chunk in (0, 1):
            tool_leg(col, tmp, edits if chunk == 0 else list(reversed(edits)))
    finally:
        shutil.rmtree(tmp, ignore_errors=True)


def api_edit_leg(col: common.Collector, r: Any, rounds: int) -> None:
    """Databases changed through the object model (the way examples/mksomersaultmodifiedpdx.py
    does it: copies of existing services and requests with new names, IDs and constants, then
    refresh()), after the databases have already been compared once.  Expected classification
    from a shadow of the service names per layer."""
    import copy

    import odxtools
    from odxtools.cli.compare import Comparison
    from odxtools.odxlink import OdxLinkId, OdxLinkRef
    pdx = os.path.join(common.REPO, "examples", "somersault.pdx")
    db_old = odxtools.load_pdx_file(pdx)
    db_new = odxtools.load_pdx_file(pdx)

    def names_per_layer(db: Any) -> Dict[str, Set[str]]:
        return {dl.short_name: {s.short_name for s in dl.services} for dl in db.diag_layers}

    def compare_all(step: str, added: Set[str], deleted: Set[str]) -> None:
        task = Comparison()
        task.diagnostic_layer_names = {dl.short_name for dl in db_new.diag_layers}
        try:
            res = task.compare_databases(db_new, db_old)
        except Exception as e:  # the outcome is data
            col.violation(("api-edit-compare-raises", type(e).__name__), {"step": step, "problem": str(e)[:300]})
            return
        now, before = names_per_layer(db_new), names_per_layer(db_old)
        for ln in sorted(now):
            col.ev()
            got = observe(res[ln])
            want_new = sorted(n for n in now[ln] - before[ln] if n in added)
            want_del = sorted(n for n in before[ln] - now[ln] if n in deleted)
            problem = None
            if got["new_services"] != want_new:
                problem = "added"
            elif got["deleted_services"] != want_del:
                problem = "deleted"
            elif got["changed_name_of_service"] or got["changed_parameters_of_service"]:
                problem = "spurious-change"
            if problem:
                col.violation(("api-edit-misreported", problem),
                              {"step": step, "layer": ln, "expected_new": want_new,
                               "expected_deleted": want_del, "reported": got})
                return
        col.count("api-edit:" + step.split(":")[0])

    compare_all("self", set(), set())
    added: Set[str] = set()
    deleted: Set[str] = set()
    base = db_new.base_variants.somersault
    for k in range(rounds):
        templates = [s for s in base.services
                     if s.request is not None and len(s.request.parameters) and
                     hasattr(s.request.parameters[0], "coded_value") and s.short_name not in added]
        # every prefix in use has been asked for before the edit (a tool listing the services)
        used = {bytes(s.request.coded_const_prefix())[:1] for s in base.services if s.request is not None}
        # (a new service that takes over the prefix of a service of the OLD database - e.g. of one
        # deleted meanwhile - is that service renamed, as far as the comparison is defined)
        used |= {bytes(s.request.coded_const_prefix())[:1]
                 for s in db_old.base_variants.somersault.services if s.request is not None}
        free = [v for v in range(0x30, 0x7E) if bytes([v]) not in used]
        if not templates or not free:
            break
        tpl = r.choice(templates)
        name = f"added_{k}"
        frags = tpl.odx_id.doc_fragments
        rq = copy.deepcopy(tpl.request)
        rq.odx_id = OdxLinkId("somersault.RQ." + name, frags)
        rq.short_name = name
        rq.parameters[0].coded_value = r.choice(free)
        svc = copy.deepcopy(tpl)
        svc.odx_id = OdxLinkId("somersault.service." + name, frags)
        svc.short_name = name
        svc.request_ref = OdxLinkRef.from_id(rq.odx_id)
        base.diag_layer_raw.requests.append(rq)
        base.diag_layer_raw.diag_comms_raw.append(svc)
        db_new.refresh()
        base = db_new.base_variants.somersault
        added.add(name)
        compare_all(f"add:{tpl.short_name}", added, deleted)
        if k % 2 == 1:
            # ... and one of the original services of the base variant goes
            victims = [s for s in base.diag_layer_raw.diag_comms_raw
                       if getattr(s, "short_name", None) in ("tester_present", "session_stop") and
                       s.short_name not in deleted]
            if victims:
                v = victims[0]
                base.diag_layer_raw.diag_comms_raw.remove(v)
                db_new.refresh()
                base = db_new.base_variants.somersault
                deleted.add(v.short_name)
                compare_all(f"delete:{v.short_name}", added, deleted)


def part_api(task: Tuple, col: common.Collector) -> None:
    worker, rounds = task
    warnings.simplefilter("ignore")
    api_edit_leg(col, common.rng(worker, "c18-api"), rounds)


def part(task: Tuple, col: common.Collector) -> None:
    {"som": part_somersault, "gen": part_generated, "api": part_api}[task[0]](task[1], col)


REQUIRED = (["kind:add", "kind:delete", "kind:rename", "kind:param-change",
             "self-compare:layers", "db-compare:self", "db-compare:edit", "metrics-rows",
             "metrics-rows-with-comparams", "metrics-rows-with-dops", "somersault-edits",
             "edit:delete/service/new-layer-has-no-service", "edit:param-change/dop-data-type",
             "tool-leg:overview-tables", "tool-leg:list-overviews", "tool-leg:variant-overviews",
             "api-edit:self", "api-edit:add", "api-edit:delete"] +
            [f"attr:{a}/{k}" for a in PARAM_ATTRS for k in ("request", "pos", "neg")])


def run(tier: str, col: common.Collector) -> None:
    per_worker = 4 if tier == "quick" else 150
    nworkers = max(common.NCPU, 16)  # the workload does not depend on the machine
    tasks = [(w, per_worker) for w in range(nworkers)]
    with zipfile.ZipFile(os.path.join(common.REPO, "examples", "somersault.pdx")) as z:
        som_root = ET.fromstring(z.read("somersault.odx-d").decode("utf-8"))
    som_edits = enumerate_edits(som_root, dop_type_edits=False)
    n = 8
    common.pmap(part, [("som", (i, som_edits[i::n])) for i in range(n)] +
                [("api", (w, 3 if tier == "quick" else 6)) for w in range(2 if tier == "quick" else 8)] +
                [("gen", t) for t in tasks], col)
    col.notes["generated_containers"] = per_worker * nworkers
    col.notes["somersault_edits_enumerated"] = len(som_edits)
    col.sample({"somersault_edit_examples": som_edits[:2] + som_edits[-2:]}, limit=8)
    for key in REQUIRED:
        if not col.counters.get(key):
            col.fail_inconclusive(f"required case never exercised: {key}")


def replay(w: Dict[str, Any], col: common.Collector) -> None:
    warnings.simplefilter("ignore")
    tmp = tempfile.mkdtemp(prefix="vf_c18_")
    try:
        subj = Subject(w["source"], w.get("doc"), tmp)
        root_o = ET.fromstring(subj.xml)
        db_o = subj.load()
        if w.get("what") == "self":
            judge_self(col, subj, db_o, subj.load())
        elif w.get("what") == "metrics" and w.get("edit") is None:
            judge_metrics(col, db_o, root_o if subj.source == "gen" else None,
                          {**subj.descr(), "what": "metrics", "edit": None})
        else:
            judge_edit(col, subj, db_o, root_o, w["edit"], metrics=w.get("what") == "metrics")
    finally:
        shutil.rmtree(tmp, ignore_errors=True)
