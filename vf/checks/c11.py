"""C11 - writing a database to PDX and loading it back preserves it.

Events (all at the public API): odxtools.writepdxfile.write_pdx_file, Database.add_pdx_file /
refresh, loadfile.load_pdx_file / load_file / load_directory / load_files / load_odx_d_file,
the dataclass fields of every element reachable from Database.diag_layer_containers /
comparam_subsets / comparam_specs, DiagService.encode_request / Request.decode /
DiagLayer.decode / Response.encode / Response.decode.

Oracles (metamorphic, no reference model needed):
 (1) DB1 = load(source); PDX2 = write(DB1); DB2 = load(PDX2): every dataclass field of every
     reachable element equal (top-level collections matched by short name); every differing
     (class, field) is reported separately with the path of its first occurrence;
 (2) PDX3 = write(DB2): the ODX members of PDX2 and PDX3 are byte-identical (index.xml ignored);
 (3) a corpus of request / response encodings and decodings gives identical outcomes on DB1, DB2;
 (4) single-attribute perturbation: one scalar dataclass field of one live element is set to
     another value of its domain, the database is refreshed, written, reloaded and the field is
     read back at the same path;
 (5) the database loaded from PDX2 does not depend on the entry point nor on the member order.
"""
from __future__ import annotations

import dataclasses
import enum
import os
import random
import shutil
import tempfile
import warnings
from typing import Any, Dict, List, Optional, Sequence, Tuple

from .. import c11_helpers as H
from .. import common, richdoc

PROPERTY = "C11"
LEVEL = "exploration"
RULE = ("sources: examples/somersault.pdx, examples/somersault_modified.pdx, a rich generated "
        "database (vf/richdoc.py: every optional element/attribute the parsers read that the "
        "unchanged writer survives) and ~30 single-construct feature databases. Enumerated: "
        "(a) one full round trip per source; (b) every (element class, scalar dataclass field) "
        "that is not a structural key (short name, id, reference, data type handed down by the "
        "enclosing element) x instance(s) chosen by VERIF_SEED x the value domain of the field "
        "(bool: opposite, or explicit false and true where absent; int: +1; float: +1.5; enum: "
        "next member; numeric-as-string: next number; XHTML: other well-formed markup; free "
        "text: a plain different string, then a<b&\"c'>d); (c) load entry points x member "
        "orders. Distinct = (class, field, value domain) resp. (source, oracle); non-trivial = "
        "the perturbed value differs from the original and the perturbed database is valid "
        "(refresh() and __post_init__ accept it)")
MIN_EVALS = {"quick": 400, "thorough": 1200}
ASSUMPTIONS = [
    "the dataclass fields of the element classes are the parser's inventory of the attributes it "
    "reads; fields that a parser receives from the enclosing element (internal_type, "
    "physical_type, value_type, domain_type, range_type, data_type, variant_type, "
    "response_type) are compared in the round trip but not perturbed",
    "a perturbed database is valid if dataclasses.replace() (i.e. __post_init__) and "
    "Database.refresh() accept it and the reload does not fail in one of odxtools' own "
    "consistency checks (odxraise with a message); then the next candidate of the domain is "
    "tried. A reload that fails with an XML syntax error, a missing mandatory element "
    "(odxrequire), an unknown token, an unresolved link or a non-ODX exception is attributed to "
    "the writer",
    "jinja2.Environment gets a per-process in-memory bytecode cache (keyed by template name, "
    "validated by the checksum of the template source); the run checks once that cached and "
    "uncached writes produce identical bytes",
    "Database.short_name, model_version and the auxiliary files (by base name and content) "
    "count as part of 'the loaded database' for the entry-point clause",
]

MAIN_SOURCES = ("somersault", "somersault_modified", "rich-core")
_SRC_CACHE: Dict[str, bytes] = {}
_FEATURES: Optional[Dict[str, Tuple[str, List[Tuple[str, str]], Dict[str, bytes]]]] = None
_BASELINE: Dict[str, Any] = {}


def features() -> Dict[str, Tuple[str, List[Tuple[str, str]], Dict[str, bytes]]]:
    global _FEATURES
    if _FEATURES is None:
        _FEATURES = {"feat:" + n: (cls, files, aux) for n, cls, files, aux in
                     richdoc.feature_files()}
    return _FEATURES


def source_names() -> List[str]:
    return list(MAIN_SOURCES) + list(features())


def source_class(name: str) -> str:
    return features()[name][0] if name.startswith("feat:") else "Database"


def source_bytes(name: str) -> bytes:
    b = _SRC_CACHE.get(name)
    if b is None:
        if name in ("somersault", "somersault_modified"):
            with open(os.path.join(common.REPO, "examples", name + ".pdx"), "rb") as f:
                b = f.read()
        elif name == "rich-core":
            files, aux = richdoc.core_files()
            b = H.make_pdx(files, aux)
        elif name.startswith("twin:"):
            b = twin_of(source_bytes(name[5:]))
        else:
            _, files, aux = features()[name]
            b = H.make_pdx(files, aux)
        _SRC_CACHE[name] = b
    return b


def twin_of(pdx: bytes) -> bytes:
    """The same database with every DIAG-LAYER-CONTAINER renamed (<name>_twin): layers of equal
    short names then live in differently named containers of two databases."""
    import re
    members = H.pdx_members(pdx)
    names = set()
    for n, c in members.items():
        if H.is_odx_name(n):
            for m in re.finditer(rb"<DIAG-LAYER-CONTAINER\b[^>]*>\s*<SHORT-NAME>([^<]+)</SHORT-NAME>", c):
                names.add(m.group(1))
    out: Dict[str, bytes] = {}
    for n, c in members.items():
        if H.is_odx_name(n):
            for nm in names:
                c = re.sub(rb"(<DIAG-LAYER-CONTAINER\b[^>]*>\s*<SHORT-NAME>)" + re.escape(nm) +
                           rb"(</SHORT-NAME>)", rb"\g<1>" + nm + rb"_twin\g<2>", c)
                c = re.sub(rb'DOCREF="' + re.escape(nm) + rb'"(\s+DOCTYPE="CONTAINER")',
                           rb'DOCREF="' + nm + rb'_twin"\g<1>', c)
                c = re.sub(rb'(DOCTYPE="CONTAINER"\s+)DOCREF="' + re.escape(nm) + rb'"',
                           rb'\g<1>DOCREF="' + nm + rb'_twin"', c)
        out[n] = c
    import io
    import zipfile
    b = io.BytesIO()
    with zipfile.ZipFile(b, "w", compression=zipfile.ZIP_DEFLATED) as z:
        for n, c in out.items():
            z.writestr(n, c)
    return b.getvalue()


def task_history(name: str, col: common.Collector) -> None:
    """What is written must depend on the database only, not on what the process wrote before:
    the full round trip oracle on X, then on its twin (same layers, containers renamed), then
    on X again - all in this one process."""
    scratch = common.Collector()
    task_roundtrip(name, scratch)
    if scratch.inconclusive:
        col.fail_inconclusive(f"history leg: {scratch.inconclusive[0]}")
        return
    for nm in ("twin:" + name, name):
        sub = common.Collector()
        task_roundtrip(nm, sub)
        if sub.inconclusive:
            col.fail_inconclusive(f"history leg: {sub.inconclusive[0]}")
            return
        col.ev(sub.evaluations)
        col.count("history-roundtrips")
        col.nontrivial(("history", nm))
        for sig, ent in sub.violations.items():
            if sig in scratch.violations:
                continue  # already reported by the plain round trip of this source
            d = dict(ent["witnesses"][0]) if ent["witnesses"] else {}
            d.pop("sig", None)
            d["after_writing"] = name if nm.startswith("twin:") else "twin:" + name
            _viol(col, ("written-database-depends-on-history",) + tuple(sig)[:2], d)


def _viol(col: common.Collector, sig: Sequence[Any], detail: Dict[str, Any]) -> None:
    """every witness names its own signature so that a replay can re-judge exactly that one"""
    if "sig" not in detail:
        detail = dict(detail, sig=[str(x) for x in sig])
    col.violation(sig, detail)


def _prep() -> None:
    warnings.simplefilter("ignore")
    H.install_jinja_cache()


def _msg_cat(e: BaseException) -> str:
    """categorical part of an exception message: quoted parts and numbers removed"""
    import re
    m = re.sub(r"'[^']*'|\"[^\"]*\"|\d+", "", str(e))
    return " ".join(m.split())[:48]


def _exc(e: BaseException) -> str:
    return f"{type(e).__name__}: {str(e)[:400]}"


# ---------------------------------------------------------------------------
# (1)-(3) full round trips


def task_roundtrip(name: str, col: common.Collector) -> None:
    _prep()
    cls = source_class(name)
    tag = name if name.startswith("feat:") else "*"
    base = {"mode": "roundtrip", "source": name}
    try:
        db1 = H.load_bytes(source_bytes(name))
    except Exception as e:
        # a source that loads with its members in another order is not a broken source: the
        # loaded database depends on the order of the files in the archive
        members = list(H.pdx_members(source_bytes(name)))
        for order in (members[::-1], sorted(members), sorted(members, reverse=True)):
            if order == members:
                continue
            try:
                H.load_bytes(H.rezip(source_bytes(name), order))
            except Exception:
                continue
            col.ev()
            _viol(col, ("load-depends-on-member-order", cls, tag),
                  dict(base, fails_with_order=members, loads_with_order=order, problem=_exc(e)))
            return
        col.fail_inconclusive(f"source {name} does not load: {_exc(e)}")
        return
    col.ev()
    try:
        pdx2 = H.write_bytes(db1)
    except Exception as e:
        _viol(col, ("write-raises", cls, tag), dict(base, problem=_exc(e)))
        return
    try:
        db2 = H.load_bytes(pdx2)
    except Exception as e:
        _viol(col, ("reload-raises", cls, tag), dict(base, problem=_exc(e)))
        return
    col.nontrivial(("roundtrip", name))
    col.notes.setdefault("usable_sources", []).append(name)
    diffs = H.compare_dbs(db1, db2)
    col.count("roundtrip_fields_compared_sources")
    keyed = H.diff_keys(diffs)
    for key, d in sorted(keyed.items()):
        _viol(col, key, dict(base, path=d["path"], loaded_from_source=d["first"],
                                after_write_and_reload=d["second"]))
    # (2) second write identical
    col.ev()
    try:
        pdx3 = H.write_bytes(db2)
        m2, m3 = H.odx_members(pdx2), H.odx_members(pdx3)
        for n in sorted(set(m2) | set(m3)):
            if m2.get(n) != m3.get(n):
                a, b = m2.get(n, b""), m3.get(n, b"")
                i = next((k for k in range(min(len(a), len(b))) if a[k] != b[k]),
                         min(len(a), len(b)))
                _viol(col, ("rewrite-differs", os.path.splitext(n)[1]),
                              dict(base, member=n, first_difference_at=i,
                                   second_write=a[max(0, i - 80):i + 80].decode("utf8", "replace"),
                                   third_write=b[max(0, i - 80):i + 80].decode("utf8", "replace")))
    except Exception as e:
        _viol(col, ("rewrite-raises", cls, tag), dict(base, problem=_exc(e)))
    # (3) behaviour
    c1, c2 = H.corpus(db1), H.corpus(db2)
    ok_items = 0
    for k in sorted(c1):
        col.ev()
        if isinstance(c1[k], list) and c1[k] and c1[k][0] == "ok":
            ok_items += 1
        if c1[k] != c2.get(k):
            parts = [x for x in k.split("/") if x != "alt"]
            layer, svc, step = (parts + ["", ""])[:3]
            _viol(col, ("behaviour-differs", name, svc, step),
                          dict(base, key=k, on_source_db=c1[k], on_reloaded_db=c2.get(k)))
    col.count("corpus_items", len(c1))
    col.count("corpus_items_ok", ok_items)
    if name in MAIN_SOURCES:
        col.sample({"source": name, "odx_members": sorted(H.odx_members(pdx2)),
                    "structural_differences": len(diffs), "corpus_items": len(c1)}, limit=3)


def task_cache_selfcheck(name: str, col: common.Collector) -> None:
    """cached and uncached template compilation must give the same bytes"""
    _prep()
    import jinja2
    try:
        db = H.load_bytes(source_bytes(name))
        first = H.write_bytes(db)  # fills the cache in a fresh process
        second = H.write_bytes(db)  # served from the cache
        cached = H.odx_members(second)
        if H.odx_members(first) != cached:
            col.fail_inconclusive("two writes of one database object differ in their ODX members")
        # outside the statement (it speaks of ODX documents), recorded as an observation only:
        # write_pdx_file consumes the auxiliary file objects, a second write stores them empty
        a1 = {n: c for n, c in H.pdx_members(first).items() if not H.is_odx_name(n) and
              n != "index.xml"}
        a2 = {n: c for n, c in H.pdx_members(second).items() if not H.is_odx_name(n) and
              n != "index.xml"}
        if a1 != a2:
            col.notes.setdefault("observations_outside_the_statement", []).append(
                "writing the same Database object twice stores different auxiliary files the "
                "second time (" + ", ".join(f"{n}: {len(a1[n])} -> {len(a2.get(n, b''))} bytes"
                                            for n in sorted(a1) if a1[n] != a2.get(n))[:300] + ")")
        env_init = jinja2.Environment.__init__

        def plain(self: Any, *a: Any, **kw: Any) -> None:
            kw["bytecode_cache"] = None
            env_init(self, *a, **kw)

        jinja2.Environment.__init__ = plain  # type: ignore[method-assign]
        try:
            uncached = H.odx_members(H.write_bytes(H.load_bytes(source_bytes(name))))
        finally:
            jinja2.Environment.__init__ = env_init  # type: ignore[method-assign]
        if cached != uncached:
            col.fail_inconclusive("template bytecode cache changes the written documents")
        col.count("cache_selfcheck_ok", 1 if cached == uncached else 0)
    except Exception as e:
        col.fail_inconclusive("cache self check failed: " + _exc(e))


# ---------------------------------------------------------------------------
# (5) entry points


def _db_extras(db: Any) -> Dict[str, Any]:
    aux = {}
    for k, fobj in db.auxiliary_files.items():
        try:
            fobj.seek(0)
        except Exception:
            pass
        try:
            aux[os.path.basename(k)] = fobj.read()
        except Exception as e:
            aux[os.path.basename(k)] = "unreadable: " + _exc(e)
    return {"short_name": db.short_name, "model_version": str(db.model_version), "aux": aux}


def _judge_entry(col: common.Collector, entry: str, name: str, ref: Any, ref_extra: Dict[str, Any],
                 loader: Any, detail: Dict[str, Any]) -> None:
    col.ev()
    base = dict(detail, mode="entry", source=name, entry=entry)
    try:
        db = loader()
    except Exception as e:
        _viol(col, ("entry-point-raises", entry.split("/")[0], type(e).__name__, _msg_cat(e)),
                      dict(base, problem=_exc(e)))
        return
    col.nontrivial(("entry", entry, name))
    col.count("entry:" + entry.split("/")[0])
    diffs = H.compare_dbs(ref, db)
    for key, d in sorted(H.diff_keys(diffs).items()):
        _viol(col, ("entry-point-differs", entry.split("/")[0]) + tuple(key[1:]),
                      dict(base, path=d["path"], from_archive=d["first"], from_entry=d["second"]))
    if name.startswith("feat:") and "corpus" in ref_extra:
        # "the loaded database does not depend on ...": also what it DOES with messages (state
        # that is derived while loading - e.g. inherited DTCs - is no dataclass field)
        col.ev()
        c2 = H.corpus(db)
        for k in sorted(ref_extra["corpus"]):
            if ref_extra["corpus"][k] != c2.get(k):
                _viol(col, ("entry-point-behaviour-differs", entry.split("/")[0], name),
                      dict(base, key=k, from_archive=ref_extra["corpus"][k], from_entry=c2.get(k)))
                break
        col.count("entry-behaviour-compared")
    ex = _db_extras(db)
    for k in ("short_name", "model_version"):
        if ex[k] != ref_extra[k]:
            _viol(col, ("entry-point-differs", entry.split("/")[0], "Database", k),
                          dict(base, from_archive=ref_extra[k], from_entry=ex[k]))
    if ex["aux"] != ref_extra["aux"]:
        _viol(col, ("entry-point-differs", entry.split("/")[0], "Database", "auxiliary_files"),
                      dict(base, from_archive=sorted(ref_extra["aux"]), from_entry=sorted(ex["aux"]),
                           differing=[k for k in set(ex["aux"]) | set(ref_extra["aux"])
                                      if ex["aux"].get(k) != ref_extra["aux"].get(k)]))


def task_entry(task: Tuple[str, int], col: common.Collector) -> None:
    _prep()
    name, nshuffles = task
    import odxtools
    from odxtools.database import Database
    try:
        pdx2 = H.write_bytes(H.load_bytes(source_bytes(name)))
        ref = H.load_bytes(pdx2)
    except Exception as e:
        # the written archive is no baseline (the round-trip leg reports that): the ways of loading
        # are compared on the source archive itself
        col.count("entry_sources_judged_on_the_source_archive")
        try:
            pdx2 = source_bytes(name)
            ref = H.load_bytes(pdx2)
        except Exception as e2:
            col.count("entry_sources_without_baseline")
            col.notes.setdefault("entry_skipped", []).append(f"{name}: {_exc(e2)}")
            return
    ref_extra = _db_extras(ref)
    if name.startswith("feat:"):
        ref_extra["corpus"] = H.corpus(ref)
    members = list(H.pdx_members(pdx2))
    r = common.rng(0, "c11-entry-" + name)
    tmp = tempfile.mkdtemp(prefix="c11_")
    try:
        path = os.path.join(tmp, "x.pdx")
        with open(path, "wb") as f:
            f.write(pdx2)
        _judge_entry(col, "load_pdx_file", name, ref, ref_extra,
                     lambda: odxtools.load_pdx_file(path), {})
        _judge_entry(col, "load_file", name, ref, ref_extra, lambda: odxtools.load_file(path), {})
        _judge_entry(col, "load_files(pdx)", name, ref, ref_extra,
                     lambda: odxtools.load_files(path), {})
        d = os.path.join(tmp, "dir")
        os.mkdir(d)
        for n, c in H.pdx_members(pdx2).items():
            with open(os.path.join(d, n), "wb") as f:
                f.write(c)
        _judge_entry(col, "load_directory", name, ref, ref_extra,
                     lambda: odxtools.load_directory(d), {})
        files = [os.path.join(d, n) for n in members]
        orders = [("as-written", files), ("sorted", sorted(files)), ("reversed", files[::-1])]
        for k in range(nshuffles):
            s = list(files)
            r.shuffle(s)
            orders.append((f"shuffled", s))
        for oname, lst in orders:
            _judge_entry(col, f"load_files/{oname}", name, ref, ref_extra,
                         lambda lst=lst: odxtools.load_files(*lst),  # type: ignore[misc]
                         {"order": [os.path.basename(x) for x in lst], "paths": "absolute"})
        # the same with names relative to the working directory (auxiliary files are keyed by
        # the given name, so this is the form in which PROG-CODE references can resolve)
        cwd = os.getcwd()
        os.chdir(d)
        try:
            for oname, lst in orders:
                rel = [os.path.basename(x) for x in lst]
                _judge_entry(col, f"load_files(relative)/{oname}", name, ref, ref_extra,
                             lambda rel=rel: odxtools.load_files(*rel),  # type: ignore[misc]
                             {"order": rel, "paths": "relative to cwd"})
        finally:
            os.chdir(cwd)
        odx = [n for n in members if H.is_odx_name(n)]
        if len(odx) == 1 and odx[0].lower().endswith(".odx-d") and not ref_extra["aux"]:
            p1 = os.path.join(d, odx[0])
            _judge_entry(col, "load_odx_d_file", name, ref, ref_extra,
                         lambda: odxtools.load_odx_d_file(p1), {})
            _judge_entry(col, "load_file(odx-d)", name, ref, ref_extra,
                         lambda: odxtools.load_file(p1), {})
        # ODX members may carry the plain ".odx" suffix or upper-case suffixes: the result must
        # not depend on the entry point for those either (the reference is the original)
        odx_members = [n for n in members if H.is_odx_name(n)]
        for vname, ren in (("plain-odx-suffix", lambda n: n.rsplit(".", 1)[0] + ".odx"),
                           ("upper-case-suffix", lambda n: n.rsplit(".", 1)[0] + "." +
                            n.rsplit(".", 1)[1].upper())):
            if not odx_members:
                break
            victim = odx_members[-1] if vname == "plain-odx-suffix" else odx_members[0]
            mapping = {n: (ren(n) if n == victim else n) for n in members}
            if len(set(mapping.values())) != len(members):
                continue
            d2 = os.path.join(tmp, "dir_" + vname)
            os.mkdir(d2)
            contents = H.pdx_members(pdx2)
            import io
            import zipfile
            zb = io.BytesIO()
            with zipfile.ZipFile(zb, "w") as zf:
                for n in members:
                    zf.writestr(mapping[n], contents[n])
                    with open(os.path.join(d2, mapping[n]), "wb") as f:
                        f.write(contents[n])
            zp2 = os.path.join(tmp, vname + ".pdx")
            with open(zp2, "wb") as f:
                f.write(zb.getvalue())
            det = {"renamed": [victim, mapping[victim]]}
            _judge_entry(col, f"renamed/{vname}/load_pdx_file", name, ref, ref_extra,
                         lambda zp2=zp2: odxtools.load_pdx_file(zp2), det)  # type: ignore[misc]
            _judge_entry(col, f"renamed/{vname}/load_directory", name, ref, ref_extra,
                         lambda d2=d2: odxtools.load_directory(d2), det)  # type: ignore[misc]
            cwd2 = os.getcwd()
            os.chdir(d2)
            try:
                rel2 = [mapping[n] for n in members]
                _judge_entry(col, f"renamed/{vname}/load_files(relative)", name, ref, ref_extra,
                             lambda rel2=rel2: odxtools.load_files(*rel2), det)  # type: ignore[misc]
            finally:
                os.chdir(cwd2)
        zorders = [("reversed", members[::-1]), ("index-first",
                                                 sorted(members, key=lambda n: n != "index.xml"))]
        for k in range(nshuffles):
            s = list(members)
            r.shuffle(s)
            zorders.append(("shuffled", s))
        for oname, order in zorders:
            z = H.rezip(pdx2, order)
            zp = os.path.join(tmp, f"re_{len(os.listdir(tmp))}.pdx")
            with open(zp, "wb") as f:
                f.write(z)
            _judge_entry(col, f"rezipped/{oname}/load_pdx_file", name, ref, ref_extra,
                         lambda zp=zp: odxtools.load_pdx_file(zp),  # type: ignore[misc]
                         {"order": order})

            def from_io(z: bytes = z) -> Any:
                db = Database()
                import io
                db.add_pdx_file(io.BytesIO(z))
                db.refresh()
                return db

            _judge_entry(col, f"rezipped/{oname}/add_pdx_file(IO)", name, ref, ref_extra, from_io,
                         {"order": order})
    finally:
        shutil.rmtree(tmp, ignore_errors=True)


# ---------------------------------------------------------------------------
# (4) single attribute perturbation

Pert = Tuple[str, Tuple[Any, ...], str, str, str]  # source, path, class, field, kind


def baseline(name: str) -> Any:
    """reloaded, unperturbed database of a source (None if the baseline does not round trip)"""
    if name not in _BASELINE:
        try:
            _BASELINE[name] = H.load_bytes(H.write_bytes(H.load_bytes(source_bytes(name))))
        except Exception:
            _BASELINE[name] = None
    return _BASELINE[name]


def classify_reload_exc(e: BaseException) -> str:
    """'syntax'  : the written XML is not well formed;
    'writer'  : the parser misses a mandatory element / meets an unknown token / cannot resolve
                a link / chokes on a value - things a scalar perturbation cannot cause by itself;
    'semantic': a consistency check of odxtools (odxraise with a message, e.g. from
                __post_init__) rejects the perturbed database: the candidate value was invalid."""
    import traceback
    from xml.etree.ElementTree import ParseError
    if isinstance(e, ParseError):
        return "syntax"
    if type(e).__name__ == "OdxError":
        names = [f.name for f in traceback.extract_tb(e.__traceback__)]
        msg = str(e)
        if "odxrequire" in names or msg.startswith(("Encountered unknown", "Unknown")):
            return "writer"
        return "semantic"
    return "writer"


def _jsonval(v: Any) -> Any:
    if isinstance(v, enum.Enum):
        return f"{type(v).__name__}.{v.name}"
    return common.jsonable(v)


def try_candidate(p: Pert, value: Any) -> Tuple[str, Dict[str, Any]]:
    """-> (verdict, info); verdict in invalid | preserved | attr-lost | attr-altered |
    write-raises | reload-raises | xml-syntax"""
    name, path, cls, field, kind = p
    db = H.load_bytes(source_bytes(name))
    obj = H.get_path(db, path)
    old = getattr(obj, field)
    if H._leaf_equal(old, value):
        return "invalid", {"why": "same value"}
    try:
        dataclasses.replace(obj, **{field: value})
    except Exception as e:
        return "invalid", {"why": "__post_init__: " + _exc(e)}
    setattr(obj, field, value)
    if field == "code_file" and isinstance(value, str):
        import io
        db.add_auxiliary_file(value, io.BytesIO(b"c11"))  # the referenced file has to exist
    try:
        db.refresh()
    except Exception as e:
        return "invalid", {"why": "refresh: " + _exc(e)}
    info: Dict[str, Any] = {"old": _jsonval(old), "new": _jsonval(value)}
    try:
        pdx = H.write_bytes(db)
    except Exception as e:
        info["problem"] = _exc(e)
        return "write-raises", info
    try:
        db2 = H.load_bytes(pdx)
    except Exception as e:
        info["problem"] = _exc(e)
        k = classify_reload_exc(e)
        if k == "semantic":
            return "invalid", {"why": "reload (consistency check): " + _exc(e)}
        if k != "syntax" and type(value).__name__ == "DataType":
            # a changed data type makes the literals that are typed by it (limits, constants,
            # default values - written for the old type) unreadable: the candidate was no
            # local change of one attribute
            return "invalid", {"why": "reload (literals of the old type): " + _exc(e)}
        return ("xml-syntax" if k == "syntax" else "reload-raises"), info
    try:
        got = getattr(H.get_path(db2, path), field)
        info["read_back"] = _jsonval(got)
    except Exception as e:
        info["read_back"] = "path no longer exists: " + _exc(e)
        return "attr-lost", info
    if H._leaf_equal(got, value):
        return "preserved", info
    # invisible in the output (same as the unperturbed round trip) => lost, else altered
    b = baseline(name)
    try:
        bval = getattr(H.get_path(b, path), field) if b is not None else None
    except Exception:
        bval = None
    info["unperturbed_round_trip_gives"] = _jsonval(bval)
    if H._leaf_equal(got, bval) or H._empty(got):
        return "attr-lost", info
    return "attr-altered", info


def judge_perturbation(p: Pert, col: common.Collector,
                       skip: Sequence[str] = ()) -> Tuple[set, set]:
    """Judge one site.  Value domains are grouped: 'primary' (typed candidates: bool, int, float,
    enum, numeric-as-string, XHTML, bytes), 'plain' and 'meta' (free text).  Returns (groups the
    field's domain has at this site, groups that were judged or are blocked by a finding)."""
    name, path, cls, field, kind = p
    db = H.load_bytes(source_bytes(name))
    obj = H.get_path(db, path)
    cur = getattr(obj, field)
    cands = H.candidates(cls, field, kind, cur, H.enum_type(type(obj), field))
    base = {"mode": "perturb", "source": name, "path": list(path), "cls": cls, "field": field,
            "kind": kind, "path_str": H.path_str(path + (field,))}
    text = [c for c in cands if c[0] in ("plain", "meta")]
    pre = [c for c in cands if c[0] not in ("plain", "meta", "whitespace")]
    want = set()
    if pre:
        want.add("primary")
    if text:
        want |= {"plain", "meta"}
    done: set = set()

    def judged(v: str, label: str, info: Dict[str, Any]) -> bool:
        """account for one valid judged candidate; True if the value was preserved"""
        col.ev()
        col.nontrivial((cls, field, label))
        col.count("perturbed:" + label)
        if v == "preserved":
            col.count("preserved")
            if label in ("meta", "explicit-false", "enum", "numstr"):
                col.sample(dict(base, value_domain=label, verdict=v, **info), limit=8)
            return True
        if v == "xml-syntax":
            v = "attr-misescaped" if label == "meta" else "reload-raises"
        elif label == "meta" and v != "write-raises":
            info = dict(info, observed_as=v)
            v = "attr-misescaped"
        _viol(col, (v, cls, field), dict(base, value_domain=label, **info))
        return False

    if pre and "primary" not in skip:
        if kind == "bool" and cur is None and len(pre) > 1:
            for label, value in pre:  # explicit false AND true are both judged
                v, info = try_candidate(p, value)
                if v != "invalid":
                    done.add("primary")
                    judged(v, label, info)
        else:
            for label, value in pre[:6]:
                v, info = try_candidate(p, value)
                if v == "invalid":
                    col.count("candidates_rejected_as_invalid")
                    continue
                done.add("primary")
                if not judged(v, label, info):
                    return want, want  # a finding: free text on the same field adds nothing
                break
    if text:
        if "plain" not in skip:
            v, info = try_candidate(p, H.PLAIN)
            if v == "invalid":
                col.count("candidates_rejected_as_invalid")
                return want, done
            done.add("plain")
            if not judged(v, "plain", info):
                return want, done | {"meta"}  # lost anyway: escaping cannot be judged
        if "meta" not in skip:
            v, info = try_candidate(p, H.META)
            if v == "invalid":
                col.count("candidates_rejected_as_invalid")
                return want, done
            done.add("meta")
            if judged(v, "meta", info):
                # tab and line feed: literal in element text, character references in attributes
                v, info = try_candidate(p, H.WHITESPACE)
                if v == "invalid":
                    col.count("candidates_rejected_as_invalid")
                elif v == "attr-altered" and isinstance(info.get("read_back"), str) and \
                        __import__("re").sub(r"\n[ \t]+", "\n", info["read_back"]) == H.WHITESPACE:
                    # one mechanism for every element text: the templates indent whole blocks,
                    # so the indentation of the block is inserted after each line feed
                    col.ev()
                    col.count("perturbed:whitespace")
                    _viol(col, ("line-feed-in-text-gets-block-indentation", "element-text"),
                          dict(base, value_domain="whitespace", **info))
                else:
                    judged(v, "whitespace", info)
    return want, done


PertSite = Tuple[Pert, List[Pert]]  # primary site, alternative sites of the same (class, field)


def judge_pair(site: PertSite, col: common.Collector) -> None:
    """The validity of a candidate can depend on the instance (a COMPU-CONST V of a numeric DOP
    cannot take free text, one of a string DOP can): domains that are infeasible on the primary
    site are retried on up to five alternative instances."""
    p, alts = site
    want, done = judge_perturbation(p, col)
    for a in alts[:5]:
        if want and want <= done:
            break
        w2, d2 = judge_perturbation(a, col, skip=sorted(done))
        want |= w2
        done |= d2
    for g in sorted(done):
        col.notes.setdefault("_judged_groups", []).append(f"{p[2]}.{p[3]} ({g})")
    for g in sorted(want - done):
        col.count("sites_where_a_value_domain_was_infeasible")
        col.notes.setdefault("infeasible", []).append(f"{p[2]}.{p[3]} ({g})")


def task_perturb(ps: List[PertSite], col: common.Collector) -> None:
    _prep()
    for site in ps:
        try:
            judge_pair(site, col)
        except Exception as e:  # harness trouble with one perturbation must not hide the others
            col.fail_inconclusive(f"perturbation {site[0][2]}.{site[0][3]} on {site[0][0]} "
                                  f"crashed: {_exc(e)}")


# ---------------------------------------------------------------------------
# planning and coverage


def inventory_classes() -> Dict[str, type]:
    """all dataclasses of odxtools that have a from_et-like constructor"""
    import importlib
    import odxtools
    inv: Dict[str, type] = {}
    root = os.path.dirname(odxtools.__file__)
    for dp, dn, fn in os.walk(root):
        if os.sep + "cli" in dp or "templates" in dp or "__pycache__" in dp:
            continue
        for f in fn:
            if not f.endswith(".py") or f == "__main__.py":
                continue
            rel = os.path.relpath(os.path.join(dp, f), os.path.dirname(root))[:-3].replace(os.sep, ".")
            if rel.endswith(".__init__"):
                rel = rel[:-9]
            try:
                mod = importlib.import_module(rel)
            except Exception:
                continue
            for n, c in vars(mod).items():
                if isinstance(c, type) and dataclasses.is_dataclass(c) and c.__module__ == rel and \
                        any("from_et" in k for k in dir(c)):
                    inv[c.__name__] = c
    return inv


def plan(tier: str, usable: Sequence[str], col: common.Collector) -> List[PertSite]:
    _prep()
    r = random.Random(common.seed() * 7919 + 11)
    # instances per (class, field): [(source, path, kind, non_default)]
    inst: Dict[Tuple[str, str], List[Tuple[str, Tuple[Any, ...], str, Any]]] = {}
    populated: set = set()
    seen_classes: set = set()
    dropped: set = set()
    for name in source_names():
        try:
            db = H.load_bytes(source_bytes(name))
        except Exception:
            continue
        base_db = baseline(name) if name in usable else None

        def visit(o: Any, path: Tuple[Any, ...], name: str = name, base_db: Any = base_db) -> None:
            cn = type(o).__name__
            seen_classes.add(cn)
            for f in dataclasses.fields(o):
                if not H._empty(getattr(o, f.name, None)):
                    populated.add((cn, f.name))
            if base_db is not None:
                try:
                    # the element itself must survive the unperturbed round trip, otherwise a
                    # perturbation of its attributes says nothing about *these* attributes
                    alive = type(H.get_path(base_db, path)).__name__ == cn
                except Exception:
                    alive = False
                for fname, kind in H.perturbable_fields(o):
                    if alive:
                        cur = getattr(o, fname)
                        # True: present; for strings additionally "text" if it is not a number
                        flavour: Any = cur is not None
                        if isinstance(cur, str) and not (H._INT_RE.match(cur) or
                                                         H._FLOAT_RE.match(cur)):
                            flavour = "text"
                        inst.setdefault((cn, fname), []).append((name, path, kind, flavour))
                    else:
                        dropped.add((cn, fname))

        H.walk(db, visit)
    col.notes["pairs_only_inside_elements_the_writer_drops"] = sorted(
        f"{c}.{f}" for c, f in dropped if (c, f) not in inst)
    # coverage of the parser's inventory
    inv = inventory_classes()
    sub = {n: c for n, c in inv.items()}
    abstract = {n for n, c in sub.items()
                if n not in seen_classes and any(issubclass(o, c) and o is not c for o in sub.values())}
    all_pairs, all_scalar = [], []
    for n, c in sorted(inv.items()):
        if n in abstract or getattr(c, "__dataclass_params__").frozen:
            continue
        for f in dataclasses.fields(c):
            all_pairs.append((n, f.name))
        hints = H.hints_of(c)
        for f in dataclasses.fields(c):
            if f.name in H.KEY_NAMES or f.name.endswith(H.KEY_SUFFIXES) or f.name in H.CONTEXT_FIELDS:
                continue
            if H.scalar_kind(c, f.name, None) is not None or \
                    (n, f.name) in inst:
                all_scalar.append((n, f.name))
    never = [f"{n}.{f}" for n, f in all_pairs if (n, f) not in populated]
    col.notes["coverage"] = {
        "element_classes_with_parser": len(inv) - len(abstract),
        "element_classes_instantiated": len([n for n in inv if n in seen_classes]),
        "class_field_pairs": len(all_pairs),
        "class_field_pairs_populated_in_some_source": len(all_pairs) - len(never),
        "fraction_populated": round(1 - len(never) / max(1, len(all_pairs)), 3),
        "scalar_non_key_pairs": len(all_scalar),
        "scalar_non_key_pairs_with_a_perturbable_instance": len(
            [p for p in all_scalar if p in inst]),
    }
    col.notes["never_populated"] = never
    col.notes["classes_never_instantiated"] = sorted(
        n for n in inv if n not in seen_classes and n not in abstract)
    col.notes["scalar_pairs_without_perturbable_instance"] = [
        f"{n}.{f}" for n, f in all_scalar if (n, f) not in inst]
    # choose instances
    per_pair = 1 if tier == "quick" else 6
    budget = 1100 if tier == "quick" else 10 ** 9
    chosen: List[PertSite] = []
    pairs = sorted(inst)
    if len(pairs) * per_pair > budget:
        # always at least one perturbation per element class, then fill up at random
        by_class: Dict[str, List[Tuple[str, str]]] = {}
        for pr in pairs:
            by_class.setdefault(pr[0], []).append(pr)
        must = [r.choice(v) for _, v in sorted(by_class.items())]
        rest = [pr for pr in pairs if pr not in must]
        r.shuffle(rest)
        pairs = sorted(must + rest[:max(0, budget - len(must))])
        col.notes["sampled"] = True
    for pr in pairs:
        cands = inst[pr]
        # prefer the main sources, and instances where the attribute is present, but keep it random
        main = [c for c in cands if c[0] in MAIN_SOURCES] or cands
        present = [c for c in main if c[3]]
        absent = [c for c in main if not c[3]]
        picks: List[Tuple[str, Tuple[Any, ...], str, Any]] = []
        if present:
            picks.append(r.choice(present))
        if absent and (len(picks) < per_pair):
            picks.append(r.choice(absent))
        while len(picks) < per_pair and len(picks) < len(main):
            extra = r.choice(main)
            if extra not in picks:
                picks.append(extra)
        others = [c for c in cands if c not in picks]
        r.shuffle(others)
        others.sort(key=lambda c: 0 if c[3] == "text" else 1)  # stable: free text sites first
        # alternatives: instances with a different current value first (other value domains)
        alts = [(n2, p2, pr[0], pr[1], k2) for n2, p2, k2, _ in others[:12]]
        for k, (name, path, kind, _) in enumerate(picks[:per_pair]):
            chosen.append(((name, path, pr[0], pr[1], kind), alts if k == 0 else []))
    col.notes["coverage"]["pairs_perturbed_this_run"] = len({(p[0][2], p[0][3]) for p in chosen})
    col.notes["coverage"]["perturbation_sites_this_run"] = len(chosen)
    return chosen


def run(tier: str, col: common.Collector) -> None:
    import time
    t0 = time.time()
    phases: Dict[str, float] = {}

    def lap(nm: str) -> None:
        nonlocal t0
        phases[nm] = round(time.time() - t0, 2)
        t0 = time.time()

    col.notes["phase_wall_s"] = phases
    names = source_names()
    common.pmap(task_roundtrip, names, col, timeout=300)
    lap("roundtrips")
    common.pmap(task_cache_selfcheck, ["somersault", "rich-core"], col, timeout=300)
    common.pmap(task_history, ["somersault", "rich-core"], col, timeout=600)
    if not col.counters.get("history-roundtrips"):
        col.fail_inconclusive("the write-history leg did not run")
    lap("cache_selfcheck")
    if not col.counters.get("cache_selfcheck_ok"):
        col.fail_inconclusive("template cache self check did not run")
    usable = list(col.notes.get("usable_sources", []))
    col.notes["sources"] = names
    for m in MAIN_SOURCES:
        if m not in usable:
            col.fail_inconclusive(f"main source {m} has no working baseline round trip: its "
                                  "elements cannot be perturbed")
    entry_sources = [(m, 2 if tier == "quick" else 12) for m in MAIN_SOURCES if m in usable]
    entry_sources += [(n, 1 if tier == "quick" else 4) for n in usable
                      if n in ("feat:table-key-snrefs", "feat:sub-component-plain",
                               "feat:two-containers-inheritance")]
    # no round trip (known finding: references that leave their document): judged on the source
    entry_sources += [(n, 1 if tier == "quick" else 4) for n in names
                      if n in ("feat:linked-dtc-dops-two-files",)]
    perts = plan(tier, usable, col)
    lap("plan")
    r = random.Random(common.seed() + 5)
    r.shuffle(perts)
    chunk = 6
    tasks = [perts[i:i + chunk] for i in range(0, len(perts), chunk)]
    common.pmap(task_entry, entry_sources, col, timeout=600)
    lap("entry_points")
    common.pmap(task_perturb, tasks, col, timeout=900 if tier == "thorough" else 240)
    lap("perturbations")
    judged_groups = set(col.notes.pop("_judged_groups", []))
    # value domains that could not be exercised at ANY chosen site of the (class, field) pair
    col.notes["infeasible"] = sorted(set(col.notes.get("infeasible", [])) - judged_groups)
    if not col.counters.get("preserved"):
        col.fail_inconclusive("no perturbation was ever preserved: the perturbation oracle is "
                              "not reaching the writer")
    if not col.counters.get("perturbed:meta"):
        col.fail_inconclusive("no metacharacter perturbation was judged")
    if not col.counters.get("entry:load_directory"):
        col.fail_inconclusive("load_directory was never compared")


def replay(w: Dict[str, Any], col: common.Collector) -> None:
    """Re-run the source / site of the witness; only the witness' own signature is re-judged
    (a whole-source round trip shows every difference of that source)."""
    _prep()
    mode = w.get("mode")
    tmp = common.Collector()
    if mode == "roundtrip":
        task_roundtrip(w["source"], tmp)
    elif mode == "entry":
        task_entry((w["source"], 4), tmp)
    elif mode == "perturb":
        path = tuple(w["path"])
        judge_pair(((w["source"], path, w["cls"], w["field"], w["kind"]), []), tmp)
    want = tuple(str(x) for x in w.get("sig", ()))
    col.evaluations += tmp.evaluations
    for r in tmp.inconclusive:
        col.fail_inconclusive(r)
    for sig, ent in tmp.violations.items():
        if not want or sig == want:
            for d in ent["witnesses"]:
                col.violation(sig, d)

