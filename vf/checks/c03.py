"""C03 - decoding a PDU and re-encoding the result reproduces the PDU.

Events: for a canonical PDU P built by the reference interpreter: d = decode(P) and
encode(value-carrying part of d); the same through DiagLayer.decode(P)[..].param_dict fed to
DiagService.encode_request; for compu methods of every category: decode -> encode of the PDU
holding each valid internal value (internal -> physical -> internal is the identity for
injective conversions).
"""
from __future__ import annotations

import random
from typing import Any, Dict, List, Optional, Tuple

from .. import c07gen, codeccompose, codecgen, codecrun, common, odxgen, refcompu, refodx
from .c02 import used_dobjs

PROPERTY = "C03"
LEVEL = "exploration"
RULE = ("(a) grid + probe + composed descriptions (see C02): PDUs built by the reference "
        "interpreter from representable assignments (hence canonical: undescribed bits zero, "
        "decimal BCD, no negative zero, no embedded terminator) are decoded by the real object and "
        "the value-carrying part of the result is encoded again, directly and through "
        "DiagLayer.decode / DiagService.encode_request; (b) compu methods of all 8 categories "
        "(generator of C07) in 8/16-bit integer DOPs: for every internal value the exact "
        "reference declares valid - all of them for 8-bit domains - of an injective method whose "
        "image is not a rounding tie, the PDU holding it is decoded and re-encoded. "
        "Distinct+non-trivial = distinct (cell / layout / compu case, value) re-encoded")
MIN_EVALS = {"quick": 30000, "thorough": 500000}
ASSUMPTIONS = [
    "vf/refodx.py builds the canonical PDUs; vf/refcompu.py decides validity, injectivity and "
    "rounding ties (ties and non-injective methods are excluded by the statement)",
    "RESERVED, NRC-CONST, MATCHING-REQUEST-PARAM and constant parameters are removed from the "
    "decoded dictionary before re-encoding (they carry no caller value)",
]

VALUE_KINDS = ("VALUE", "SYSTEM", "LENGTH-KEY", "TABLE-KEY", "TABLE-STRUCT")


def strip(params: List[Dict[str, Any]], d: Any, dobjs: Dict[str, Dict[str, Any]]) -> Any:
    """Keep only what a caller would supply."""
    if not isinstance(d, dict):
        return d
    out: Dict[str, Any] = {}
    for p in params:
        n = p["name"]
        if p["p"] not in VALUE_KINDS or n not in d:
            continue
        v = d[n]
        o = dobjs.get(p.get("dop") or "")
        out[n] = strip_value(o, v, dobjs) if o is not None else v
    return out


def strip_value(o: Dict[str, Any], v: Any, dobjs: Dict[str, Dict[str, Any]]) -> Any:
    t = o["t"]
    if t in ("STRUCT", "ENVDATA"):
        return strip(o["params"], v, dobjs)
    if t in ("SFIELD", "DLFIELD", "EOPFIELD", "EMFIELD") and isinstance(v, (list, tuple)):
        st = dobjs[o["struct"]]
        return [strip_value(st, x, dobjs) for x in v]
    if t == "MUX" and isinstance(v, (list, tuple)) and len(v) == 2:
        case = next((c for c in (o.get("cases") or []) + ([o["default"]] if o.get("default") else [])
                     if c["name"] == v[0]), None)
        if case is not None and case.get("struct"):
            return (v[0], strip_value(dobjs[case["struct"]], v[1], dobjs))
        return v
    if t == "ENVDESC" and isinstance(v, dict):
        out: Dict[str, Any] = {}
        for n in o["envdatas"]:
            out.update(strip(dobjs[n]["params"], v, dobjs))
        return out
    return v


def judge_case(col: common.Collector, ll: codecrun.LoadedLayer, msg: Dict[str, Any], obj: Any,
               values: Dict[str, Any], request: Optional[bytes], cell: str, nt: Any,
               svc: Any = None) -> None:
    kind, enc = codecrun.ref_encode(ll.ref, msg, values, request)
    if kind != "ok":
        col.count("not-canonical:" + kind)
        return
    if (enc.overlap or enc.endmarker) and not (enc.endmarker and not enc.conflict):
        # (an end-marker field followed by its marker as a constant claims the marker's bits
        # twice with the same value: that PDU is as canonical as any)
        col.count("not-canonical:overlap")
        return
    P = enc.pdu
    d = codecrun.decode(obj, P)
    if not d.ok:
        col.count("decode-failed(C02)")
        return
    dobjs = ll.ref.dobjs
    supplied = strip(msg["params"], d.value, dobjs)
    e = codecrun.encode(obj, supplied, request)
    col.ev()
    col.nontrivial((cell, nt))

    def bad(clause: str, where: str, text: str, **extra: Any) -> None:
        dd = {"layer": ll.model["name"], "message": msg, "dobjs": used_dobjs(ll.model, msg),
              "values": values, "request": request, "pdu": P, "decoded": d.value,
              "re_encoded_from": supplied, "problem": text}
        dd.update(extra)
        col.violation((clause, where), dd)

    where = msg.get("shape") or cell
    if not e.ok:
        bad("reencode-raises", f"{e.exc_type}/{where}", f"{e.exc_type}: {e.exc}")
        return
    if e.value != P:
        # which parameter's bytes differ
        k2, rd = codecrun.ref_decode(ll.ref, msg, e.value, request)
        off = codecrun.offender(ll.ref, msg, rd[0], values) if k2 == "ok" else "undecodable"
        if off == "unlocated":
            off = where
        bad("reencode-differs", off, f"decode({P.hex()}) re-encodes to {e.value.hex()}")
        return
    if svc is not None and request is None:
        lo = codecrun.call(ll.layer.decode, P)
        col.ev()
        if lo.ok:
            hits = [m for m in lo.value if m.service is svc and m.coding_object is obj]
            if hits:
                sup2 = strip(msg["params"], hits[0].param_dict, dobjs)
                e2 = codecrun.call(svc.encode_request, **sup2)
                if not e2.ok:
                    bad("layer-reencode-raises", f"{e2.exc_type}/{where}", f"{e2.exc_type}: {e2.exc}")
                elif bytes(e2.value) != P:
                    bad("layer-reencode-differs", where, f"encode_request gives {bytes(e2.value).hex()}")
                col.count("layer-roundtrips")


def run_layer(task: Tuple, col: common.Collector) -> None:
    mode, model, tier, wseed = task
    r = random.Random(wseed)
    try:
        ll = codecrun.LoadedLayer(model)
    except Exception as e:
        col.fail_inconclusive(f"generated layer {model['name']} does not load: {type(e).__name__}: {e}")
        return
    dobjs = {o["name"]: o for o in model["dobjs"]}
    svc_of = {s.request.short_name: s for s in ll.layer.services if s.request is not None}
    for rq in model["requests"]:
        obj = ll.requests.get(rq["name"])
        if obj is None:
            continue
        if mode == "grid":
            cell = codecrun.coarse_cell(rq["feat"])
            assigns = codecgen.assignments_for(rq, dobjs, tier, r, hostile=False)
        else:
            cell = "compose:" + rq.get("shape", "?")
            assigns = codeccompose.assignments(rq, model, r, n=8 if tier == "quick" else 25)
        step = max(1, len(assigns) // 30)
        for n, vals in enumerate(assigns):
            v = vals.get("x", vals.get("st")) if mode == "grid" else None
            if isinstance(v, dict):
                v = v.get("x")
            nt = (rq["feat"].get("bits"), rq["feat"].get("bitpos"), rq["feat"].get("shape"),
                  repr(v)[:24]) if mode == "grid" else (rq["name"], n)
            judge_case(col, ll, rq, obj, vals, None, cell, nt,
                       svc=svc_of.get(rq["name"]) if n % step == 0 else None)
        col.count("cell:" + (str(rq["feat"].get("dct")) if mode == "grid" else "compose"))
        for pr in model["pos"]:
            if pr.get("for") != rq["name"] or not assigns:
                continue
            pobj = ll.pos.get(pr["name"])
            if pobj is None:
                continue
            k, e = codecrun.ref_encode(ll.ref, rq, assigns[0])
            req_pdu = e.pdu if k == "ok" else bytes([0x22, 1, 2, 3, 4, 5, 6, 7])
            pa = assigns[::max(1, len(assigns) // 8)] if mode == "grid" else \
                codeccompose.assignments(pr, model, r, n=4)
            for n, vals in enumerate(pa):
                judge_case(col, ll, pr, pobj, vals, req_pdu, cell + "/response", (pr["name"], n))
            col.count("responses")
    if model["requests"]:
        rq = model["requests"][len(model["requests"]) // 2]
        col.sample({"mode": mode, "layer": model["name"], "message": rq["name"],
                    "features": rq.get("feat")}, limit=3)


# ---------------------------------------------------------------------------
# (b) compu identity through PDUs


def raw_of(v: int, bits: int) -> bytes:
    return (v & ((1 << bits) - 1)).to_bytes(bits // 8, "big")


def run_compu(task: Tuple, col: common.Collector) -> None:
    cases, tier, wseed = task
    r = random.Random(wseed)
    cases = [c for c in cases if c["itype"] in ("A_INT32", "A_UINT32") and c["bits"] in (8, 16)
             and c["cat"] != "COMPUCODE" and not c.get("risky")]
    if not cases:
        return
    # (a coarse PRECISION - a display hint - on every second real-valued physical type)
    dops = [odxgen.dop(f"d{k}", odxgen.dct_std(c["itype"], c["bits"]), ptype=c["ptype"],
                       compu=c["compu"],
                       precision=(k % 3 if c["ptype"] in ("A_FLOAT32", "A_FLOAT64") and k % 2 else None),
                       radix=("HEX" if c["ptype"] in ("A_UINT32", "A_INT32") and k % 4 == 1 else None))
            for k, c in enumerate(cases)]
    reqs = [{"name": f"rq{k}", "params": [odxgen.u8const("sid", 0x22, 0),
                                          odxgen.p_value("v", f"d{k}", 1)]}
            for k in range(len(cases))]
    model = odxgen.simple_layer("C03L", dops, reqs)
    try:
        layer = odxgen.load_layer(model)
    except Exception as e:
        col.count("compu-batch-not-loadable")
        # load one by one would be C07's business; skip the batch
        return
    svc = {s.request.short_name: s for s in layer.services}
    for k, c in enumerate(cases):
        refs = refcompu.Compu.readings(c["compu"], c["itype"], c["ptype"])
        try:
            inj = all(x.injective() for x in refs)
        except Exception:
            inj = False
        if not inj:
            col.count("compu-not-injective")
            continue
        if c["cat"] == "SCALE-LINEAR":
            # by the ODX rule (and the clause C07 spells out) only monotone continuous
            # piecewise-linear methods are invertible
            try:
                mono = all(x.monotone_continuous() for x in refs)
            except Exception:
                mono = False
            if not mono:
                col.count("compu-scale-linear-not-monotone-continuous")
                continue
        ref = refs[0]
        lo, hi = c07gen.domain(c["itype"], c["bits"])
        dom = range(lo, hi + 1) if c["bits"] == 8 else \
            sorted(set(r.sample(range(lo, hi + 1), 150 if tier == "quick" else 1500)))
        req = svc[f"rq{k}"].request
        tp = c07gen.type_pair(c["itype"], c["ptype"])
        done = 0
        for i in dom:
            try:
                if not all(x.valid_internal(i) for x in refs):
                    continue
                exact = ref.i2p_exact(i)
                if any(x.i2p_exact(i) != exact for x in refs[1:]):
                    continue
                if not isinstance(exact, str) and ref.is_tie(exact, "i2p", ref.i2p_magnitude(i)):
                    col.count("compu-tie-skipped")
                    continue
            except (refcompu.Invalid, refcompu.NotInvertible):
                continue
            P = bytes([0x22]) + raw_of(i, c["bits"])
            d = codecrun.decode(req, P)
            if not d.ok:
                col.count("compu-decode-failed(C07)")
                continue
            e = codecrun.encode(req, {"v": d.value["v"]})
            col.ev()
            done += 1
            if not e.ok:
                col.violation(("compu-reencode-raises", c["cat"], tp, kinds_tag(c)),
                              {"case": c, "internal": i, "pdu": P, "physical": d.value["v"],
                               "problem": f"{e.exc_type}: {e.exc}"})
            elif e.value != P:
                col.violation(("compu-roundtrip-not-identity", c["cat"], tp, kinds_tag(c)),
                              {"case": c, "internal": i, "pdu": P, "physical": d.value["v"],
                               "re_encoded": e.value})
        if done:
            col.nontrivial(("compu", c["id"] if "id" in c else k, c["cat"], tp, done))
            col.count("compu-cat:" + c["cat"])
    col.sample({"compu_case": cases[0]["cat"], "types": [cases[0]["itype"], cases[0]["ptype"]],
                "compu": cases[0]["compu"]}, limit=2)


def kinds_tag(c: Dict[str, Any]) -> str:
    """Same mechanism tag as C07: limits next to OPEN bounds / slopes below one are derived from
    rounded images by odxtools (known finding)."""
    lk = c.get("lk") or []
    if c["cat"] in ("LINEAR", "SCALE-LINEAR") and "open" in lk:
        return "open-limit"
    return "plain"


def run(tier: str, col: common.Collector) -> None:
    seed = common.seed()
    tasks: List[Tuple] = []
    glayers = codecgen.grid_layers(tier, seed, per_layer=60)
    if tier == "quick":
        glayers = glayers[(seed + 1) % 2::2]
    for i, m in enumerate(glayers):
        tasks.append(("grid", m, tier, seed * 100003 + i))
    for i, m in enumerate(codeccompose.layers(tier, seed)):
        tasks.append(("compose", m, tier, seed * 100019 + i))
    common.pmap(run_layer, tasks, col)
    cases = list(c07gen.systematic(seed))
    r = random.Random(seed + 3)
    cases += list(c07gen.randomized(r, 1500 if tier == "quick" else 40000))
    for n, c in enumerate(cases):
        c.setdefault("id", f"c{n}")
    batch = 60
    ctasks = [(cases[i:i + batch], tier, seed * 77 + i) for i in range(0, len(cases), batch)]
    common.pmap(run_compu, ctasks, col)
    need = ["cell:STD", "cell:MINMAX", "cell:LEAD", "cell:compose", "responses", "layer-roundtrips"] + \
        ["compu-cat:" + c for c in ("IDENTICAL", "LINEAR", "SCALE-LINEAR", "TEXTTABLE", "TAB-INTP",
                                    "RAT-FUNC")]
    for n in need:
        if not col.counters.get(n):
            col.fail_inconclusive(f"monitor counter {n} stayed at zero")


def replay(w: Dict[str, Any], col: common.Collector) -> None:
    if "case" in w:
        run_compu(([w["case"]], "quick", 0), col)
        return
    msg = w["message"]
    is_resp = w.get("request") is not None
    model: Dict[str, Any] = {"kind": "BASE-VARIANT", "name": "replay", "dobjs": w.get("dobjs", []),
                             "neg": [], "gneg": [], "pos": []}
    if is_resp:
        model["requests"] = [{"name": "rq_dummy", "params": [codecgen.u8const("sid", 0x22)]}]
        model["pos"] = [msg]
        model["services"] = [{"name": "svc", "request": "rq_dummy", "pos": [msg["name"]], "neg": []}]
    else:
        model["requests"] = [msg]
        model["services"] = [{"name": "svc", "request": msg["name"], "pos": [], "neg": []}]
    ll = codecrun.LoadedLayer(model)
    obj = (ll.pos if is_resp else ll.requests)[msg["name"]]
    judge_case(col, ll, msg, obj, w["values"], w.get("request"), "replay", "replay",
               svc=None if is_resp else ll.layer.services[0])
