"""C01 - encoding a message and decoding it returns the values that were encoded.

Events: (description, values) accepted by Request.encode / Response.encode(coded_request=..),
the result of decode() of the produced PDU with the same object and of DiagLayer.decode on
the enclosing layer.
Oracle: supplied values come back (after the quantisation the description prescribes, which
the reference interpreter computes); constants, defaults, keys equal the reference's reading
of the same PDU; the PDU is consumed entirely; no exception.
"""
from __future__ import annotations

import random
from typing import Any, Dict, List, Optional, Tuple

from .. import codeccompose, codecgen, codecrun, common, refodx
from .c02 import used_dobjs
from .c04 import _restrict

PROPERTY = "C01"
LEVEL = "exploration"
RULE = ("grid + probe + randomly composed descriptions (see C02) including the constructs that "
        "are outside the bit-exactness oracle (condensed masks, masks on signed integers, "
        "TABLE-ROW-REF keys, length key listed after its user), each with value assignments "
        "drawn from the representable set; requests and responses (with coded_request); every "
        "accepted assignment is decoded again by the same object, by the enclosing layer, and "
        "with one byte appended. Distinct+non-trivial = distinct (cell/layout, value class) "
        "whose PDU was produced and decoded")
MIN_EVALS = {"quick": 20000, "thorough": 300000}
ASSUMPTIONS = [
    "expected derived values (defaults, constants, keys, quantised numbers) come from "
    "vf/refodx.py; where the reference declines (outside its envelope) only the supplied values "
    "are compared, with 1e-6 relative slack for floats",
]


def open_ended(msg: Dict[str, Any], dobjs: Dict[str, Dict[str, Any]]) -> bool:
    """Does the description contain an object whose extent depends on the PDU length?"""
    seen = set()

    def dob(name: str) -> bool:
        if name in seen or name not in dobjs:
            return False
        seen.add(name)
        o = dobjs[name]
        t = o["t"]
        if t in ("EOPFIELD", "EMFIELD"):
            return True
        if t in ("DOP", "DTCDOP"):
            return o["dct"]["k"] == "MINMAX"
        if "params" in o and params(o["params"]):
            return True
        for key in ("struct",):
            if o.get(key) and dob(o[key]):
                return True
        for c in (o.get("cases") or []) + ([o["default"]] if o.get("default") else []):
            if c.get("struct") and dob(c["struct"]):
                return True
        for r in o.get("rows") or []:
            for key in ("struct", "dop"):
                if r.get(key) and dob(r[key]):
                    return True
        for n in o.get("envdatas") or []:
            if dob(n):
                return True
        return False

    def params(ps: List[Dict[str, Any]]) -> bool:
        for p in ps:
            if p.get("dop") and dob(p["dop"]):
                return True
            if p["p"] == "TABLE-KEY":
                t = p.get("table") or (p.get("row") or [None])[0]
                if t and dob(t):
                    return True
        return False

    return params(msg["params"])


def judge_case(col: common.Collector, ll: codecrun.LoadedLayer, msg: Dict[str, Any], obj: Any,
               values: Dict[str, Any], request: Optional[bytes], cell: str, nt: Any,
               via_layer: bool, svc: Any = None) -> None:
    o = codecrun.encode(obj, values, request)
    if not o.ok:
        col.count("encoder-rejected")
        return
    pdu = o.value
    col.ev()
    col.nontrivial((cell, nt))

    def bad(clause: str, where: str, text: str, **extra: Any) -> None:
        d = {"layer": ll.model["name"], "message": msg, "dobjs": used_dobjs(ll.model, msg),
             "values": values, "request": request, "pdu": pdu, "problem": text}
        d.update(extra)
        col.violation((clause, where), d)

    if o.overlap_warnings:
        # the description makes two objects claim the same bits and the encoder said so: what
        # the later object overwrote cannot be expected back (nor to be decodable at all).
        # That excuse only holds if the description really overlaps: a warning for a layout in
        # which the reference finds no bit claimed twice does not excuse anything
        k0, e0 = codecrun.ref_encode(ll.ref, msg, values, request)
        # (the ODX pattern "end-marker field followed by its marker as a constant" claims the
        # marker's bits twice, with the same value: nothing is overwritten there)
        benign = k0 == "ok" and e0.endmarker and not e0.conflict
        if not (k0 == "ok" and not e0.overlap and not e0.endmarker) and not benign:
            col.count("not-judged:overlap-warning-issued")
            return
        col.count("overlap-is-the-end-marker-pattern" if benign else "overlap-warning-without-overlap")
    d = codecrun.decode(obj, pdu)
    if not d.ok and d.exc_type == "DecodeMismatch" and any(p["p"] == "NRC-CONST" for p in msg["params"]):
        # which NRC values a negative response admits is a matching question (C06)
        col.count("not-judged:nrc-const-overlaid")
        return
    if not d.ok:
        bad("decode-of-own-pdu-raises",
            d.exc_type + "/" + (msg.get("shape") or codecrun.offender_any(ll.ref, msg)),
            f"{d.exc_type}: {d.exc}", decode=d.brief())
        return
    kind, enc = codecrun.ref_encode(ll.ref, msg, values, request)
    expected: Any = values
    have_ref = False
    if kind == "ok":
        k3, rd = codecrun.ref_decode(ll.ref, msg, enc.pdu, request)
        if k3 == "ok":
            expected = _restrict(rd[0], values)
            have_ref = True
    elif kind == "unrepresentable":
        col.count("accepted-although-unrepresentable")  # C04's business; still must round trip
    elif "tie" in str(enc):
        col.count("not-judged:rounding-tie")  # either rounding direction is legitimate
        return
    verdict = "representable" if kind == "ok" else (str(enc) if kind == "unrepresentable" else "unjudged-by-reference")
    if not codecrun.requested_in(d.value, expected, 1e-9 if have_ref else 1e-6):
        off = codecrun.offender(ll.ref, msg, d.value, expected)
        if off.endswith("mask"):
            verdict = codecrun.mask_class(ll.ref, msg["params"], values)
        bad("supplied-value-not-returned", off + "|" + verdict,
            f"decode gives {d.value!r}", decoded=d.value, expected=expected)
        return
    # derived values: the reference's reading of the very same PDU
    k2, rdec = codecrun.ref_decode(ll.ref, msg, pdu, request)
    if k2 == "ok":
        col.ev()
        for p in msg["params"]:
            n = p["name"]
            if n in values and values[n] is not None:
                continue
            want = rdec[0].get(n)
            if n not in d.value:
                bad("derived-parameter-missing", codecrun.describe_param(ll.ref, p),
                    f"decode result lacks {n}", decoded=d.value)
                return
            if not refodx.values_equal(d.value[n], want):
                bad("derived-value-wrong", codecrun.describe_param(ll.ref, p),
                    f"{n}: decode gives {d.value[n]!r}, the PDU holds {want!r}", decoded=d.value)
                return
        if rdec[1] != len(pdu):
            bad("pdu-not-consumed", "reference-cursor", f"description covers {rdec[1]} of {len(pdu)} bytes")
            return
    else:
        col.count("derived-not-judged:" + k2)
    # whole PDU consumed: one more byte must not change what is read (closed layouts only)
    dobjs = ll.ref.dobjs
    if not open_ended(msg, dobjs):
        col.ev()
        d2 = codecrun.decode(obj, pdu + b"\xaa")
        if d2.ok and not codecrun.requested_in(d2.value, _restrict(d.value, d.value)):
            bad("trailing-byte-changes-values", codecrun.offender(ll.ref, msg, d2.value, d.value),
                f"decode(pdu+AA) gives {d2.value!r}", decoded=d.value)
            return
        col.count("closed-layout-cases")
    if via_layer and svc is not None and request is None:
        col.ev()
        lo = codecrun.call(ll.layer.decode, pdu)
        if not lo.ok:
            bad("layer-decode-raises", lo.exc_type, f"{lo.exc_type}: {lo.exc}")
            return
        hits = [m for m in lo.value if m.service is svc and m.coding_object is obj]
        if not hits:
            bad("layer-does-not-attribute", "request",
                f"layer.decode lists {[m.service.short_name for m in lo.value]}")
            return
        if not codecrun.requested_in(hits[0].param_dict, expected, 1e-9 if have_ref else 1e-6):
            bad("layer-decode-values-differ", codecrun.offender(ll.ref, msg, hits[0].param_dict, expected),
                f"layer.decode gives {hits[0].param_dict!r}")
            return
        col.count("layer-decodes")


def extra_layer() -> Dict[str, Any]:
    """Constructs that the bit-exactness reference does not model: round trip only."""
    from ..odxgen import dct_paramlen, dct_std, dop, p_value, u8const
    m = codeccompose.probe_layer()
    m["name"] = "extras"
    keep = {"st_c1", "st_c2", "tab"} | {d["name"] for d in codeccompose.POOL}
    dobjs = [o for o in m["dobjs"] if o["name"] in keep]
    dobjs.append(dop("pl_after", dct_paramlen("A_BYTEFIELD", "LK.x_lenkey_after.lk")))
    rqs = [
        {"name": "x_rowref", "shape": "table-key-row-ref", "feat": {"shape": "table-key-row-ref"},
         "params": [u8const("sid", 0x41),
                    {"p": "TABLE-KEY", "name": "tk", "byte": None, "bit": None, "row": ["tab", "r_dop"]},
                    {"p": "TABLE-STRUCT", "name": "ts", "byte": None, "bit": None, "key": "tk"}]},
        {"name": "x_lenkey_after", "shape": "length-key-after-user",
         "feat": {"shape": "length-key-after-user"},
         "params": [u8const("sid", 0x42), p_value("data", "pl_after", byte=2),
                    {"p": "LENGTH-KEY", "name": "lk", "byte": 1, "bit": None, "dop": "u8",
                     "id": "LK.x_lenkey_after.lk"}]},
    ]
    m.update({"dobjs": dobjs, "requests": rqs, "pos": [], "neg": [],
              "services": [{"name": "svc_" + r["name"], "request": r["name"], "pos": [], "neg": []}
                           for r in rqs]})
    return m


def run_layer(task: Tuple, col: common.Collector) -> None:
    mode, model, tier, wseed = task
    r = random.Random(wseed)
    try:
        ll = codecrun.LoadedLayer(model)
    except Exception as e:
        col.fail_inconclusive(f"generated layer {model['name']} does not load: {type(e).__name__}: {e}")
        return
    dobjs = {o["name"]: o for o in model["dobjs"]}
    svc_of = {s.request.short_name: s for s in ll.layer.services if s.request is not None}
    for rq in model["requests"]:
        obj = ll.requests.get(rq["name"])
        if obj is None:
            continue
        if mode == "grid":
            cell = codecrun.coarse_cell(rq["feat"])
            assigns = codecgen.assignments_for(rq, dobjs, tier, r, hostile=False)
        else:
            cell = "compose:" + rq.get("shape", "?")
            assigns = codeccompose.assignments(rq, model, r, n=8 if tier == "quick" else 25)
        step = max(1, len(assigns) // 40)
        for n, vals in enumerate(assigns):
            v = vals.get("x", vals.get("st")) if mode == "grid" else None
            if isinstance(v, dict):
                v = v.get("x")
            nt = (rq["feat"].get("bits"), rq["feat"].get("bitpos"), rq["feat"].get("shape"),
                  codecrun.vclass(v)) if mode == "grid" else (rq["name"], n)
            judge_case(col, ll, rq, obj, vals, None, cell, nt, via_layer=(n % step == 0),
                       svc=svc_of.get(rq["name"]))
        col.count("cell:" + (str(rq["feat"].get("dct")) if mode == "grid" else "compose"))
        for pr in model["pos"] + model["neg"]:
            if pr.get("for") != rq["name"]:
                continue
            pobj = ll.pos.get(pr["name"]) or ll.neg.get(pr["name"])
            if pobj is None or not assigns:
                continue
            ro = codecrun.encode(obj, assigns[0], None)
            req_pdu = ro.value if ro.ok else bytes([0x22, 1, 2, 3, 4, 5, 6, 7])
            if mode == "grid":
                pa = assigns[::max(1, len(assigns) // 10)]
            else:
                pa = codeccompose.assignments(pr, model, r, n=6)
            for n, vals in enumerate(pa):
                judge_case(col, ll, pr, pobj, vals, req_pdu, cell + "/response", (pr["name"], n), False)
            col.count("response-messages")
    if model["requests"]:
        rq = model["requests"][len(model["requests"]) // 3]
        col.sample({"mode": mode, "layer": model["name"], "message": rq["name"],
                    "features": rq.get("feat")}, limit=4)


def run(tier: str, col: common.Collector) -> None:
    seed = common.seed()
    tasks: List[Tuple] = []
    glayers = codecgen.grid_layers(tier, seed, per_layer=60)
    if tier == "quick":
        # the full grid is C02's job on every change; the round trip takes every other layer
        glayers = glayers[(seed % 2)::2]
    for i, m in enumerate(glayers):
        tasks.append(("grid", m, tier, seed * 100003 + i))
    for i, m in enumerate(codeccompose.layers(tier, seed)):
        tasks.append(("compose", m, tier, seed * 100019 + i))
    tasks.append(("compose", extra_layer(), tier, seed + 5))
    common.pmap(run_layer, tasks, col)
    for need in ("cell:STD", "cell:MINMAX", "cell:LEAD", "cell:compose", "closed-layout-cases",
                 "layer-decodes", "response-messages"):
        if not col.counters.get(need):
            col.fail_inconclusive(f"monitor counter {need} stayed at zero")


def replay(w: Dict[str, Any], col: common.Collector) -> None:
    from .c04 import replay as _r  # same witness layout
    msg = w["message"]
    is_resp = w.get("request") is not None
    model: Dict[str, Any] = {"kind": "BASE-VARIANT", "name": "replay", "dobjs": w.get("dobjs", []),
                             "neg": [], "gneg": []}
    if is_resp:
        model["requests"] = [{"name": "rq_dummy", "params": [codecgen.u8const("sid", 0x22)]}]
        model["pos"] = [msg]
        model["services"] = [{"name": "svc", "request": "rq_dummy", "pos": [msg["name"]], "neg": []}]
    else:
        model["requests"] = [msg]
        model["pos"] = []
        model["services"] = [{"name": "svc", "request": msg["name"], "pos": [], "neg": []}]
    ll = codecrun.LoadedLayer(model)
    obj = (ll.pos if is_resp else ll.requests)[msg["name"]]
    judge_case(col, ll, msg, obj, w["values"], w.get("request"), "replay", "replay",
               via_layer=not is_resp, svc=ll.layer.services[0])
