"""C02 - encoded PDUs are bit-exact with the ODX wire format.

Events: bytes returned by Request.encode / Response.encode, values returned by decode on
PDUs built by the reference interpreter, overlap warnings - with both bit-packing backends.
Oracle: vf.refodx (independent interpreter of the same description, fed to odxtools as XML).
"""
from __future__ import annotations

import hashlib
import json
import os
import pickle
import subprocess
import sys
import tempfile
import time
from typing import Any, Dict, List, Optional, Tuple

from .. import codeccompose, codecgen, codecrun, common, monitors, refodx

PROPERTY = "C02"
LEVEL = "exploration"
RULE = ("grid: one value-carrying parameter per message over diag-coded type x base type x "
        "encoding x byte order x bit length x bit position x compu category x message shape "
        "(last / followed / explicit gap / nested in a structure), values exhaustive for small "
        "bit lengths and boundary-centred otherwise; compose: layouts with structures, fields, "
        "mux, tables, length keys, request echoes, explicit out-of-order and overlapping "
        "positions. Every case is interpreted twice (odxtools, reference) in both directions "
        "and with both bit-packing backends. Distinct+non-trivial = distinct (grid cell or "
        "layout shape, value class) for which the reference predicted a PDU and it was compared")
MIN_EVALS = {"quick": 20000, "thorough": 300000}
ASSUMPTIONS = [
    "vf/refodx.py implements the ODX rules of DESIGN.md §2.1; constructs of §2.2 (condensed "
    "masks, non-byte-aligned strings, UCS-2 low-high order) are outside the bit-exactness oracle",
    "an implicit length key may take any width that represents the value (reference decodes "
    "odxtools' PDU instead of predicting it)",
]


def vclass(v: Any) -> str:
    if isinstance(v, bool):
        return "bool"
    if isinstance(v, int):
        return "int-neg" if v < 0 else ("int-zero" if v == 0 else "int-pos")
    if isinstance(v, float):
        return "float"
    if isinstance(v, str):
        return "str-ascii" if v.isascii() else "str-nonascii"
    if isinstance(v, (bytes, bytearray)):
        return "bytes"
    return type(v).__name__


def judge_case(col: common.Collector, ll: codecrun.LoadedLayer, msg: Dict[str, Any], obj: Any,
               values: Dict[str, Any], request: Optional[bytes], digests: Dict[str, str],
               case_id: str, sig_tail: str, nt_key: Any) -> None:
    kind, enc = codecrun.ref_encode(ll.ref, msg, values, request)
    o = codecrun.encode(obj, values, request)
    # backend differential: only *accepted* assignments are compared (the statement speaks of
    # accepted values); if one backend accepts and the other rejects, that is a difference
    digests[case_id] = ("ok:" + o.value.hex()[:64] + (":w" if o.overlap_warnings else "")) \
        if o.ok else "rejected"
    if kind != "ok":
        col.count("not-judged:" + kind)
        return
    col.ev()

    def bad(clause: str, text: str, **extra: Any) -> None:
        d = {"layer": ll.model["name"], "message": msg, "dobjs": used_dobjs(ll.model, msg),
             "values": values, "request": request, "expected_pdu": enc.pdu,
             "observed": o.brief(), "problem": text}
        d.update(extra)
        col.violation((clause, sig_tail), d)

    if not o.ok:
        # a representable assignment that the encoder rejects is C04/C01 territory only if the
        # statement said so; bit-exactness needs a PDU. It is still recorded for the evidence.
        col.count("encoder-rejected-representable")
        col.count("encoder-rejected:" + o.exc_type)
        return
    col.nontrivial(nt_key)
    if enc.implicit_keys:
        # width of an implicit length key is implementation defined: decode instead of predict
        k2, dec = codecrun.ref_decode(ll.ref, msg, o.value, request)
        col.count("implicit-key-cases")
        if k2 == "ok" and not codecrun.requested_in(dec[0], values):
            bad("pdu-not-decodable-by-reference", f"reference reads {dec[0]!r}")
        elif k2 in ("short", "mismatch", "mismatch-leading", "invalid") and not o.overlap_warnings:
            bad("pdu-not-decodable-by-reference", f"reference cannot read the PDU back: {k2}: {dec}")
        elif k2 == "ok" and o.overlap_warnings and not enc.overlap and not enc.endmarker:
            bad("overlap-warning-spurious", "overlap warning although no bit is claimed twice")
        elif k2 != "ok" and o.overlap_warnings and not enc.overlap and not enc.endmarker:
            bad("overlap-warning-spurious", f"overlap warning although no bit is claimed twice "
                f"(and the reference cannot read the PDU back: {k2})")
        return
    if o.value != enc.pdu:
        bad("pdu-differs", f"odxtools {o.value.hex()} reference {enc.pdu.hex()}")
        return
    if not enc.endmarker:
        if enc.overlap and not o.overlap_warnings:
            bad("overlap-warning-missing", "two described objects claim the same bit, no warning")
        elif o.overlap_warnings and not enc.overlap:
            bad("overlap-warning-spurious", "overlap warning although no bit is claimed twice")
        col.count("overlap-cases" if enc.overlap else "no-overlap-cases")
    # decode direction on the reference-built PDU
    d = codecrun.decode(obj, enc.pdu)
    k3, rdec = codecrun.ref_decode(ll.ref, msg, enc.pdu, request)
    if k3 != "ok":
        col.count("ref-decode:" + k3)
        return
    col.ev()
    digests[case_id] += "|dec:" + (hashlib.blake2b(repr(d.value).encode(), digest_size=6).hexdigest()
                                   if d.ok else "raised")
    if not d.ok:
        bad("decode-of-reference-pdu-raises", f"{d.exc_type}: {d.exc}", decode=d.brief())
        return
    for k, v in rdec[0].items():
        if k not in d.value or not refodx.values_equal(d.value[k], v):
            bad("decode-reads-other-bits", f"parameter {k}: odxtools {d.value.get(k)!r} "
                f"reference {v!r}", decode=d.brief())
            return


def used_dobjs(layer: Dict[str, Any], msg: Dict[str, Any]) -> List[Dict[str, Any]]:
    """Transitive closure of the data objects a message refers to (for replay files)."""
    by = {o["name"]: o for o in layer.get("dobjs", [])}
    need: List[str] = []

    def visit_params(ps: List[Dict[str, Any]]) -> None:
        for p in ps:
            for key in ("dop",):
                if p.get(key):
                    visit(p[key])
            if p.get("table"):
                visit(p["table"])
            if p.get("row"):
                visit(p["row"][0])

    def visit(name: str) -> None:
        if name in need or name not in by:
            return
        need.append(name)
        o = by[name]
        if "params" in o:
            visit_params(o["params"])
        for key in ("struct", "cnt_dop", "term_dop", "key_dop"):
            if o.get(key):
                visit(o[key])
        if o.get("key") and isinstance(o["key"], dict):
            visit(o["key"]["dop"])
        for c in (o.get("cases") or []) + ([o["default"]] if o.get("default") else []):
            if c.get("struct"):
                visit(c["struct"])
        for r in o.get("rows") or []:
            for key in ("struct", "dop"):
                if r.get(key):
                    visit(r[key])
        for n in o.get("envdatas") or []:
            visit(n)

    visit_params(msg["params"])
    return [by[n] for n in need]


def run_layer(task: Tuple, col: common.Collector) -> None:
    mode, model, tier, wseed = task
    import random
    r = random.Random(wseed)
    try:
        ll = codecrun.LoadedLayer(model)
    except Exception as e:
        col.violation(("description-rejected", type(e).__name__, mode),
                      {"layer": model["name"], "problem": f"{type(e).__name__}: {e}",
                       "model": model if len(json.dumps(common.jsonable(model))) < 20000 else "big"})
        return
    digests: Dict[str, str] = {}
    dobjs = {o["name"]: o for o in model["dobjs"]}
    for rq in model["requests"]:
        obj = ll.requests.get(rq["name"])
        if obj is None:
            col.fail_inconclusive(f"request {rq['name']} not found after load")
            continue
        if mode == "grid":
            assigns = codecgen.assignments_for(rq, dobjs, tier, r, hostile=False)
            sig = codecrun.feat_sig(rq["feat"])
        else:
            assigns = codeccompose.assignments(rq, model, r, n=6 if tier == "quick" else 20)
            sig = "compose:" + rq.get("shape", "?")
        req_pdu = None
        for n, vals in enumerate(assigns):
            vv = next(iter(vals.values()), None) if mode == "grid" else None
            if isinstance(vv, dict):
                vv = vv.get("x")
            nt = (sig, rq["feat"].get("shape"), rq["feat"].get("bits"), rq["feat"].get("bitpos"),
                  vclass(vv)) if mode == "grid" else (sig, rq["name"], n)
            judge_case(col, ll, rq, obj, vals, None, digests, f"{model['name']}/{rq['name']}/{n}",
                       sig, nt)
            col.count("cell:" + sig.split("/")[0] if mode == "grid" else "cell:compose")
        # responses of the same shape, with request echo
        for pr in model["pos"]:
            if pr.get("for") != rq["name"]:
                continue
            pobj = ll.pos.get(pr["name"])
            if pobj is None:
                continue
            k, e = codecrun.ref_encode(ll.ref, rq, assigns[0] if assigns else {}, None)
            req_pdu = e.pdu if k == "ok" else bytes([0x22, 0x01, 0x02, 0x03])
            if mode == "grid":  # (same parameters as the request)
                sub = assigns[:: max(1, len(assigns) // (8 if tier == "quick" else 40))]
            else:
                sub = codeccompose.assignments(pr, model, r, n=4 if tier == "quick" else 12)
            for n, vals in enumerate(sub):
                judge_case(col, ll, pr, pobj, vals, req_pdu, digests,
                           f"{model['name']}/{pr['name']}/{n}", sig + "/response",
                           (sig, "response", n))
    col.notes.setdefault("digests", {}).update(digests)
    if model["requests"]:
        rq = model["requests"][0]
        col.sample({"mode": mode, "layer": model["name"], "message": rq["name"],
                    "features": rq.get("feat"), "params": [p["name"] for p in rq["params"]]},
                   limit=4)


def workload(tier: str) -> List[Tuple]:
    tasks: List[Tuple] = []
    seed = common.seed()
    for i, m in enumerate(codecgen.grid_layers(tier, seed)):
        tasks.append(("grid", m, tier, seed * 100003 + i))
    for i, m in enumerate(codeccompose.layers(tier, seed)):
        tasks.append(("compose", m, tier, seed * 100019 + i))
    return tasks


def build_asan_bitstruct(dest: str) -> Optional[str]:
    """Compile the C sources shipped inside the bitstruct wheel with ASan+UBSan into `dest`
    (a package directory shadowing the installed one).  Returns None on success, else why not."""
    import glob
    import shutil
    import sysconfig
    try:
        import bitstruct as bs
    except Exception as e:
        return f"bitstruct not importable: {e}"
    src = os.path.dirname(bs.__file__)
    cfiles = [os.path.join(src, n) for n in ("c.c", "bitstream.c")]
    if not all(os.path.exists(f) for f in cfiles):
        return "the installed bitstruct does not ship its C sources"
    cc = shutil.which("clang-14") or shutil.which("clang")
    if cc is None:
        return "clang not found"
    pkg = os.path.join(dest, "bitstruct")
    os.makedirs(pkg, exist_ok=True)
    for f in glob.glob(os.path.join(src, "*.py")) + glob.glob(os.path.join(src, "*.h")):
        shutil.copy(f, pkg)
    so = os.path.join(pkg, "c" + (sysconfig.get_config_var("EXT_SUFFIX") or ".so"))
    cmd = [cc, "-shared", "-fPIC", "-O1", "-g", "-fsanitize=address,undefined",
           "-fno-sanitize-recover=all", "-I" + sysconfig.get_paths()["include"], "-I" + src,
           *cfiles, "-o", so]
    r = subprocess.run(cmd, capture_output=True, text=True)
    if r.returncode != 0:
        return "compilation failed: " + r.stderr[-300:]
    return None


def asan_runtime() -> Optional[str]:
    import glob
    c = glob.glob("/usr/lib/llvm-14/lib/clang/*/lib/linux/libclang_rt.asan-x86_64.so")
    return c[0] if c else None


def child_main(backend: str, tier: str, out_path: str) -> None:
    """Runs the whole workload in this process tree with the chosen bit-packing backend."""
    if backend == "py":
        sys.modules["bitstruct.c"] = None  # type: ignore[assignment]  # force the ImportError fallback
    common.setup_paths()
    import odxtools  # noqa
    # which backend got bound: the accelerated module is in sys.modules iff its import succeeded
    cmod = sys.modules.get("bitstruct.c")
    bound = "bitstruct.c" if cmod is not None else "bitstruct"

    class _ES:  # keeps the reporting code below independent of odxtools' module layout
        bitstruct = cmod if cmod is not None else sys.modules.get("bitstruct")
    es = _ES
    col = common.Collector()
    with monitors.Reach(["odxtools/encodestate.py", "odxtools/decodestate.py",
                         "odxtools/standardlengthtype.py"]) as reach:
        tasks = workload(tier)
        common.pmap(run_layer, tasks, col, jobs=max(2, common.NCPU // 2))
    col.notes["backend_bound"] = bound
    col.notes["backend_file"] = getattr(es.bitstruct, "__file__", "?")
    with open(out_path, "wb") as f:
        pickle.dump(col, f)


def run(tier: str, col: common.Collector) -> None:
    tmp = tempfile.mkdtemp(prefix="c02-")
    try:
        procs = []
        backends = ["c", "py"]
        asan_env: Dict[str, str] = {}
        if tier == "thorough" or os.environ.get("VERIF_C02_ASAN"):
            why = build_asan_bitstruct(os.path.join(tmp, "asanpkg"))
            rt = asan_runtime()
            if why is None and rt is not None:
                backends.append("asan")
                asan_env = {"LD_PRELOAD": rt, "PYTHONMALLOC": "malloc",
                            "ASAN_OPTIONS": "detect_leaks=0:halt_on_error=1:abort_on_error=1:"
                            "log_path=" + os.path.join(tmp, "asan.log"),
                            "UBSAN_OPTIONS": "print_stacktrace=1:halt_on_error=1:log_path=" +
                            os.path.join(tmp, "ubsan.log"),
                            "PYTHONPATH": os.path.join(tmp, "asanpkg"), "VERIF_JOBS": "8"}
            else:
                col.notes["asan_leg"] = "not run: " + str(why or "ASan runtime not found")
        for backend in backends:
            out = os.path.join(tmp, backend + ".pkl")
            env = dict(os.environ, VERIF_TIER=tier)
            if backend == "asan":
                env.update(asan_env)
            p = subprocess.Popen([sys.executable, "-c",
                                  "import sys; sys.path.insert(0, %r); from vf.checks import c02; "
                                  "c02.child_main(%r, %r, %r)" % (common.ROOT, "c" if backend == "asan"
                                                                  else backend, tier, out)],
                                 env=env, cwd=common.ROOT)
            procs.append((backend, p, out))
        cols: Dict[str, common.Collector] = {}
        for backend, p, out in procs:
            try:
                rc = p.wait(timeout=3600 if tier == "thorough" else 900)
            except subprocess.TimeoutExpired:
                p.kill()
                col.fail_inconclusive(f"watchdog: backend child {backend} timed out")
                continue
            if backend == "asan":
                import glob as _g
                reports = []
                for lf in _g.glob(os.path.join(tmp, "asan.log*")) + _g.glob(os.path.join(tmp, "ubsan.log*")):
                    txt = open(lf, errors="replace").read()
                    if "ERROR: AddressSanitizer" in txt or "runtime error:" in txt:
                        reports.append(txt[:3000])
                col.notes["sanitizer_report_blocks"] = len(reports)
                if reports:
                    kind = "AddressSanitizer" if "AddressSanitizer" in reports[0] else "UBSan"
                    col.violation(("sanitizer-report", kind, "bitstruct.c"),
                                  {"report": reports[0], "problem": "the instrumented accelerator "
                                   "reported an error on a format/length odxtools handed to it"})
                    continue
            if rc != 0 or not os.path.exists(out):
                col.fail_inconclusive(f"backend child {backend} exited with {rc}")
                continue
            with open(out, "rb") as f:
                cols[backend] = pickle.load(f)
        if "c" in cols and "py" in cols:
            bc, bp = cols["c"].notes.get("backend_bound"), cols["py"].notes.get("backend_bound")
            col.notes["backends"] = {"c": bc, "py": bp}
            if bc == bp:
                col.fail_inconclusive(f"both children bound the same bit-packing backend ({bc})")
            dc = cols["c"].notes.pop("digests", {})
            dp = cols["py"].notes.pop("digests", {})
            col.notes["backend_cases_compared"] = len(set(dc) & set(dp))
            diff = [k for k in dc if k in dp and dc[k] != dp[k]]
            only = set(dc) ^ set(dp)
            for k in diff[:50]:
                kind = "accepted-by-one-backend-only" if "rejected" in (dc[k], dp[k]) else \
                    "backend-dependent-result"
                col.violation((kind, k.split("/")[0].rstrip("0123456789")),
                              {"case": k, "with_bitstruct_c": dc[k], "with_pure_python": dp[k]})
            if only:
                col.fail_inconclusive(f"{len(only)} cases ran with only one backend")
            col.ev(len(set(dc) & set(dp)))
        if "asan" in cols and "c" in cols:
            da = cols["asan"].notes.pop("digests", {})
            bf = cols["asan"].notes.get("backend_file", "")
            col.notes["asan_leg"] = {"backend_file": bf, "cases": len(da)}
            if "asanpkg" not in bf:
                col.fail_inconclusive("the ASan child did not bind the instrumented accelerator: " + bf)
            dcc = dc if len(cols) >= 2 else {}
            bad = [k for k in da if k in dcc and da[k] != dcc[k]]
            for k in bad[:20]:
                col.violation(("asan-build-differs", k.split("/")[0].rstrip("0123456789")),
                              {"case": k, "asan": da[k], "plain": dcc[k]})
            col.ev(len(da))
            cols.pop("asan")
        for backend, c in cols.items():
            c.notes.pop("digests", None)
            c.notes.pop("backend_bound", None)
            if backend == "py":
                # same workload: keep its violations (prefixed) but do not double count distinct
                for sig, ent in c.violations.items():
                    if sig not in cols.get("c", common.Collector()).violations:
                        col.violations[("py-backend-only",) + sig] = ent
                col.evaluations += c.evaluations
                continue
            col.merge(c)
    finally:
        import shutil
        shutil.rmtree(tmp, ignore_errors=True)
    for need in ("overlap-cases", "no-overlap-cases", "cell:STD", "cell:MINMAX", "cell:LEAD",
                 "cell:compose"):
        if not col.counters.get(need):
            col.fail_inconclusive(f"feature cell {need} never evaluated")


def replay(w: Dict[str, Any], col: common.Collector) -> None:
    if "message" not in w:
        col.fail_inconclusive("witness without a description (backend digest): re-run the tier")
        return
    msg = w["message"]
    model = {"kind": "BASE-VARIANT", "name": "replay", "dobjs": w.get("dobjs", []),
             "requests": [msg] if w.get("request") is None else [],
             "pos": [msg] if w.get("request") is not None else [], "neg": [], "gneg": []}
    if w.get("request") is not None:
        rq = {"name": "rq_dummy", "params": [codecgen.u8const("sid", 0x22)]}
        model["requests"] = [rq]
        model["services"] = [{"name": "svc", "request": "rq_dummy", "pos": [msg["name"]], "neg": []}]
    else:
        model["services"] = [{"name": "svc", "request": msg["name"], "pos": [], "neg": []}]
    ll = codecrun.LoadedLayer(model)
    obj = (ll.pos if w.get("request") is not None else ll.requests)[msg["name"]]
    judge_case(col, ll, msg, obj, w["values"], w.get("request"), {}, "replay", "replay", "replay")
