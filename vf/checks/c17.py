"""C17 - strict mode is honoured everywhere, lenient mode changes nothing valid.

Events: outcome (normalised value or exception type) of every operation of a fixed corpus
(hostile encodes and decodes over generated descriptions) under flag schedules, each schedule in
its own fresh process:
  S     strict throughout
  L0    lenient from the instant the flag is defined (import hook on odxtools.exceptions)
  S2L   imported + loaded strict, switched to lenient through the public switch, then run
  L2S   lenient from definition, switched to strict, then run
  FLIP  every operation three times in a row: strict, lenient, strict
  MID   flag flipped at the k-th entry into a parameter's encode/decode inside the operation
plus a sys.monitoring hook on the library's raise-if-strict function recording, for every
entry, the flag value at that instant and whether the call returned or raised.
Oracle: (1) S ok => L0 identical; (2) S2L == L0 and L2S == S for every operation (immediacy,
no stale copy of the flag anywhere); (3) FLIP phases equal S, L0, S; (4) every hooked entry with
the flag off returns and with the flag on raises - also in MID.
"""
from __future__ import annotations

import importlib.abc
import importlib.machinery
import os
import pickle
import random
import subprocess
import sys
import tempfile
from typing import Any, Dict, List, Optional, Tuple

from .. import codeccompose, codecgen, codecrun, common

PROPERTY = "C17"
LEVEL = "exploration"
RULE = ("operations: for generated descriptions (grid sample + probes + composed layouts) every "
        "hostile encode assignment (out-of-range, wrong type, missing/unknown parameter, over/"
        "under-long) and decodes of prefixes / mutations of valid PDUs; each executed under six "
        "flag schedules in separate fresh processes. Distinct+non-trivial = distinct operation "
        "whose strict and lenient outcomes differ (the flag mattered) or whose strict outcome "
        "is a success (clause 1)")
MIN_EVALS = {"quick": 20000, "thorough": 200000}
ASSUMPTIONS = [
    "the public switch is the module attribute odxtools.exceptions.strict_mode",
    "for flips inside an operation only the hook invariant is judged (no equality oracle "
    "exists for such runs)",
]

MODES = ["S", "L0", "S2L", "L2S", "FLIP", "MID"]


# ---------------------------------------------------------------------------
# the import hook: make the flag lenient right after its defining module has been executed


class _Hook(importlib.abc.MetaPathFinder):

    def __init__(self) -> None:
        self.fired = False

    def find_spec(self, name: str, path: Any, target: Any = None) -> Any:
        if name != "odxtools.exceptions" or self.fired:
            return None
        self.fired = True
        spec = importlib.machinery.PathFinder.find_spec(name, path)
        if spec is None or spec.loader is None:
            return None
        orig = spec.loader

        class Loader(importlib.abc.Loader):

            def create_module(self, s: Any) -> Any:
                return orig.create_module(s)

            def exec_module(self, module: Any) -> None:
                orig.exec_module(module)
                if hasattr(module, "strict_mode"):
                    module.strict_mode = False

        spec.loader = Loader()
        return spec


def norm(v: Any, depth: int = 0) -> Any:
    if depth > 10:
        return "deep"
    tc = getattr(v, "trouble_code", None)
    if tc is not None and not isinstance(v, (int, float)):
        return ("DTC", tc)
    if isinstance(v, (bytes, bytearray)):
        return ("b", bytes(v).hex())
    if isinstance(v, dict):
        return tuple((k, norm(x, depth + 1)) for k, x in v.items())
    if isinstance(v, (list, tuple)):
        return tuple(norm(x, depth + 1) for x in v)
    if isinstance(v, float):
        return repr(v)
    if v is None or isinstance(v, (int, str, bool)):
        return v
    return type(v).__name__


def outcome(o: codecrun.Outcome) -> Tuple:
    if o.ok:
        return ("ok", norm(o.value))
    return ("exc", o.exc_type, o.exc_family)


def odd_layer() -> Dict[str, Any]:
    """Descriptions whose problems are only noticed when they are used: illegal encodings for
    the base type, floats of the wrong width.  Every use goes through the raise-if-strict path."""
    from ..odxgen import dct_std, dop, p_value, u8const
    combos = [("A_ASCIISTRING", "BCD-P", 16), ("A_ASCIISTRING", "2C", 16), ("A_UTF8STRING", "SM", 16),
              ("A_UNICODE2STRING", "NONE", 32), ("A_UINT32", "UTF-8", 8), ("A_UINT32", "2C", 8),
              ("A_INT32", "BCD-P", 8), ("A_INT32", "UCS-2", 16), ("A_FLOAT32", None, 16),
              ("A_FLOAT64", None, 32), ("A_BYTEFIELD", "2C", 16)]
    dobjs, rqs = [], []
    for i, (base, enc, bits) in enumerate(combos):
        dobjs.append(dop(f"odd{i}", dct_std(base, bits, enc)))
        rqs.append({"name": f"oddrq{i}", "params": [u8const("sid", 0x2F), p_value("x", f"odd{i}")],
                    "feat": {"shape": "odd"}, "odd_base": base})
    return {"kind": "BASE-VARIANT", "name": "oddities", "dobjs": dobjs, "requests": rqs, "pos": [],
            "neg": [], "gneg": [],
            "services": [{"name": "svc_" + r["name"], "request": r["name"], "pos": [], "neg": []}
                         for r in rqs]}


def endmarker_layer() -> Dict[str, Any]:
    """A DYNAMIC-ENDMARKER-FIELD whose termination DOP does not cover the whole coded range
    (LINEAR limited to 128..255): probing an item for the end marker reports an inconvertible
    value in strict mode only - the result of decoding must not depend on that."""
    from ..odxgen import dct_std, dop, p_value, u8const
    from ..codecgen import linear
    dobjs = [dop("u8", dct_std("A_UINT32", 8)),
             dop("lim", dct_std("A_UINT32", 8), "A_UINT32",
                 linear(0, 1, lo=(128, "CLOSED"), hi=(255, "CLOSED"))),
             {"t": "STRUCT", "name": "item", "params": [p_value("k", "u8")], "byte_size": None},
             {"t": "STRUCT", "name": "item2", "params": [p_value("k", "u8"), p_value("v", "u8")],
              "byte_size": None},
             {"t": "EMFIELD", "name": "emf", "struct": "item", "term_dop": "lim", "term_value": 255},
             {"t": "EMFIELD", "name": "emf2", "struct": "item2", "term_dop": "lim", "term_value": 200}]
    rqs = [{"name": "rq_emf", "params": [u8const("sid", 0x31), p_value("f", "emf"),
                                         u8const("marker", 0xFF), p_value("t", "u8")]},
           {"name": "rq_emf2", "params": [u8const("sid", 0x32), p_value("f", "emf2"),
                                          u8const("marker", 200)]}]
    return {"kind": "BASE-VARIANT", "name": "endmarkers", "dobjs": dobjs, "requests": rqs, "pos": [],
            "neg": [], "gneg": [],
            "services": [{"name": "svc_" + r["name"], "request": r["name"], "pos": [], "neg": []}
                         for r in rqs]}


def nrc_layer() -> Dict[str, Any]:
    """Services with several negative responses that differ only in their NRC-CONST lists,
    decoded through the layer and the service (the DecodeMismatch control flow)."""
    from ..odxgen import dct_std, dop, p_value, u8const
    dobjs = [dop("u8", dct_std("A_UINT32", 8)), dop("u16", dct_std("A_UINT32", 16))]

    def nr(name: str, values: List[int], extra: bool) -> Dict[str, Any]:
        ps = [u8const("nsid", 0x7F),
              {"p": "MATCHING-REQUEST-PARAM", "name": "rq_sid", "req_pos": 0, "len": 1},
              {"p": "NRC-CONST", "name": "nrc", "byte": None, "bit": None,
               "dct": dct_std("A_UINT32", 8), "values": values}]
        if extra:
            ps.append(p_value("detail", "u8"))
        return {"name": name, "params": ps}

    rqs = [{"name": "rqA", "params": [u8const("sid", 0x22), p_value("did", "u16")]},
           {"name": "rqB", "params": [u8const("sid", 0x2E), p_value("did", "u16"), p_value("v", "u8")]}]
    pos = [{"name": "prA", "params": [u8const("rsid", 0x62), p_value("r", "u8")]}]
    neg = [nr("nr_busy", [0x21, 0x78], False), nr("nr_range", [0x31, 0x33], False),
           nr("nr_detail", [0x10, 0x11], True)]
    return {"kind": "BASE-VARIANT", "name": "nrcs", "dobjs": dobjs, "requests": rqs, "pos": pos,
            "neg": neg, "gneg": [],
            "services": [{"name": "svcA", "request": "rqA", "pos": ["prA"],
                          "neg": ["nr_busy", "nr_range", "nr_detail"]},
                         {"name": "svcB", "request": "rqB", "pos": [],
                          "neg": ["nr_range", "nr_busy"]}]}


def norm_messages(v: Any) -> Any:
    if isinstance(v, list) and v and hasattr(v[0], "coding_object"):
        return tuple((m.service.short_name, getattr(m.coding_object, "short_name", None),
                      norm(m.param_dict)) for m in v)
    if hasattr(v, "coding_object"):
        return (v.service.short_name, getattr(v.coding_object, "short_name", None),
                norm(v.param_dict))
    return norm(v)


def load_documents() -> List[Tuple[str, str]]:
    """Documents with problems that the parsers / the link resolution report through the
    raise-if-strict function - with classes of the library and with others (KeyError,
    NotImplementedError) - plus a sound one as control."""
    from .. import odxgen
    model = odxgen.simple_layer("ldl", [odxgen.dop("u8", odxgen.dct_std("A_UINT32", 8))],
                                [{"name": "rq", "params": [odxgen.u8const("sid", 0x10),
                                                           odxgen.p_value("x", "u8")]}])
    good = odxgen.emit_container({"name": "c_ldl", "layers": [model]})
    docs = [("sound", good)]
    # sound documents whose content is not what the simplest reading of a tag expects: whatever
    # a parser has to look at twice (a fractional coefficient of an integer-typed method, numbers
    # with exponent or sign, padded text) must come out the same in both modes
    from ..codecgen import linear
    frac = odxgen.simple_layer(
        "ldf", [odxgen.dop("u8", odxgen.dct_std("A_UINT32", 8)),
                odxgen.dop("steps", odxgen.dct_std("A_UINT32", 8), "A_UINT32", linear(0, 2.5)),
                odxgen.dop("neg", odxgen.dct_std("A_INT32", 16), "A_INT32", linear(-7, 1.25, 2)),
                odxgen.dop("flt", odxgen.dct_std("A_UINT32", 16), "A_FLOAT64", linear(0.5, 1e-2))],
        [{"name": "rq", "params": [odxgen.u8const("sid", 0x11), odxgen.p_value("a", "steps"),
                                   odxgen.p_value("b", "neg"), odxgen.p_value("c", "flt")]}])
    docs.append(("sound-fractional-coefficients", odxgen.emit_container({"name": "c_ldf", "layers": [frac]})))

    def variant(name: str, old: str, new: str) -> None:
        if old not in good:
            raise RuntimeError(f"generator no longer emits {old!r}")
        docs.append((name, good.replace(old, new, 1)))

    variant("unknown-transmission-mode", "<DIAG-SERVICE ", '<DIAG-SERVICE TRANSMISSION-MODE="BOGUS" ')
    variant("unknown-addressing", "<DIAG-SERVICE ", '<DIAG-SERVICE ADDRESSING="BOGUS" ')
    variant("unknown-diagnostic-class", "<DIAG-SERVICE ", '<DIAG-SERVICE DIAGNOSTIC-CLASS="BOGUS" ')
    variant("dangling-unit-ref", "</DATA-OBJECT-PROP>", '<UNIT-REF ID-REF="no.such.unit"/></DATA-OBJECT-PROP>')
    variant("unknown-param-type", 'xsi:type="VALUE"', 'xsi:type="FANCY"')
    variant("unknown-coded-type", 'xsi:type="STANDARD-LENGTH-TYPE"', 'xsi:type="FANCY-LENGTH-TYPE"')
    import re
    m = re.search(r'<DOP-REF ID-REF="([^"]+)"', good)
    if m is None:
        raise RuntimeError("generator no longer emits <DOP-REF ID-REF=...>")
    variant("unknown-doctype", m.group(0), m.group(0) + ' DOCREF="c_ldl" DOCTYPE="DIAG-CONTAINER"')
    variant("unknown-docref", m.group(0), m.group(0) + ' DOCREF="no_such_doc" DOCTYPE="CONTAINER"')
    return docs


def load_summary(xml: str) -> Any:
    from .. import odxgen
    db = odxgen.load_xml([xml])
    out = []
    for dl in db.diag_layers:
        for svc in dl.services:
            out.append((dl.short_name, svc.short_name,
                        str(getattr(svc, "transmission_mode", None)), str(getattr(svc, "addressing", None)),
                        str(getattr(svc, "diagnostic_class", None)),
                        tuple(p.short_name for p in (svc.request.parameters if svc.request else []))))
        # what the parsers made of the numbers in the data object properties
        ddds = getattr(dl, "diag_data_dictionary_spec", None)
        for d in (getattr(ddds, "data_object_props", None) or []):
            out.append((dl.short_name, "dop", d.short_name, _compu_digest(getattr(d, "compu_method", None)),
                        repr(getattr(getattr(d, "diag_coded_type", None), "bit_length", None))))
        for svc in dl.services:
            rq = svc.request
            if rq is None or not any(p.short_name in ("a", "b", "c") for p in rq.parameters):
                continue
            for vals in ({"a": 5, "b": -2, "c": 1.5}, {"a": 25, "b": 3, "c": 100.5}):
                try:
                    pdu = bytes(rq.encode(**vals))
                    out.append((dl.short_name, "coding", repr(vals), pdu.hex(), repr(rq.decode(pdu))))
                except Exception as e:  # the outcome is data
                    out.append((dl.short_name, "coding", repr(vals), type(e).__name__, str(e)[:120]))
    return tuple(out)


def _compu_digest(cm: Any) -> Any:
    """category, limits, coefficients and constants of a compu method, as parsed"""
    if cm is None:
        return None
    out: List[Any] = [str(getattr(cm, "category", None))]
    for side in ("compu_internal_to_phys", "compu_phys_to_internal"):
        part = getattr(cm, side, None)
        for sc in (getattr(part, "compu_scales", None) or []):
            coeffs = getattr(sc, "compu_rational_coeffs", None)
            out.append((side[6:9],
                        repr(getattr(getattr(sc, "lower_limit", None), "value_raw", None)),
                        repr(getattr(getattr(sc, "upper_limit", None), "value_raw", None)),
                        repr(list(getattr(coeffs, "numerators", None) or [])),
                        repr(list(getattr(coeffs, "denominators", None) or [])),
                        repr(getattr(getattr(sc, "compu_const", None), "v", None)),
                        repr(getattr(getattr(sc, "compu_const", None), "vt", None))))
    return tuple(out)


def build_ops(tier: str, seed: int) -> Tuple[List[Dict[str, Any]], List[Tuple]]:
    """-> (layer models, ops) ; op = (layer index, message name, kind, payload)"""
    r = random.Random(seed * 31337 + 17)
    grid = codecgen.grid_layers("quick", seed, per_layer=40)
    grid = r.sample(grid, min(len(grid), 10 if tier == "quick" else 40))
    comp = codeccompose.layers("quick", seed)[: (8 if tier == "quick" else 25)]
    # layers built for the attribution property: services that share prefixes, several negative
    # and global negative responses per prefix (the places where decoding is a search)
    from . import c06
    r6 = random.Random(seed * 23 + 5)
    specs = c06.gen_specs("quick", r6)
    attrib = [c06.build_layer(900 + i, [(s, list(c)) for s, c in r6.choice(specs)], r6, [3, 1, 2, 0][i % 4])
              for i in range(6 if tier == "quick" else 24)]
    for a in attrib:
        a["name"] = "attrib_" + a["name"]
    models = grid + comp + [odd_layer(), nrc_layer(), endmarker_layer()] + attrib
    ops: List[Tuple] = []
    for name, xml in load_documents():
        ops.append((-1, name, "load", xml))
    from . import c04
    for li, m in enumerate(models):
        dobjs = {o["name"]: o for o in m["dobjs"]}
        is_grid = m["name"].startswith("grid")
        if m["name"] == "oddities":
            for rq in m["requests"]:
                base = rq["odd_base"]
                vals = ["ab", "a"] if "STRING" in base else ([b"\x01\x02"] if base == "A_BYTEFIELD"
                                                            else [1, 5, 1.5])
                for v in vals:
                    ops.append((li, rq["name"], "enc", {"x": v}))
                for b in (b"\x2f\x41\x42", b"\x2f\x41\x42\x43\x44", b"\x2f\x01", b"\x2f"):
                    ops.append((li, rq["name"], "dec", b))
            continue
        if m["name"].startswith("attrib_"):
            msgs = []
            for rq in m["requests"]:
                consts = bytes(p["value"] for p in rq["params"]
                               if p["p"] == "CODED-CONST" and p["dct"]["bits"] == 8 and (p.get("bit") or 0) == 0)[:3]
                for tail in (b"", b"\x01", b"\x01\x02\x03"):
                    msgs.append(consts + tail)
                if consts:
                    msgs.append(bytes([(consts[0] + 0x40) & 0xFF]) + consts[1:] + b"\x05")
                    for nrc in (0x11, 0x21, 0x31, 0x99):
                        msgs.append(bytes([0x7F, consts[0], nrc]))
                        msgs.append(bytes([0x7F, consts[0], nrc, 0x01]))
            msgs = list(dict.fromkeys(msgs))[:40]
            rq0 = msgs[0] if msgs else b"\x22"
            for b in msgs:
                ops.append((li, "", "layerdec", b))
                ops.append((li, "", "layerresp", (b, rq0)))
                for sv in m["services"][:4]:
                    ops.append((li, sv["name"], "svcdec", b))
            continue
        if m["name"] == "endmarkers":
            for h in ("3101020304ff09", "31ff09", "318081ff05", "31017f80ff00", "3101", "31",
                      "3201020304c8", "32c8", "320102c8", "3281ff0304c8", "32010203"):
                b = bytes.fromhex(h)
                ops.append((li, "rq_emf" if h.startswith("31") else "rq_emf2", "dec", b))
                ops.append((li, "", "layerdec", b))
            continue
        if m["name"] == "nrcs":
            msgs = [bytes.fromhex(h) for h in (
                "7f2221", "7f2278", "7f2231", "7f2233", "7f221000", "7f221105", "7f2299", "7f2e31",
                "7f2e21", "7f2e10", "6205", "22f190", "2ef19001", "7f22", "7f", "7f2231ff")]
            for b in msgs:
                ops.append((li, "", "layerdec", b))
                ops.append((li, "", "layerresp", (b, bytes.fromhex("22f190"))))
                ops.append((li, "svcA", "svcdec", b))
                ops.append((li, "svcB", "svcdec", b))
                for rn in ("nr_busy", "nr_range", "nr_detail"):
                    ops.append((li, rn, "respdec", b))
            continue
        for rq in m["requests"]:
            if is_grid:
                assigns = codecgen.assignments_for(rq, dobjs, "quick", r, hostile=True)
                assigns = r.sample(assigns, min(len(assigns), 14))
            else:
                base = codeccompose.assignments(rq, m, r, n=1)
                assigns = list(base)
                lkeys = [p["name"] for p in rq["params"] if p["p"] == "LENGTH-KEY"]
                for b in base:
                    # explicit length keys stay small: the lenient encoder allocates as many
                    # bytes as an (absurd) explicit length asks for, which says nothing about
                    # the flag and only exhausts the memory of the six children
                    muts = [mv for _, mv in c04.mutate_assignment(b, r) if isinstance(mv, dict) and
                            not any(isinstance(mv.get(k), (int, float)) and
                                    not isinstance(mv.get(k), bool) and abs(mv[k]) > 4096
                                    for k in lkeys)]
                    assigns += r.sample(muts, min(len(muts), 10))
            # a SYSTEM parameter that is left out is filled in from the wall clock: such an
            # operation has no outcome that could be compared between two processes
            clocked = [p["name"] for p in rq["params"] if p["p"] == "SYSTEM"]
            for a in assigns:
                if any(n not in a for n in clocked):
                    continue
                ops.append((li, rq["name"], "enc", a))
        # decode ops are derived at run time from the first successful encoding per message
    return models, ops


def child_main(mode: str, tier: str, seed: int, out_path: str) -> None:
    hook = None
    if mode in ("L0", "L2S"):
        hook = _Hook()
        sys.meta_path.insert(0, hook)
    common.setup_paths()
    import odxtools.exceptions as ex  # noqa
    info: Dict[str, Any] = {"mode": mode, "hook_fired": bool(hook and hook.fired),
                            "flag_after_import": ex.strict_mode}
    # --- the hook on the raise-if-strict function ---------------------------------------
    events = {"entries": 0, "bad": []}  # type: Dict[str, Any]
    mon = sys.monitoring
    TOOL = 4
    target = getattr(ex, "odxraise", None)
    stack: List[bool] = []
    if target is not None:
        code = target.__code__
        mon.use_tool_id(TOOL, "verif-c17")

        def on_start(c: Any, off: int) -> Any:
            events["entries"] += 1
            stack.append(bool(ex.strict_mode))

        def on_return(c: Any, off: int, rv: Any) -> Any:
            flag = stack.pop() if stack else None
            if flag is True and len(events["bad"]) < 20:
                events["bad"].append(("returned-although-strict", info.get("current_op"),
                                      {"flag_now": bool(ex.strict_mode)}))

        def on_unwind(c: Any, off: int, exc: Any) -> Any:
            if c is not code:
                return None
            flag = stack.pop() if stack else None
            if isinstance(exc, (common.CallTimeout, common.StepLimit)):
                # the harness's own deadline interrupting the function is no decision of the
                # function
                events["interrupted"] = events.get("interrupted", 0) + 1
                return None
            if flag is False and len(events["bad"]) < 20:
                import traceback
                tb = traceback.extract_tb(getattr(exc, "__traceback__", None))
                events["bad"].append(("raised-although-lenient", info.get("current_op"),
                                      {"exception": f"{type(exc).__name__}: {exc}"[:200],
                                       "flag_now": bool(ex.strict_mode),
                                       "frames": [f"{os.path.basename(f.filename)}:{f.lineno} {f.name}"
                                                  for f in tb[-5:]]}))

        E = mon.events
        mon.register_callback(TOOL, E.PY_START, on_start)
        mon.register_callback(TOOL, E.PY_RETURN, on_return)
        mon.register_callback(TOOL, E.PY_UNWIND, on_unwind)
        mon.set_local_events(TOOL, code, E.PY_START | E.PY_RETURN)
        mon.set_events(TOOL, E.PY_UNWIND)  # unwinding cannot be observed per code object
    models, ops = build_ops(tier, seed)
    layers = []
    for m in models:
        layers.append(codecrun.LoadedLayer(m))
    info["flag_after_load"] = ex.strict_mode
    if mode == "S2L":
        ex.strict_mode = False
    elif mode == "L2S":
        ex.strict_mode = True
    results: Dict[int, Any] = {}
    mid_leaks: List[Any] = []
    flipper_state = {"k": 0, "n": 0, "armed": False}
    if mode == "MID":
        codes = []
        try:
            from odxtools.parameters.parameter import Parameter
            codes = [Parameter.encode_into_pdu.__code__, Parameter.decode_from_pdu.__code__]
        except Exception:
            info["mid_flip_points"] = "parameter entry points not found (refactored?)"
        TOOL2 = 3
        mon.use_tool_id(TOOL2, "verif-c17-flip")

        def flip(c: Any, off: int) -> Any:
            if flipper_state["armed"]:
                flipper_state["n"] += 1
                if flipper_state["n"] == flipper_state["k"]:
                    ex.strict_mode = not ex.strict_mode

        mon.register_callback(TOOL2, mon.events.PY_START, flip)
        for c in codes:
            mon.set_local_events(TOOL2, c, mon.events.PY_START)

    def run_op(idx: int, op: Tuple) -> Any:
        li, mname, kind, payload = op
        info["current_op"] = idx
        if kind == "load":
            return codecrun.call(load_summary, payload)
        ll = layers[li]
        if kind == "layerdec":
            o = codecrun.call(ll.layer.decode, payload)
        elif kind == "layerresp":
            o = codecrun.call(ll.layer.decode_response, payload[0], payload[1])
        elif kind == "svcdec":
            svc = next(x for x in ll.layer.services if x.short_name == mname)
            o = codecrun.call(svc.decode_message, payload)
        elif kind == "respdec":
            o = codecrun.decode(ll.neg[mname], payload)
        elif kind == "enc":
            return codecrun.encode(ll.requests[mname], payload)
        else:
            return codecrun.decode(ll.requests[mname], payload)
        if o.ok:
            o.value = norm_messages(o.value)
        return o

    # derive decode ops (same in every child: based on reference PDUs, not on odxtools)
    all_ops = list(ops)
    r2 = random.Random(seed + 99)
    from . import c05
    for li, m in enumerate(models):
        if m["name"] in ("oddities", "nrcs", "endmarkers") or m["name"].startswith("attrib_"):
            continue
        for rq in m["requests"][:: (2 if tier == "quick" else 1)]:
            vals = next((o[3] for o in ops if o[0] == li and o[1] == rq["name"]), None)
            if vals is None:
                continue
            k, e = codecrun.ref_encode(layers[li].ref, rq, vals)
            if k != "ok":
                continue
            muts = c05.mutations(e.pdu, r2, False)
            for _, b in r2.sample(muts, min(len(muts), 6)):
                all_ops.append((li, rq["name"], "dec", b))
    info["n_ops"] = len(all_ops)
    for idx, op in enumerate(all_ops):
        if mode == "FLIP":
            ex.strict_mode = True
            a = outcome(run_op(idx, op))
            ex.strict_mode = False
            b = outcome(run_op(idx, op))
            ex.strict_mode = True
            c = outcome(run_op(idx, op))
            results[idx] = (a, b, c)
        elif mode == "MID":
            for k in (1, 2, 3):
                for start in (True, False):
                    ex.strict_mode = start
                    flipper_state.update(k=k, n=0, armed=True)
                    o = run_op(idx, op)
                    flipper_state["armed"] = False
            results[idx] = None
        else:
            results[idx] = outcome(run_op(idx, op))
    info["hook_entries"] = events["entries"]
    info["hook_bad"] = events["bad"]
    info["flag_at_end"] = ex.strict_mode
    with open(out_path, "wb") as f:
        pickle.dump((info, results, [(o[0], o[1], o[2]) for o in all_ops],
                     [o[3] for o in all_ops]), f)


def cli_child(out_path: str) -> None:
    """In-process runs of the command line entry point: the flag it sets for the tool has to
    take effect for that run and the application's own setting has to be back afterwards,
    however the tool ends (return, exception, sys.exit)."""
    import contextlib
    import io
    import zipfile
    common.setup_paths()
    import odxtools.exceptions as ex
    import odxtools.cli.main as cli
    from .. import odxgen
    tmp = tempfile.mkdtemp(prefix="c17cli-")
    results: List[Tuple] = []
    try:
        good = os.path.join(common.REPO, "examples", "somersault.pdx")
        corrupt = os.path.join(tmp, "corrupt.pdx")
        with open(corrupt, "wb") as f:
            f.write(b"PK\x03\x04 this is not a zip archive")
        # a database that only the lenient mode loads: a service with an unknown ADDRESSING
        model = odxgen.simple_layer("clil", [], [{"name": "rq", "params": [odxgen.u8const("sid", 0x10)]}])
        lenient_only = os.path.join(tmp, "lenient_only.pdx")
        docs = odxgen.emit_container({"name": "c_clil", "layers": [model]})
        if "<DIAG-SERVICE " not in docs:
            raise RuntimeError("generator no longer emits <DIAG-SERVICE ...>")
        docs = docs.replace("<DIAG-SERVICE ", '<DIAG-SERVICE ADDRESSING="BOGUS" ', 1)
        with zipfile.ZipFile(lenient_only, "w") as z:
            z.writestr("clil.odx-d", docs)
        scenarios = [("ok", good), ("missing", os.path.join(tmp, "nope.pdx")), ("corrupt", corrupt),
                     ("lenient-only", lenient_only), ("version", None), ("no-command", None)]
        for initial in (True, False):
            for nostrict in (False, True):
                for name, path in scenarios:
                    ex.strict_mode = initial
                    argv = ["odxtools"] + (["--no-strict"] if nostrict else [])
                    if name == "version":
                        argv += ["--version"]
                    elif name != "no-command":
                        argv += ["list", path]
                    old_argv = sys.argv
                    sys.argv = argv
                    buf = io.StringIO()
                    try:
                        with contextlib.redirect_stdout(buf), contextlib.redirect_stderr(buf):
                            with warnings_ignored():
                                cli.start_cli()
                        res = "returned"
                    except SystemExit:
                        res = "exit"
                    except BaseException as e:  # noqa
                        res = "raised:" + codecrun.family(e)
                    finally:
                        sys.argv = old_argv
                    results.append((initial, nostrict, name, res, ex.strict_mode))
    finally:
        import shutil
        shutil.rmtree(tmp, ignore_errors=True)
    with open(out_path, "wb") as f:
        pickle.dump(results, f)


@__import__("contextlib").contextmanager
def warnings_ignored() -> Any:
    import warnings
    with warnings.catch_warnings():
        warnings.simplefilter("ignore")
        yield


def cli_leg(col: common.Collector) -> None:
    tmp = tempfile.mkdtemp(prefix="c17-")
    out = os.path.join(tmp, "cli.pkl")
    try:
        p = subprocess.run([sys.executable, "-c",
                            "import sys; sys.path.insert(0, %r); from vf.checks import c17; "
                            "c17.cli_child(%r)" % (common.ROOT, out)],
                           cwd=common.ROOT, env=dict(os.environ), capture_output=True, timeout=600)
        if p.returncode != 0 or not os.path.exists(out):
            col.fail_inconclusive("CLI child failed: " + p.stderr.decode(errors="replace")[-600:])
            return
        with open(out, "rb") as f:
            results = pickle.load(f)
    finally:
        import shutil
        shutil.rmtree(tmp, ignore_errors=True)
    seen = {}
    for initial, nostrict, name, res, after in results:
        col.ev()
        col.nontrivial(("cli", initial, nostrict, name, res))
        col.count("cli-runs")
        seen[(initial, nostrict, name)] = res
        if after is not initial:
            col.violation(("cli-leaves-mode-changed", "after-" + res.split(":")[0]),
                          {"initial_strict_mode": initial, "no_strict_option": nostrict,
                           "scenario": name, "tool_ended": res, "strict_mode_afterwards": after})
    for initial in (True, False):
        # the option decides for the run, whatever the application's own setting is
        if seen.get((initial, False, "lenient-only")) == "returned":
            col.violation(("cli-strict-run-is-lenient", "list"),
                          {"initial_strict_mode": initial, "scenario": "lenient-only",
                           "problem": "a database with an unknown ADDRESSING loads without --no-strict"})
        if seen.get((initial, True, "lenient-only")) not in ("returned",):
            col.violation(("cli-lenient-run-is-strict", "list"),
                          {"initial_strict_mode": initial, "scenario": "lenient-only",
                           "tool_ended": seen.get((initial, True, "lenient-only"))})
        if seen.get((initial, False, "ok")) != "returned" or seen.get((initial, True, "ok")) != "returned":
            col.fail_inconclusive("the list tool does not run on the shipped example")


def run(tier: str, col: common.Collector) -> None:
    cli_leg(col)
    seed = common.seed()
    tmp = tempfile.mkdtemp(prefix="c17-")
    data: Dict[str, Any] = {}
    try:
        procs = []
        for mode in MODES:
            out = os.path.join(tmp, mode + ".pkl")
            p = subprocess.Popen([sys.executable, "-c",
                                  "import sys; sys.path.insert(0, %r); from vf.checks import c17; "
                                  "c17.child_main(%r, %r, %d, %r)" % (common.ROOT, mode, tier, seed, out)],
                                 cwd=common.ROOT, env=dict(os.environ), stderr=subprocess.PIPE)
            procs.append((mode, p, out))
        for mode, p, out in procs:
            try:
                _, err = p.communicate(timeout=3000)
            except subprocess.TimeoutExpired:
                p.kill()
                col.fail_inconclusive(f"watchdog: child {mode} timed out")
                continue
            if p.returncode != 0 or not os.path.exists(out):
                col.fail_inconclusive(f"child {mode} failed: {err.decode(errors='replace')[-600:]}")
                continue
            with open(out, "rb") as f:
                data[mode] = pickle.load(f)
    finally:
        import shutil
        shutil.rmtree(tmp, ignore_errors=True)
    if set(data) != set(MODES):
        return
    infoS, S, opmeta, payloads = data["S"]
    infoL, L0 = data["L0"][0], data["L0"][1]
    col.notes["children"] = {m: {k: v for k, v in data[m][0].items() if k != "hook_bad"} for m in MODES}
    if not infoL.get("hook_fired") or infoL.get("flag_after_import") is not False:
        col.fail_inconclusive("import hook did not make the flag lenient from its definition")
    if infoS.get("flag_after_import") is not True:
        col.fail_inconclusive("strict child did not start strict")
    for m in MODES:
        if len(data[m][2]) != len(opmeta):
            col.fail_inconclusive(f"child {m} ran a different operation list")
            return

    def desc(i: int) -> Dict[str, Any]:
        li, mname, kind = opmeta[i]
        return {"op_index": i, "layer_index": li, "message": mname, "kind": kind,
                "payload": payloads[i]}

    differ = 0
    for i in range(len(opmeta)):
        kind = opmeta[i][2]
        s, l0 = S[i], L0[i]
        col.ev()
        if s != l0:
            differ += 1
            col.nontrivial(("flag-matters", i))
        if s[0] == "ok":
            col.nontrivial(("strict-ok", i))
            if l0 != s:
                col.violation(("lenient-changes-valid-result", kind),
                              dict(desc(i), strict=s, lenient=l0))
        elif kind != "enc" and s[2] != "foreign":
            col.count("strict-reports-on-decode")
            if l0[0] == "ok":
                col.count("downgraded-and-returned")
        if kind != "enc" and s[0] == "exc" and s[2] != "foreign" and l0[0] == "exc" and \
                l0[2] == "foreign":
            # "a problem reported as an error in strict mode is downgraded in non-strict mode":
            # downgraded means the call goes on (returns, or reports another problem of the
            # library's own kind) - not that it dies of a foreign exception because the code
            # after the downgraded report was not prepared to be reached.  Judged for decoding
            # only: every byte string is a legitimate input there, whereas the encode corpus
            # contains wrongly typed values with which a lenient encoder cannot go on anyway
            col.violation(("lenient-crashes-where-strict-reports", kind, l0[1]),
                          dict(desc(i), strict=s, lenient=l0))
        # immediacy
        s2l = data["S2L"][1][i]
        col.ev()
        if s2l != l0:
            col.violation(("switch-to-lenient-not-immediate", kind, s2l[1] if s2l[0] == "exc" else "value"),
                          dict(desc(i), switched=s2l, lenient_from_definition=l0, strict=s))
        l2s = data["L2S"][1][i]
        col.ev()
        if l2s != s:
            col.violation(("switch-to-strict-not-immediate", kind, l2s[1] if l2s[0] == "exc" else "value"),
                          dict(desc(i), switched=l2s, strict=s, lenient=l0))
        a, b, c = data["FLIP"][1][i]
        col.ev()
        if a != s or c != s:
            col.violation(("strict-not-restored", kind), dict(desc(i), first=a, third=c, strict=s))
        elif b != l0:
            col.violation(("lenient-phase-differs", kind), dict(desc(i), second=b, lenient=l0))
    col.notes["operations"] = len(opmeta)
    col.notes["operations_where_the_flag_matters"] = differ
    col.count("ops-flag-matters", differ)
    total_entries = 0
    for m in MODES:
        info = data[m][0]
        total_entries += info.get("hook_entries", 0)
        col.ev(info.get("hook_entries", 0))
        for what, opi, extra in info.get("hook_bad", []):
            col.violation(("raise-if-strict-ignores-flag", what, m),
                          dict(desc(opi) if isinstance(opi, int) else {}, mode=m, observed=extra))
    col.notes["raise_if_strict_entries_observed"] = total_entries
    if not total_entries:
        # the hook is an auxiliary monitor attached by name; if the function was renamed the
        # cross-process comparisons above still decide the property
        col.notes["raise_if_strict_hook"] = "not attached (function not found under its usual name)"
    if differ < 50:
        col.fail_inconclusive(f"only {differ} operations behave differently in the two modes")
    for i in (0, len(opmeta) // 2):
        col.sample({"operation": desc(i), "strict": S[i], "lenient": L0[i]}, limit=4)


def replay(w: Dict[str, Any], col: common.Collector) -> None:
    col.fail_inconclusive("C17 witnesses name an operation index of the seeded corpus: re-run "
                          "./check C17 with the same VERIF_SEED")
