"""C13 - malformed / lossy CAN traffic never crashes the reassembler or fabricates telegrams.

Events: exceptions and tuples from decode_rx_frame, per frame; on_* callback log.
Oracle: refisotp.Envelope (per ID) over the recorded history + recovery suffix.
Faults are enumerated: every single fault at every position of a set of base streams, every
pair of faults for the short base streams, plus random frame sequences.
"""
from __future__ import annotations

import contextlib
import io
import itertools
import random
from typing import Any, Dict, Iterable, List, Optional, Sequence, Tuple

from .. import common
from ..refisotp import Envelope, flow_control, kind_of, segment
from .c12 import IDS, UNRELATED, payload_for

PROPERTY = "C13"
LEVEL = "fault_enumeration"
RULE = ("base streams (well-formed ISO-TP transfers from an independent segmenter) x every "
        "single fault {drop, duplicate, swap, truncate to 0/1/2 bytes, PCI type nibble := 0..15, "
        "low nibble := 0..15, insert stray CF(sn)/FC(flag)/empty/other-ID frame} at every "
        "position, x every pair of faults for short base streams, + random frame sequences; "
        "each followed by a well-formed recovery suffix (SF, multi-frame) on the same ID. "
        "Distinct = distinct faulted frame sequence; non-trivial = the stream differs from its "
        "base stream")
MIN_EVALS = {"quick": 20000, "thorough": 500000}
ASSUMPTIONS = [
    "lenient reading of 'in-sequence': out-of-sequence consecutive frames are skipped; an "
    "implementation that aborts the transfer instead (reports nothing) is also accepted",
    "a classic frame with SF_DL=0 or SF_DL larger than the frame may be ignored or reported "
    "literally",
]

Frame = Tuple[int, bytes]

_LAYER: List[Any] = []


def _tool_layer() -> Any:
    """the layer the snoop tool interprets telegrams with (shipped example database)"""
    if not _LAYER:
        import os
        import odxtools
        db = odxtools.load_pdx_file(os.path.join(common.REPO, "examples", "somersault.pdx"))
        _LAYER.append(db.ecus.somersault_lazy)
    return _LAYER[0]


def tool_leg(col: common.Collector, stream: List[Frame], base: str,
             faults: List[Tuple[str, int, Any]], fmt: str) -> None:
    """The snoop tool end to end: the frames as a candump-style text on its standard input,
    reassembled by the decoder it builds and handed to its telegram handler.  Nothing may raise,
    and the handler has to be given exactly the telegrams the plain machine reports for the same
    frames."""
    import argparse
    import asyncio
    import sys
    from odxtools.isotp_state_machine import IsoTpStateMachine
    from .c12 import render
    try:
        import odxtools.cli.snoop as snoop
    except ImportError:
        col.count("snoop-tool-unavailable")
        return
    rx, tx = IDS[0], IDS[1]
    plain = IsoTpStateMachine([rx, tx])
    want: List[Tuple[int, bytes]] = []
    try:
        for cid, data in stream:
            want += [(rid, bytes(pl)) for rid, pl in plain.decode_rx_frame(cid, data)]
    except Exception:
        return  # the frame-level monitor reports that
    seen: List[Tuple[int, bytes]] = []
    orig = snoop.handle_telegram

    def recording(telegram_id: int, payload: bytes) -> None:
        seen.append((telegram_id, bytes(payload)))
        orig(telegram_id, payload)

    old_stdin = sys.stdin
    snoop.odx_diag_layer = _tool_layer()
    snoop.last_request = None
    snoop.handle_telegram = recording
    sink = io.StringIO()
    err: Optional[BaseException] = None
    try:
        sys.stdin = io.StringIO(render(stream, fmt))
        with contextlib.redirect_stdout(sink), contextlib.redirect_stderr(sink):
            asyncio.run(snoop.passive_main(argparse.Namespace(rx=hex(rx), tx=hex(tx), channel=None)))
    except Exception as e:  # the outcome is data
        err = e
    finally:
        sys.stdin = old_stdin
        snoop.handle_telegram = orig
    col.ev()
    col.count("snoop-tool-runs")
    col.count("snoop-tool-format:" + fmt)
    fkinds = "+".join(sorted(set(f[0] for f in faults))) or "none"
    detail = {"base": base, "faults": [list(f) for f in faults], "format": fmt,
              "frames": [[c, d] for c, d in stream]}
    if err is not None:
        import traceback
        tb = traceback.extract_tb(err.__traceback__)
        where = tb[-1].name if tb else "?"
        col.violation(("tool-raises", type(err).__name__, where),
                      dict(detail, problem=f"{type(err).__name__}: {err}", telegrams_before=len(seen)))
        return
    col.count("snoop-tool-telegrams", len(seen))
    if seen != want:
        col.violation(("tool-telegrams-differ", fmt.split("-")[0], fkinds if len(faults) < 2 else "double"),
                      dict(detail, handler_got=seen[:8], plain_machine=want[:8]))


def base_streams() -> List[Tuple[str, List[Frame]]]:
    A, B = IDS[0], IDS[1]
    res = []

    def seg(cid: int, tag: int, L: int, dl: int = 8, pad: Optional[int] = None) -> List[Frame]:
        return [(cid, f) for f in segment(payload_for(tag, L), dl, pad)]

    res.append(("sf", seg(A, 1, 3)))
    res.append(("ff+2cf", seg(A, 2, 20)))
    res.append(("ff+cf,sf", seg(A, 3, 10) + seg(A, 4, 2)))
    res.append(("two-multi", seg(A, 5, 9) + seg(A, 6, 15, pad=0xAA)))
    res.append(("fd-escape", seg(A, 7, 10, 16)))
    res.append(("fd-multi", seg(A, 8, 40, 16)))
    res.append(("snwrap", seg(A, 9, 6 + 7 * 18)))
    a = seg(A, 10, 20)
    b = seg(B, 11, 16)
    res.append(("two-ids", [a[0], b[0], a[1], b[1], b[2], a[2]]))
    # what the telegrams MEAN is nothing to the reassembler, but the tools that consume them look
    # at the first bytes: complete, cut-off and pending negative responses
    res.append(("uds-answers", [(A, bytes([0x02, 0x10, 0x01])), (B, bytes([0x03, 0x7F, 0x10, 0x78])),
                                (B, bytes([0x03, 0x7F, 0x10, 0x11])), (B, bytes([0x02, 0x7F, 0x10])),
                                (B, bytes([0x01, 0x7F])), (B, bytes([0x02, 0x50, 0x01]))]))
    return res


def single_faults(stream: List[Frame]) -> Iterable[Tuple[str, int, Any]]:
    n = len(stream)
    for pos in range(n):
        yield ("drop", pos, None)
        yield ("dup", pos, None)
        if pos + 1 < n:
            yield ("swap", pos, None)
        for k in (0, 1, 2):
            yield ("trunc", pos, k)
        for v in range(16):
            yield ("pci", pos, v)
        for v in range(16):
            yield ("low", pos, v)
    for pos in range(n + 1):
        for sn in range(16):
            yield ("ins-cf", pos, sn)
        for fl in (0, 1, 2, 15):
            yield ("ins-fc", pos, fl)
        yield ("ins-empty", pos, None)
        yield ("ins-other", pos, None)
        yield ("ins-ff", pos, None)


def apply_fault(stream: List[Frame], fault: Tuple[str, int, Any]) -> List[Frame]:
    kind, pos, arg = fault
    s = list(stream)
    pos = min(pos, len(s) - (0 if kind.startswith("ins") else 1))
    if pos < 0:
        pos = 0
    if not s and not kind.startswith("ins"):
        return s
    cid = s[min(pos, len(s) - 1)][0] if s else IDS[0]
    if kind == "drop":
        del s[pos]
    elif kind == "dup":
        s.insert(pos, s[pos])
    elif kind == "swap":
        if pos + 1 < len(s):
            s[pos], s[pos + 1] = s[pos + 1], s[pos]
    elif kind == "trunc":
        s[pos] = (s[pos][0], s[pos][1][:arg])
    elif kind == "pci":
        d = s[pos][1]
        if d:
            s[pos] = (s[pos][0], bytes([(arg << 4) | (d[0] & 0x0F)]) + d[1:])
    elif kind == "low":
        d = s[pos][1]
        if d:
            s[pos] = (s[pos][0], bytes([(d[0] & 0xF0) | arg]) + d[1:])
    elif kind == "ins-cf":
        s.insert(pos, (cid, bytes([0x20 | arg, 0xE1, 0xE2, 0xE3, 0xE4, 0xE5, 0xE6, 0xE7])))
    elif kind == "ins-fc":
        s.insert(pos, (cid, flow_control(arg & 0xF, 8, 0)))
    elif kind == "ins-empty":
        s.insert(pos, (cid, b""))
    elif kind == "ins-other":
        s.insert(pos, (UNRELATED, bytes([0x10, 0x08, 1, 2, 3, 4, 5, 6])))
    elif kind == "ins-ff":
        s.insert(pos, (cid, bytes([0x10, 0x0A, 0xD1, 0xD2, 0xD3, 0xD4, 0xD5, 0xD6])))
    return s


def recovery_suffix(ids: Sequence[int]) -> Tuple[List[Frame], Dict[int, List[bytes]]]:
    fr: List[Frame] = []
    exp: Dict[int, List[bytes]] = {}
    for n, cid in enumerate(ids):
        p1 = payload_for(200 + n, 4)
        p2 = payload_for(210 + n, 17)
        p3 = payload_for(220 + n, 6 + 7 * 16 + 3)  # sequence number wraps
        exp[cid] = [p1, p2, p3]
        for p in (p1, p2, p3):
            fr += [(cid, f) for f in segment(p, 8, 0x55 if n else None)]
    return fr, exp


def judge(col: common.Collector, stream: List[Frame], ids: Sequence[int], base: str,
          faults: List[Tuple[str, int, Any]], fault_free: bool = False, tool_every: int = 0) -> None:
    from odxtools.isotp_state_machine import IsoTpStateMachine
    log: List[Tuple] = []

    class Logged(IsoTpStateMachine):  # callbacks become events

        def on_sequence_error(self, telegram_idx: int, expected_idx: int, rx_idx: int) -> None:
            log.append(("seq", telegram_idx, expected_idx, rx_idx))
            super().on_sequence_error(telegram_idx, expected_idx, rx_idx)

        def on_frame_type_error(self, telegram_idx: int, frame_type: int) -> None:
            log.append(("type", telegram_idx, frame_type))
            super().on_frame_type_error(telegram_idx, frame_type)

        def on_telegram_complete(self, telegram_idx: int, telegram_payload: bytes) -> None:
            log.append(("complete", telegram_idx, bytes(telegram_payload)))
            super().on_telegram_complete(telegram_idx, telegram_payload)

    sm = Logged(list(ids))
    # the active decoder (answers first frames with flow control) processes the same frames: it
    # must not raise either and must report what the passive machine reports
    from odxtools.isotp_state_machine import IsoTpActiveDecoder
    from .c12 import StubBus
    active = IsoTpActiveDecoder(StubBus(), list(ids), [i + 0x100 for i in ids])
    # ... and so do the decoders the snoop tool builds (they print what goes wrong)
    verbose = []
    try:
        import odxtools.cli.snoop as snoop
        verbose = [("snoop-passive", snoop.init_verbose_state_machine(IsoTpStateMachine, list(ids))),
                   ("snoop-active", snoop.init_verbose_state_machine(
                       IsoTpActiveDecoder, StubBus(), list(ids), [i + 0x100 for i in ids]))]
    except ImportError:
        col.count("snoop-decoders-unavailable")
    sink = io.StringIO()
    env = {i: Envelope() for i in ids}
    suffix, suffix_exp = recovery_suffix(ids)
    fkinds = "+".join(sorted(set(f[0] for f in faults))) or "none"
    col.ev()

    def bad(clause: str, fk: str, text: str, n: int) -> None:
        col.violation((clause, fk), {
            "base": base, "faults": [list(f) for f in faults], "ids": list(ids),
            "frames": [[c, d] for c, d in stream], "failing_frame_index": n, "problem": text})

    for n, (cid, data) in enumerate(stream):
        ncomplete = sum(1 for e in log if e[0] == "complete")
        try:
            out = [(rid, bytes(pl)) for rid, pl in sm.decode_rx_frame(cid, data)]
        except Exception as e:
            bad("raises", f"{type(e).__name__}/{kind_of(data)}", f"frame {n} "
                f"({cid:x}#{data.hex()}): {type(e).__name__}: {e}", n)
            return
        try:
            aout = [(rid, bytes(pl)) for rid, pl in active.decode_rx_frame(cid, data)]
        except Exception as e:
            bad("active-raises", f"{type(e).__name__}/{kind_of(data)}", f"frame {n} "
                f"({cid:x}#{data.hex()}): active decoder: {type(e).__name__}: {e}", n)
            return
        if aout != out:
            bad("active-differs", kind_of(data), f"frame {n} ({cid:x}#{data.hex()}): active decoder "
                f"reported {aout}, passive {out}", n)
            return
        col.count("active-frames")
        for vname, vdec in verbose:
            try:
                with contextlib.redirect_stdout(sink):
                    vout = [(rid, bytes(pl)) for rid, pl in vdec.decode_rx_frame(cid, data)]
            except Exception as e:
                bad("active-raises", f"{vname}/{type(e).__name__}/{kind_of(data)}", f"frame {n} "
                    f"({cid:x}#{data.hex()}): {vname}: {type(e).__name__}: {e}", n)
                return
            if vout != out:
                bad("active-differs", vname + "/" + kind_of(data), f"frame {n} ({cid:x}#{data.hex()}): "
                    f"{vname} reported {vout}, the plain machine {out}", n)
                return
            col.count("snoop-decoder-frames")
        sink.seek(0)
        sink.truncate()
        if cid not in env:
            if out:
                bad("fabricated", "unrelated-id", f"frame {n} on unmonitored id reported {out}", n)
                return
            continue
        if any(rid != cid for rid, _ in out):
            bad("fabricated", "wrong-id", f"frame {n} on {cid:x} reported for another id", n)
            return
        prob = env[cid].feed(data, [pl for _, pl in out])
        if prob is not None:
            bad(prob[0], kind_of(data), f"frame {n} ({cid:x}#{data.hex()}): {prob[1]}", n)
            return
        # the completion callback must agree with what is yielded
        completes = [e for e in log if e[0] == "complete"][ncomplete:]
        if [c[2] for c in completes] != [pl for _, pl in out]:
            bad("callback-disagrees", kind_of(data), f"frame {n}: on_telegram_complete saw "
                f"{len(completes)} telegram(s), the generator yielded {len(out)}", n)
            return
    # recovery: a well-formed suffix must be reported exactly
    got: Dict[int, List[bytes]] = {i: [] for i in ids}
    agot: Dict[int, List[bytes]] = {i: [] for i in ids}
    for n, (cid, data) in enumerate(suffix):
        try:
            for rid, pl in active.decode_rx_frame(cid, data):
                agot.setdefault(rid, []).append(bytes(pl))
        except Exception as e:
            bad("recovery-raises", "active/" + type(e).__name__,
                f"suffix frame {n}: active decoder: {type(e).__name__}: {e}", len(stream) + n)
            return
        try:
            for rid, pl in sm.decode_rx_frame(cid, data):
                got.setdefault(rid, []).append(bytes(pl))
        except Exception as e:
            bad("recovery-raises", type(e).__name__, f"suffix frame {n}: {type(e).__name__}: {e}",
                len(stream) + n)
            return
    for i in ids:
        if agot[i] != suffix_exp[i]:
            bad("recovery-failed", "active/" + (fkinds if len(faults) < 2 else "double"),
                f"id {i:x}: active decoder: after the faulty stream the well-formed suffix gave "
                f"{[x.hex()[:16] for x in agot[i]]}", len(stream))
            return
        if got[i] != suffix_exp[i]:
            bad("recovery-failed", fkinds if len(faults) < 2 else "double",
                f"id {i:x}: after the faulty stream the well-formed suffix gave "
                f"{[x.hex()[:16] for x in got[i]]}", len(stream))
            return
    col.count("streams_with_seq_error_callback", 1 if any(e[0] == "seq" for e in log) else 0)
    col.count("streams_with_type_error_callback", 1 if any(e[0] == "type" for e in log) else 0)
    col.count("fault:" + fkinds if len(faults) < 2 else "fault:double")
    col.nontrivial(tuple((c, d) for c, d in stream))
    if tool_every and (len(stream) * 7 + sum(len(d) for _, d in stream)) % tool_every == 0:
        from .c12 import FORMATS
        tool_leg(col, stream, base, faults,
                 FORMATS[(len(stream) + sum(d[0] for _, d in stream if d)) % len(FORMATS)])


def part_single(task: Tuple, col: common.Collector) -> None:
    name, stream, ids = task
    for f in single_faults(stream):
        judge(col, apply_fault(stream, f), ids, name, [f], tool_every=1)
    col.sample({"base": name, "frames": [[c, d.hex()] for c, d in stream[:6]],
                "example_fault": ["pci", 0, 2],
                "faulted": [[c, d.hex()] for c, d in apply_fault(stream, ("pci", 0, 2))[:6]]},
               limit=3)


def part_double(task: Tuple, col: common.Collector) -> None:
    name, stream, ids, pairs = task
    for f1, f2 in pairs:
        s1 = apply_fault(stream, f1)
        judge(col, apply_fault(s1, f2), ids, name, [f1, f2], tool_every=5)


def part_random(task: Tuple, col: common.Collector) -> None:
    worker, count = task
    r = common.rng(worker, "c13")
    for _ in range(count):
        ids = IDS[:r.choice([1, 2])]
        stream: List[Frame] = []
        for _ in range(r.randrange(1, 30)):
            cid = r.choice(list(ids) + [UNRELATED]) if r.random() < 0.9 else UNRELATED
            x = r.random()
            if x < 0.5:
                first = (r.choice([0, 1, 2, 2, 2, 3, r.randrange(16)]) << 4) | r.randrange(16)
                d = bytes([first]) + bytes(r.getrandbits(8) for _ in range(r.choice([0, 1, 2, 7, 7, 7, 11, 63])))
            elif x < 0.6:
                d = b""
            else:
                fr = segment(bytes(r.getrandbits(8) for _ in range(r.randrange(1, 40))),
                             r.choice([8, 8, 16]), r.choice([None, 0xAA]))
                for f in fr:
                    if r.random() < 0.85:
                        stream.append((cid, f))
                continue
            stream.append((cid, d))
        judge(col, stream, ids, "random", [("random", 0, None)], tool_every=2)


def run(tier: str, col: common.Collector) -> None:
    bases = base_streams()
    tasks = []
    for name, stream in bases:
        ids = sorted(set(c for c, _ in stream))
        # fault-free base stream must pass the same monitor (guards the oracle itself)
        judge(col, list(stream), ids, name, [], fault_free=True, tool_every=1)
        tasks.append((name, stream, ids))
    common.pmap(part_single, tasks, col)
    r = random.Random(common.seed() + 13)
    dtasks = []
    for name, stream in bases:
        ids = sorted(set(c for c, _ in stream))
        sf = list(single_faults(stream))
        if len(stream) <= 4:
            pairs = list(itertools.product(sf, sf))
            if tier == "quick":
                pairs = r.sample(pairs, min(len(pairs), 12000))
        else:
            k = 4000 if tier == "quick" else 60000
            pairs = [(r.choice(sf), r.choice(sf)) for _ in range(k)]
        n = max(1, min(common.NCPU, len(pairs) // 500))
        for i in range(n):
            dtasks.append((name, stream, ids, pairs[i::n]))
    common.pmap(part_double, dtasks, col)
    nrand = 900 if tier == "quick" else 20000
    common.pmap(part_random, [(w, nrand) for w in range(common.NCPU)], col)
    col.notes["base_streams"] = [n for n, _ in bases]
    if not col.counters.get("streams_with_seq_error_callback"):
        col.fail_inconclusive("no stream ever triggered on_sequence_error: faults not reaching the decoder")


def replay(w: Dict[str, Any], col: common.Collector) -> None:
    frames = [(int(c), bytes(d)) for c, d in w["frames"]]
    judge(col, frames, [int(i) for i in w["ids"]], w.get("base", "replay"),
          [tuple(f) for f in w.get("faults", [])])
