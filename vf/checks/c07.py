"""C07 - compu methods compute the mathematically specified conversion.

Events: CompuMethod.convert_internal_to_physical / convert_physical_to_internal /
is_valid_internal_value / is_valid_physical_value of generated methods loaded from ODX XML
(one DATA-OBJECT-PROP per method, ~40 per document) and, for a subset, encode/decode of a
one-parameter request using the DOP.
Oracle: vf/refcompu.py (exact rational arithmetic written from the ODX rule).
"""
from __future__ import annotations

import io
import math
import random
import struct
from fractions import Fraction
from typing import Any, Dict, Iterable, List, Optional, Sequence, Tuple

from .. import c07gen, common, odxgen, refcompu
from ..refcompu import Compu, Invalid, NotInvertible, Undefined, accept_numeric, frac

PROPERTY = "C07"
LEVEL = "exploration"
RULE = ("compu methods generated from fixed alphabets: 8 categories x internal type {A_INT32, "
        "A_UINT32, A_FLOAT32, A_FLOAT64} x physical type {A_INT32, A_UINT32, A_FLOAT64; "
        "A_UNICODE2STRING for TEXTTABLE} x coefficients {0, +-1, +-2, +-3, 1/2, 1/10, 3/10, 7/2, "
        "1e6, float literals} x every (lower, upper) combination of {CLOSED, OPEN, INFINITE, "
        "missing, no INTERVAL-TYPE} x 1-4 scales (continuous / discontinuous / overlapping / "
        "gapped / disjoint images; tables increasing, decreasing, zigzag, flat), a systematic "
        "grid plus seeded random draws; each method loaded from XML inside a DATA-OBJECT-PROP "
        "and probed with every value of an 8-bit internal domain (+-2 outside), limit +-1 / "
        "+-ulp and random values for 16 bit and real types, wrong python types, and with "
        "physical values = images of valid internal values, values in between and outside. "
        "Distinct = (method, value); non-trivial = the value is valid for the reference or "
        "lies within 1 of a limit")
MIN_EVALS = {"quick": 400000, "thorough": 10000000}
ASSUMPTIONS = [
    "V of COMPU-NUMERATOR / COMPU-DENOMINATOR is xsd:double; a python float stands for its exact "
    "binary value; a missing COMPU-DENOMINATOR means 1",
    "a scale of a numeric category with only one of LOWER-/UPPER-LIMIT is read both as 'applies "
    "to that value only' and as 'unbounded on the other side'; a value is judged only where "
    "both readings agree.  TEXTTABLE: that value only",
    "TEXTTABLE: an internal value outside all scales may be declared valid or invalid when "
    "COMPU-INTERNAL-TO-PHYS has a COMPU-DEFAULT-VALUE; a value inside several scales may give "
    "the first scale's text or the library's own error",
    "identity claims (image is valid, p2i(i2p(v)) == v) are made only for injective methods, "
    "when neither the exact image of v nor the exact image of a finite limit is a rounding tie",
    "an OdxError raised by is_valid_*_value counts as 'not declared valid'",
    "poles of rational functions are not judged",
]

BATCH = 40
TP_CLASSES_NUM = ["int->int", "int->float", "float->int", "float->float"]


# ---------------------------------------------------------------------------
# loading


def _dop_of(case: Dict[str, Any], name: str) -> Dict[str, Any]:
    # PRECISION is a display hint and must not influence any conversion
    prec = (case["bits"] % 3) if case["ptype"] in ("A_FLOAT32", "A_FLOAT64") and \
        case["bits"] % 2 == 0 else None
    return odxgen.dop(name, odxgen.dct_std(case["itype"], case["bits"]), ptype=case["ptype"],
                      compu=case["compu"], precision=prec)


def load_cases(cases: Sequence[Dict[str, Any]], with_requests: bool = True) -> Any:
    """-> diag layer with DOPs d0.. (and services svc_rq<k> for integer DOPs)"""
    dops = [_dop_of(c, f"d{k}") for k, c in enumerate(cases)]
    reqs = []
    if with_requests:
        for k, c in enumerate(cases):
            if c.get("dop_level"):
                reqs.append({"name": f"rq{k}", "params": [odxgen.u8const("sid", 0x22, 0),
                                                          odxgen.p_value("v", f"d{k}", 1)]})
    layer = odxgen.simple_layer("C07L", dops, reqs)
    xml = odxgen.emit_container({"name": "c_C07L", "layers": [layer]})
    if any(c["cat"] == "COMPUCODE" for c in cases):
        # PROG-CODE needs its CODE-FILE among the auxiliary files of the database
        from xml.etree import ElementTree

        from odxtools.database import Database
        db = Database()
        db.add_auxiliary_file("c07code.jar", io.BytesIO(b"not really a jar"))
        db._process_xml_tree(ElementTree.fromstring(xml))
        db.refresh()
    else:
        db = odxgen.load_xml([xml])
    return db.diag_layers[0]


# ---------------------------------------------------------------------------
# values


def _f32_step(x: float, up: bool) -> float:
    x = refcompu.f32(x)
    (b,) = struct.unpack(">i", struct.pack(">f", x))
    if x == 0:
        return 2.0**-149 if up else -(2.0**-149)
    b += 1 if (up == (x > 0)) else -1
    return struct.unpack(">f", struct.pack(">i", b))[0]


def limit_values(case: Dict[str, Any], direction: str = "i2p") -> List[Any]:
    res = []
    for sc in (case["compu"].get(direction) or {}).get("scales", []):
        for key in ("lo", "hi"):
            lv = sc.get(key)
            if lv is not None and lv[0] is not None:
                res.append(lv[0])
    return res


def internal_values(case: Dict[str, Any], r: random.Random) -> List[Any]:
    it, bits = case["itype"], case["bits"]
    lims = limit_values(case)
    vals: List[Any] = []
    if it in refcompu.INT_TYPES:
        lo, hi = c07gen.domain(it, bits)
        if bits == 8:
            vals += list(range(lo - 2, hi + 3))
        else:
            for b in lims:
                vals += [int(b) - 1, int(b), int(b) + 1]
            vals += [lo - 1, lo, lo + 1, hi - 1, hi, hi + 1, 0]
            a = min([int(b) for b in lims] or [lo]) - 50
            z = max([int(b) for b in lims] or [hi]) + 50
            vals += [r.randrange(a, z + 1) for _ in range(70)]
            vals += [r.randrange(lo, hi + 1) for _ in range(10)]
    else:
        is32 = it == "A_FLOAT32"
        for b in lims:
            b = float(b)
            vals += [b, b - 1, b + 1, b - 0.5, b + 0.5]
            if is32:
                vals += [_f32_step(b, True), _f32_step(b, False)]
            else:
                vals += [math.nextafter(b, math.inf), math.nextafter(b, -math.inf)]
            vals.append(int(b))
        a = min([float(b) for b in lims] or [-100.0]) - 20
        z = max([float(b) for b in lims] or [300.0]) + 20
        for _ in range(30):
            vals.append(math.floor(r.uniform(a, z) * 4) / 4)
        for _ in range(30):
            x = r.uniform(a, z)
            vals.append(refcompu.f32(x) if is32 else x)
        vals += [0.0, -0.0, 1.0, float(r.randrange(int(a), int(z) + 1))]
        if is32:
            vals = [v if isinstance(v, int) else refcompu.f32(v) for v in vals]
    seen = set()
    out = []
    for v in vals:
        key = (type(v).__name__, v)
        if key not in seen:
            seen.add(key)
            out.append(v)
    return out


def wrong_type_values(case: Dict[str, Any]) -> List[Any]:
    if case["itype"] in refcompu.INT_TYPES:
        lims = limit_values(case)
        base = float(lims[0]) if lims else 3.0
        return [base + 0.5, "x"]
    return ["x"]


# ---------------------------------------------------------------------------
# judging


class Judge:
    """all monitors of one loaded case"""

    def __init__(self, col: common.Collector, case: Dict[str, Any], dop: Any, svc: Any = None):
        from odxtools.exceptions import OdxError
        self.OdxError = OdxError
        self.col = col
        self.case = case
        self.cm = dop.compu_method
        self.svc = svc
        self.cat = case["cat"]
        self.it, self.pt = case["itype"], case["ptype"]
        self.tp = c07gen.type_pair(self.it, self.pt)
        self.refs = Compu.readings(case["compu"], self.it, self.pt)
        self.ref = self.refs[0]
        self.injective = all(x.injective() for x in self.refs)
        self.mono = all(x.monotone_continuous() for x in self.refs)
        self.has_flat = any(s.num is not None and s.n1 == 0 for s in self.ref.scales)
        self.limit_tie = self._limit_tie()
        # mechanism tag for the clauses about the physical -> internal direction of (SCALE-)LINEAR:
        # odxtools derives the limits of the physical value from the (rounded) images of the
        # internal limits, which is inexact next to OPEN limits and for slopes below one with an
        # integer physical type. Deviations under that condition are one known mechanism, the
        # same deviation without it is a different one.
        self.limit_rounding = "plain"
        if self.cat in ("LINEAR", "SCALE-LINEAR"):
            try:
                open_lim = any(l.finite and l.kind == "OPEN" for sc in self.ref.scales
                               for l in (sc.lo, sc.hi))
                low_slope = self.ref.int_physical and any(
                    sc.num is not None and sc.n1 != 0 and abs(sc.slope) < 1 for sc in self.ref.scales)
                if (open_lim and (self.ref.int_physical or self.ref.int_internal)) or low_slope:
                    self.limit_rounding = "limits-derived-from-rounded-images"
            except Exception:
                pass
        self.limit_images: List[float] = []
        if self.cat in ("LINEAR", "SCALE-LINEAR") and not self.ref.int_physical:
            for sc in self.ref.scales:
                for l in (sc.lo, sc.hi):
                    if l.finite and sc.d0 != 0 and sc.num is not None:
                        self.limit_images.append(float(sc.linear(l.value)))
        self.images: List[Tuple[Any, Any, Any, bool]] = []  # (v, observed, exact, tie)
        self.rt_ok: List[Tuple[Any, Any]] = []  # (p, v) pairs whose compu round trip passed
        self.vmis: List[Tuple[str, str, Any, bool]] = []  # validity mismatches (dir, detail, v, exp)

    # -- helpers -----------------------------------------------------------
    def _limit_tie(self) -> bool:
        if self.cat not in ("LINEAR", "SCALE-LINEAR") or not self.ref.int_physical:
            return False
        for s in self.ref.scales:
            for l in (s.lo, s.hi):
                if l.finite and s.d0 != 0 and self.ref.is_tie(s.linear(l.value), "i2p"):
                    return True
        return False

    def bad(self, sig: Tuple, call: str, value: Any, **kw: Any) -> None:
        d = {"case": self.case, "call": call, "value": value,
             "value_type": type(value).__name__}
        d.update(kw)
        self.col.violation(sig, d)

    def _agree(self, fn: Any) -> Tuple[bool, Any]:
        """evaluate fn(ref) under every reading; (all agree, result of the first)"""
        res = []
        for ref in self.refs:
            try:
                res.append(("val", fn(ref)))
            except Undefined:
                res.append(("undefined", None))
            except Invalid:
                res.append(("invalid", None))
            except NotInvertible:
                res.append(("notinv", None))
        return all(x == res[0] for x in res), res[0]

    def _limit_detail(self, v: Any) -> str:
        if isinstance(v, str) or isinstance(v, bool) or not isinstance(v, (int, float)):
            return "wrong-type"
        if not refcompu.admissible(v, self.it):
            return "wrong-type"
        best = None
        for s in self.ref.scales:
            for l, present in ((s.lo, s.lo.present), (s.hi, s.hi.present)):
                if l.finite and l.value == frac(v):
                    best = l.kind.lower() + "-limit"
        return best or "off-limit"

    def _call(self, fn: Any, *a: Any) -> Tuple[str, Any]:
        try:
            return "ok", fn(*a)
        except self.OdxError as e:
            return "odxerror", e
        except Exception as e:  # foreign exception type
            return "foreign", e

    # -- internal values ---------------------------------------------------
    def internal(self, v: Any) -> None:
        col, cm = self.col, self.cm
        agree, (kind, valid) = self._agree(lambda ref: ref.valid_internal(v))
        st, obs_valid = self._call(cm.is_valid_internal_value, v)
        col.ev()
        if st == "foreign":
            self.bad(("valid-internal-foreign-exception", self.cat, self.tp,
                      type(obs_valid).__name__), "is_valid_internal_value", v,
                     problem=repr(obs_valid))
            obs_valid = False
        elif st == "odxerror":
            col.count("is_valid_internal raised OdxError")
            obs_valid = False
        if not agree:
            col.count("ambiguous: one-sided scale readings differ")
            return
        lenient = self.ref.internal_default_applies(v)
        if lenient:
            col.count("ambiguous: TEXTTABLE default value")
            # valid or not - if the conversion answers, the answer is the default text
            st, res = self._call(cm.convert_internal_to_physical, v)
            col.ev()
            if st == "foreign":
                self.bad(("i2p-foreign-exception", self.cat, self.tp, type(res).__name__),
                         "convert_internal_to_physical", v, problem=repr(res))
            elif st == "ok" and res != self.ref.phys_default:
                self.bad(("i2p-wrong", self.cat, self.tp, "default-value"),
                         "convert_internal_to_physical", v, expected=self.ref.phys_default,
                         observed=res)
            return
        elif bool(obs_valid) != valid:
            detail = self._limit_detail(v)
            if self.cat == "TEXTTABLE" and self.ref.int_default is not None and not valid:
                detail = "internal-default"
            self.vmis.append(("rejects-valid" if valid else "accepts-invalid", detail, v, valid))
        near = valid or any(abs(frac(v) - frac(b)) <= 1 for b in limit_values(self.case)) \
            if isinstance(v, (int, float)) else False
        if near:
            col.nontrivial((self.case["id"], "i", repr(v)))
        if not valid:
            if obs_valid and not lenient:
                st, res = self._call(cm.convert_internal_to_physical, v)
                col.ev()
                if st == "foreign":
                    self.bad(("i2p-foreign-exception", self.cat, self.tp,
                              self._zde_tag(res, self.ref.scales, v)),
                             "convert_internal_to_physical", v, problem=repr(res),
                             note="declared valid by is_valid_internal_value")
            return
        # valid: the conversion must equal the formula
        agree, (kind, exact) = self._agree(lambda ref: ref.i2p_exact(v))
        if not agree or kind != "val":
            col.count("skipped: pole or readings differ")
            return
        st, obs = self._call(cm.convert_internal_to_physical, v)
        col.ev()
        col.count(f"i2p:{self.cat}")
        multi = self.cat == "TEXTTABLE" and self.ref.matching_scales(v) > 1
        if st == "foreign":
            why = self._zde_tag(obs, self.ref.scales, v)
            self.bad(("i2p-foreign-exception", self.cat, self.tp, why),
                     "convert_internal_to_physical", v, problem=repr(obs), expected=str(exact))
            return
        if st == "odxerror":
            if multi:
                col.count("ambiguous: value inside several TEXTTABLE scales")
                return
            if not obs_valid:
                return  # already reported: the value is wrongly declared invalid
            self.bad(("i2p-raises-on-valid", self.cat, self.tp), "convert_internal_to_physical", v,
                     problem=repr(obs), expected=str(exact))
            return
        if isinstance(exact, str):
            ok = obs == exact
            mag = 0.0
        else:
            mag = self.ref.i2p_magnitude(v)
            ok = accept_numeric(obs, exact, self.pt, mag)
        if not ok:
            self.bad(("i2p-wrong", self.cat, self.tp), "convert_internal_to_physical", v,
                     expected=str(exact), observed=obs)
            return
        tie = self.ref.is_tie(exact, "i2p", mag)
        self.images.append((v, obs, exact, tie))

    def flush_validity(self) -> None:
        """report validity mismatches; a mismatch on a limit is only reported when the method
        has no mismatch of the same direction away from the limits (one mechanism, one
        signature)"""
        for direction in ("rejects-valid", "accepts-invalid"):
            mine = [m for m in self.vmis if m[0] == direction]
            broad = [m for m in mine if not m[1].endswith("-limit")]
            for _, detail, v, exp in (broad or mine):
                self.bad(("valid-internal-wrong", self.cat, self.tp, f"{direction}/{detail}"),
                         "is_valid_internal_value", v, expected=exp, observed=not exp)
        self.vmis = []

    def _zde_tag(self, exc: Any, scales: Any, x: Any) -> str:
        why = type(exc).__name__
        if isinstance(exc, ZeroDivisionError) and self.cat in ("RAT-FUNC", "SCALE-RAT-FUNC"):
            if any(not sc.den for sc in scales):
                why += "/no-denominator"
        return why

    # -- physical values ---------------------------------------------------
    def physical(self, p: Any, origin: Any = None, origin_tie: bool = False,
                 in_range: bool = False) -> None:
        """origin: internal value whose observed image p is"""
        col, cm = self.col, self.cm
        st, vp = self._call(cm.is_valid_physical_value, p)
        col.ev()
        if st == "foreign":
            self.bad(("valid-physical-foreign-exception", self.cat, self.tp, type(vp).__name__),
                     "is_valid_physical_value", p, problem=repr(vp))
            vp = False
        elif st == "odxerror":
            vp = False
        # a SCALE-LINEAR method is invertible by the ODX rule only if it is monotone and
        # continuous - that is also the clause the statement spells out for it
        identity_claim = origin is not None and self.injective and not origin_tie and \
            not self.limit_tie and not self._near_limit_image(p) and \
            (self.cat != "SCALE-LINEAR" or self.mono)
        agree, (kind, exact) = self._agree(lambda ref: ref.p2i_exact(p))
        if identity_claim and not self.ref.int_physical and not isinstance(p, str):
            # the double nearest to the exact image may coincide with the image of an excluded
            # limit: claim only if the exact pre-image of the observed double is itself valid
            identity_claim = agree and kind == "val" and isinstance(exact, Fraction) and \
                accept_numeric(origin, exact, "A_FLOAT64", self.ref.p2i_magnitude(p))
        if identity_claim:
            col.ev()
            col.count(f"identity:{self.cat}")
            if not vp:
                self.bad(("image-not-declared-valid", self.cat, self.tp),
                         "is_valid_physical_value", p, origin_internal=origin,
                         note="p = convert_internal_to_physical(origin), origin is valid")
        st, c = self._call(cm.convert_physical_to_internal, p)
        col.ev()
        col.count(f"p2i:{self.cat}")
        if origin is not None or vp:
            col.nontrivial((self.case["id"], "p", repr(p)))
        ref_valid = agree and kind == "val" and not (
            self.ref.int_internal and isinstance(exact, Fraction) and exact.denominator != 1) \
            and not self.limit_tie and not self._near_limit_image(p) and \
            not (isinstance(exact, Fraction) and self._near_limit_noise(exact))
        # a tie at the image of a limit makes the choice of the scale a matter of rounding
        mono_claim = self.cat == "SCALE-LINEAR" and self.mono and not self.limit_tie and \
            (origin is not None or in_range) and agree and kind == "val"
        # ... and whatever the library itself declares valid for such a method must encode
        mono_claim = mono_claim or (self.cat == "SCALE-LINEAR" and self.mono and bool(vp))
        if st == "foreign":
            if vp or ref_valid or identity_claim:
                self.bad(("p2i-foreign-exception", self.cat, self.tp,
                          self._zde_tag(c, self.ref.inv_scales, p)),
                         "convert_physical_to_internal", p, problem=repr(c),
                         declared_valid=bool(vp), origin_internal=origin)
            return
        if st == "odxerror":
            image_rejected = identity_claim and not vp  # reported above already
            if mono_claim:
                col.count("monotone-encode-attempts")
                self.bad(("cannot-encode-monotone", self.cat, self.tp, self.limit_rounding),
                         "convert_physical_to_internal", p, problem=repr(c),
                         origin_internal=origin)
            elif vp:
                self.bad(("p2i-raises-on-declared-valid", self.cat, self.tp,
                          self._declared_detail(p)),
                         "convert_physical_to_internal", p, problem=repr(c),
                         origin_internal=origin)
            elif image_rejected:
                pass
            elif (ref_valid or identity_claim) and self.cat != "SCALE-LINEAR":
                self.bad(("p2i-raises-on-valid", self.cat, self.tp, self._valid_detail(p)),
                         "convert_physical_to_internal", p, problem=repr(c),
                         expected=str(exact) if ref_valid else origin, origin_internal=origin)
            return
        if mono_claim:
            col.count("monotone-encode-attempts")
        judged = False
        if agree and kind == "val" and not (self.cat == "SCALE-LINEAR" and self.limit_tie):
            judged = True
            if isinstance(exact, str) or isinstance(c, str):
                ok = c == exact
            else:
                ok = accept_numeric(c, exact, self.it, self.ref.p2i_magnitude(p))
                if not ok and self.cat == "SCALE-LINEAR" and self.ref.int_physical:
                    # rounding blurs which scale owns p: any valid internal value whose image
                    # rounds to p is a correct encoding
                    ok = self._encodes(c, p)
            if not ok:
                self.bad(("p2i-wrong", self.cat, self.tp) + ((self.limit_rounding,) if self.cat in
                         ("LINEAR", "SCALE-LINEAR") else ()), "convert_physical_to_internal", p,
                         expected=str(exact), observed=c, origin_internal=origin)
                return
        if identity_claim:
            if self.ref.int_internal or isinstance(origin, str):
                ok = c == origin and not isinstance(c, bool)
            else:
                ok = accept_numeric(c, frac(origin), self.it, self.ref.p2i_magnitude(p))
            if not ok:
                self.bad(("roundtrip-not-identity", self.cat, self.tp),
                         "convert_physical_to_internal", p, origin_internal=origin, observed=c)
                return
            self.rt_ok.append((p, origin))
        # limits honoured: a physical value declared valid must not turn into an excluded
        # internal value
        if vp and self.cat in ("LINEAR", "SCALE-LINEAR") and self.injective and \
                not self.limit_tie and isinstance(c, (int, float)) and \
                not isinstance(c, bool) and not self._near_limit_noise(c) and \
                not self._near_limit_image(p):
            pre = self.ref.linear_preimages(p)
            if not any(self.ref.is_tie(x, "p2i", self.ref.p2i_magnitude(p)) for x in pre):
                col.ev()
                stv, cv = self._call(cm.is_valid_internal_value, c)
                if stv == "ok" and not cv and \
                        all(not ref.valid_internal(c) for ref in self.refs):
                    near = self._limit_detail(c)
                    self.bad(("p2i-yields-invalid-internal", self.cat, self.tp, near),
                             "convert_physical_to_internal", p, observed=c,
                             note="is_valid_physical_value(p) is True, the result is rejected by "
                             "is_valid_internal_value and lies outside the declared limits")

    def _encodes(self, c: Any, p: Any) -> bool:
        if isinstance(c, bool) or not isinstance(c, (int, float)):
            return False
        ok, (kind, img) = self._agree(lambda ref: ref.i2p_exact(c))
        return ok and kind == "val" and isinstance(img, Fraction) and \
            accept_numeric(p, img, self.pt, self.ref.i2p_magnitude(c))

    def _near_limit_image(self, p: Any) -> bool:
        """real physical type: p cannot be told from the image of a limit in double arithmetic"""
        if isinstance(p, str):
            return False
        return any(abs(float(p) - y) <= 1e-9 * max(1.0, abs(y)) for y in self.limit_images)

    def _near_limit_noise(self, c: Any) -> bool:
        """real internal type: the computed pre-image cannot be told from a limit value"""
        if self.ref.int_internal:
            return False
        for b in limit_values(self.case):
            if abs(float(c) - float(b)) <= 1e-9 * max(1.0, abs(float(b))):
                return True
        return False

    def _declared_detail(self, p: Any) -> str:
        if self.cat == "TEXTTABLE":
            if sum(1 for sc in self.ref.scales if sc.const == p) > 1:
                return "duplicate-text"
            if self.ref.phys_default is not None:
                return "physical-default"
            return "text"
        if self.cat == "TAB-INTP":
            y = frac(p)
            pts = self.ref.points
            for (x0, y0), (x1, y1) in zip(pts, pts[1:]):
                if y1 < y0 and y1 <= y <= y0:
                    return "decreasing-segment"
            return "table"
        if self.cat == "SCALE-LINEAR":
            return "invertible-method" if self.mono else "non-invertible-method"
        return "declared-valid"

    def _valid_detail(self, p: Any) -> str:
        if self.cat in ("LINEAR", "SCALE-LINEAR"):
            if self.has_flat:
                return "constant-scale"
            if any(l.finite and l.kind == "OPEN" for sc in self.ref.scales
                   for l in (sc.lo, sc.hi)):
                return "open-limit"
        return "other"

    def physical_probes(self, r: random.Random) -> List[Tuple[Any, Any, bool, bool]]:
        """(p, origin, origin_tie, in_range)"""
        probes: List[Tuple[Any, Any, bool, bool]] = []
        if self.cat == "TEXTTABLE" or self.pt in refcompu.STR_TYPES:
            seen = set()
            for v, obs, exact, tie in self.images:
                if obs not in seen:
                    seen.add(obs)
                    # origin only for the canonical internal value of an injective table
                    probes.append((obs, v if self.injective else None, False, False))
            for t in ["undefined", "no such text", ""]:
                if t not in seen:
                    probes.append((t, None, False, False))
            for s in self.ref.scales:
                if isinstance(s.const, str) and s.const not in seen:
                    seen.add(s.const)
                    probes.append((s.const, None, False, False))
            return probes
        imgs = self.images
        if len(imgs) > 120:
            idx = sorted(set([0, 1, 2, len(imgs) - 1, len(imgs) - 2, len(imgs) - 3] +
                             r.sample(range(len(imgs)), 110)))
            imgs = [imgs[i] for i in idx]
        seen_p = set()
        for v, obs, exact, tie in imgs:
            probes.append((obs, v, tie, True))
            seen_p.add(obs)
        nums = sorted(set(o for _, o, _, _ in self.images if isinstance(o, (int, float))))
        extra: List[Tuple[Any, bool]] = []
        if nums:
            lo, hi = nums[0], nums[-1]
            pairs = list(zip(nums, nums[1:]))
            if len(pairs) > 40:
                pairs = r.sample(pairs, 40)
            for a, b in pairs:
                if self.ref.int_physical:
                    if b - a > 1:
                        extra.append((a + 1, True))
                        extra.append((b - 1, True))
                        extra.append((a + (b - a) // 2, True))
                else:
                    # not the midpoint: for an integral internal type that is a rounding tie
                    extra.append((a + (b - a) * 0.25, True))
                    extra.append((a + (b - a) * 0.75, True))
            step = 1 if self.ref.int_physical else 0.5
            for d in (step, 2 * step, 1000):
                extra.append((lo - d, False))
                extra.append((hi + d, False))
            if len(nums) > 1:
                g0, g1 = nums[1] - nums[0], nums[-1] - nums[-2]
                if self.ref.int_physical:
                    extra += [(lo - max(1, g0 // 3), False), (hi + max(1, g1 // 3), False)]
                else:
                    extra += [(lo - g0 * 0.3, False), (hi + g1 * 0.3, False),
                              (lo - g0 * 0.7, False), (hi + g1 * 0.7, False)]
            if not self.ref.int_physical:
                extra.append((math.nextafter(lo, -math.inf), False))
                extra.append((math.nextafter(hi, math.inf), False))
        else:
            extra += [(0, False), (1, False), (-1, False), (100, False)]
        if not self.ref.int_physical:
            extra = [(float(p), f) for p, f in extra]
        for p, inr in extra:
            if p not in seen_p:
                seen_p.add(p)
                probes.append((p, None, False, inr))
        return probes

    # -- DOP level ----------------------------------------------------------
    def _raw(self, v: int) -> bytes:
        n = self.case["bits"] // 8
        return (v & ((1 << self.case["bits"]) - 1)).to_bytes(n, "big")

    def dop_level(self, r: random.Random) -> None:
        if self.svc is None or self.it not in refcompu.INT_TYPES:
            return
        col = self.col
        lo, hi = c07gen.domain(self.it, self.case["bits"])
        imgs = [x for x in self.images if lo <= x[0] <= hi]
        if len(imgs) > 40:
            imgs = imgs[:5] + imgs[-5:] + r.sample(imgs[5:-5], 30)
        req = self.svc.request
        for v, obs, exact, tie in imgs:
            pdu = bytes([0x22]) + self._raw(v)
            st, d = self._call(req.decode, pdu)
            col.ev()
            col.count("dop-decode")
            if st != "ok":
                self.bad(("dop-decode-raises-on-valid", self.cat, self.tp,
                          "OdxError" if st == "odxerror" else type(d).__name__), "decode", v,
                         pdu=pdu, problem=repr(d))
                continue
            got = d.get("v") if isinstance(d, dict) else None
            ok = got == exact if isinstance(exact, str) else \
                accept_numeric(got, exact, self.pt, self.ref.i2p_magnitude(v))
            if not ok:
                self.bad(("dop-decode-wrong", self.cat, self.tp), "decode", v, pdu=pdu,
                         expected=str(exact), observed=got)
        done = set()
        for p, v in self.rt_ok:
            if not (lo <= v <= hi) or p in done or len(done) >= 40:
                continue
            done.add(p)
            st, b = self._call(lambda: req.encode(v=p))
            col.ev()
            col.count("dop-encode")
            if st != "ok":
                self.bad(("dop-encode-raises", self.cat, self.tp,
                          "OdxError" if st == "odxerror" else type(b).__name__), "encode", p,
                         problem=repr(b), origin_internal=v)
            elif bytes(b) != bytes([0x22]) + self._raw(v):
                self.bad(("dop-encode-wrong", self.cat, self.tp), "encode", p,
                         expected=bytes([0x22]) + self._raw(v), observed=bytes(b),
                         origin_internal=v)

    # -- COMPUCODE ----------------------------------------------------------
    def compucode(self) -> None:
        col, cm = self.col, self.cm
        for v in [0, 1, 5, -3, 1.5, "x"]:
            for name, fn in (("is_valid_internal_value", cm.is_valid_internal_value),
                             ("is_valid_physical_value", cm.is_valid_physical_value)):
                st, res = self._call(fn, v)
                col.ev()
                if st == "foreign" or (st == "ok" and res):
                    self.bad(("compucode-declared-valid", self.cat, self.tp), name, v,
                             observed=repr(res))
            for name, fn in (("convert_internal_to_physical", cm.convert_internal_to_physical),
                             ("convert_physical_to_internal", cm.convert_physical_to_internal)):
                st, res = self._call(fn, v)
                col.ev()
                if st != "odxerror":
                    self.bad(("compucode-conversion-does-not-raise-odxerror", self.cat, self.tp),
                             name, v, observed=repr(res))
            col.nontrivial((self.case["id"], "cc", repr(v)))

    # -- everything ----------------------------------------------------------
    def run(self, r: random.Random) -> None:
        if self.cat == "COMPUCODE":
            self.compucode()
            return
        for v in internal_values(self.case, r):
            self.internal(v)
        for v in wrong_type_values(self.case):
            self.internal(v)
        self.flush_validity()
        for p, origin, tie, inr in self.physical_probes(r):
            self.physical(p, origin, tie, inr)
        self.dop_level(r)
        if self.mono and self.cat == "SCALE-LINEAR" and len(self.ref.scales) > 1:
            self.col.count("monotone-continuous multi-scale methods")


def _cells(case: Dict[str, Any]) -> List[str]:
    tp = c07gen.type_pair(case["itype"], case["ptype"])
    return [f"cell:{case['cat']}|{tp}|{k}" for k in case["lk"]]


def required_cells() -> List[str]:
    req = []
    for cat in ("LINEAR", "SCALE-LINEAR", "RAT-FUNC", "SCALE-RAT-FUNC"):
        for tp in TP_CLASSES_NUM:
            for k in ("closed", "open", "infinite", "missing", "nointerval"):
                req.append(f"cell:{cat}|{tp}|{k}")
    for tp in TP_CLASSES_NUM:
        for k in ("closed", "nointerval"):
            req.append(f"cell:TAB-INTP|{tp}|{k}")
    for tp in ("int->str", "float->str"):
        for k in ("closed", "open", "infinite", "missing", "nointerval"):
            req.append(f"cell:TEXTTABLE|{tp}|{k}")
    for tp in ("int->int", "float->float"):
        req.append(f"cell:IDENTICAL|{tp}|missing")
    req.append("cell:COMPUCODE|int->int|missing")
    return req


def judge_batch(cases: List[Dict[str, Any]], col: common.Collector, r: random.Random) -> None:
    from odxtools.exceptions import OdxError
    try:
        layer = load_cases(cases)
        layers = [(layer, cases, 0)]
    except Exception:
        # find the culprit(s): load every case on its own
        layers = []
        for k, c in enumerate(cases):
            try:
                layers.append((load_cases([c]), [c], k))
            except Exception as e:
                col.ev()
                col.nontrivial((c["id"], "load"))
                reason = c.get("risky") or "unexpected"
                kind = "OdxError" if isinstance(e, OdxError) else type(e).__name__
                col.violation(("load-raises", c["cat"], c07gen.type_pair(c["itype"], c["ptype"]),
                               reason, kind),
                              {"case": c, "call": "load", "value": None,
                               "problem": f"{type(e).__name__}: {e}"[:400]})
    for layer, cs, _ in layers:
        dops = layer.diag_data_dictionary_spec.data_object_props
        for k, c in enumerate(cs):
            dop = dops[f"d{k}"]
            svc = None
            if c.get("dop_level"):
                svc = next((s for s in layer.services if s.short_name == f"svc_rq{k}"), None)
                if svc is None:
                    col.fail_inconclusive("generated service not found in the loaded layer")
            j = Judge(col, c, dop, svc)
            before = col.evaluations
            j.run(r)
            if col.evaluations > before:
                for cell in _cells(c):
                    col.count(cell)
                col.count(f"methods:{c['cat']}")
            if c.get("risky"):
                col.count("risky descriptions that loaded")


def worker(task: Tuple[int, int, str, int], col: common.Collector) -> None:
    shard, nshards, tier, nrandom = task
    r = common.rng(shard, "c07")
    cases = [c for i, c in enumerate(c07gen.systematic(common.seed())) if i % nshards == shard]
    cases += list(c07gen.randomized(common.rng(shard, "c07-random"), nrandom))
    with_siblings: List[Dict[str, Any]] = []
    for n, c in enumerate(cases):
        with_siblings.append(c)
        if n % 3 == 1:
            sib = c07gen.sibling(c, (n // 3) % 2)
            if sib is not None:
                with_siblings.append(sib)   # adjacent: same batch, same process
                col.count("sibling-methods")
    cases = with_siblings
    for n, c in enumerate(cases):
        c["id"] = f"{shard}.{n}"
        c["dop_level"] = c["itype"] in refcompu.INT_TYPES and n % 3 == 0 and \
            c["cat"] != "COMPUCODE"
    risky = [c for c in cases if c.get("risky")]
    normal = [c for c in cases if not c.get("risky")]
    for i in range(0, len(normal), BATCH):
        judge_batch(normal[i:i + BATCH], col, r)
    for c in risky:
        judge_batch([c], col, r)
    if shard == 0 and normal:
        c = next((x for x in normal if x["cat"] == "SCALE-LINEAR"), normal[0])
        col.sample({"case": {k: c[k] for k in ("cat", "itype", "ptype", "bits", "variant",
                                               "compu")},
                    "xml": odxgen.emit_compu(c["compu"])[:700]}, limit=2)


def run(tier: str, col: common.Collector) -> None:
    nshards = common.NCPU * (2 if tier == "quick" else 8)
    nrandom_total = 4800 if tier == "quick" else 150000
    per = max(1, nrandom_total // nshards)
    common.pmap(worker, [(s, nshards, tier, per) for s in range(nshards)], col)
    missing = [c for c in required_cells() if not col.counters.get(c)]
    if missing:
        col.fail_inconclusive(f"feature matrix cells never exercised: {missing[:8]} "
                              f"({len(missing)} in total)")
    for name in ("monotone-encode-attempts", "dop-decode", "dop-encode"):
        if not col.counters.get(name):
            col.fail_inconclusive(f"monitor '{name}' never evaluated")
    for cat in ("LINEAR", "SCALE-LINEAR", "TAB-INTP", "TEXTTABLE"):
        if not col.counters.get(f"identity:{cat}"):
            col.fail_inconclusive(f"no identity (round trip) claim was evaluated for {cat}")
    col.notes["methods_total"] = sum(v for k, v in col.counters.items()
                                     if k.startswith("methods:"))


def replay(w: Dict[str, Any], col: common.Collector) -> None:
    case = w["case"]
    r = random.Random(0)
    if w.get("call") == "load":
        judge_batch([case], col, r)
        return
    layer = load_cases([case])
    dop = layer.diag_data_dictionary_spec.data_object_props["d0"]
    svc = next(iter(layer.services), None) if case.get("dop_level") else None
    j = Judge(col, case, dop, svc)
    if case["cat"] == "COMPUCODE":
        j.compucode()
        return
    v = w.get("value")
    if w.get("value_type") == "float" and isinstance(v, int):
        v = float(v)
    call = w.get("call", "")
    if call in ("decode", "encode"):
        j.run(r)
        return
    if call in ("is_valid_internal_value", "convert_internal_to_physical"):
        j.internal(v)
        j.flush_validity()
        for vv, obs, exact, tie in j.images:
            j.physical(obs, vv, tie, True)
        return
    origin = w.get("origin_internal")
    if origin is not None:
        j.internal(origin)
        j.vmis = []
        for vv, obs, exact, tie in j.images:
            j.physical(obs, vv, tie, True)
    else:
        j.physical(v, None, False, True)
