"""C08 - static descriptions of a message agree with its actual encoding.

Events: get_static_bit_length() of requests, responses, structures, data objects;
coded_const_prefix(); required_parameters / free_parameters; and the PDUs (or exceptions) of
encode() for full assignments, assignments with one parameter omitted, and assignments with
one parameter varied.
"""
from __future__ import annotations

import random
from typing import Any, Dict, List, Optional, Tuple

from .. import codeccompose, codecgen, codecrun, common, refodx
from .c02 import used_dobjs

PROPERTY = "C08"
LEVEL = "exploration"
RULE = ("grid + probe + composed descriptions (see C02, plus layouts whose first listed "
        "parameter has a later explicit BYTE-POSITION and condensed masks) x full value "
        "assignments x every single omission and variation of a top-level parameter. "
        "Distinct+non-trivial = distinct (layout, clause, parameter kind) judged")
MIN_EVALS = {"quick": 15000, "thorough": 200000}
ASSUMPTIONS = [
    "a parameter is 'settable' if two accepted values produce different PDUs; non-settability "
    "of a free parameter is only claimed after >= 3 accepted distinct values left the PDU "
    "unchanged",
    "static lengths of data objects are compared with vf/refodx.py's layout rule where the "
    "reference has one",
]


def full_assign(rq: Dict[str, Any], model: Dict[str, Any], r: random.Random, mode: str,
                dobjs: Dict[str, Any], tier: str) -> List[Dict[str, Any]]:
    if mode == "grid":
        a = codecgen.assignments_for(rq, dobjs, tier, r, hostile=False)
        return a[::max(1, len(a) // 6)]
    by = {o["name"]: o for o in model["dobjs"]}
    out = []
    for i in range(4):
        codeccompose._ITEMS[0] = 3 if i == 2 else None  # one assignment with three-item fields
        try:
            out.append(codeccompose.good_params(rq["params"], by, r, omit_defaults=False))
        finally:
            codeccompose._ITEMS[0] = None
    return out


def has_condensed(model: Dict[str, Any], params: List[Dict[str, Any]]) -> bool:
    return any(o["t"] == "DOP" and o["dct"].get("mask") is not None and o["dct"].get("cond")
               for o in used_dobjs(model, {"params": params}))


def judge_message(col: common.Collector, ll: codecrun.LoadedLayer, model: Dict[str, Any],
                  rq: Dict[str, Any], obj: Any, mode: str, tier: str, r: random.Random,
                  request: Optional[bytes]) -> None:
    layout = codecrun.coarse_cell(rq["feat"]) if mode == "grid" else (rq.get("shape") or "compose")
    dobjs = ll.ref.dobjs

    def bad(clause: str, what: str, text: str, **extra: Any) -> None:
        d = {"layer": model["name"], "message": rq, "dobjs": used_dobjs(model, rq),
             "request": request, "problem": text}
        d.update(extra)
        col.violation((clause, what), d)

    static = codecrun.call(obj.get_static_bit_length)
    prefix = codecrun.call(obj.coded_const_prefix, request or b"") if request is not None else \
        codecrun.call(obj.coded_const_prefix)
    reqd = codecrun.call(lambda: [p.short_name for p in obj.required_parameters])
    free = codecrun.call(lambda: [p.short_name for p in obj.free_parameters])
    for name, o in (("get_static_bit_length", static), ("coded_const_prefix", prefix),
                    ("required_parameters", reqd), ("free_parameters", free)):
        if not o.ok:
            bad("static-query-raises", name, f"{o.exc_type}: {o.exc}")
            return
    # the human readable report of the free parameters (print_free_parameters_info) names
    # exactly the free parameters, in order
    info = codecrun.call(lambda: __import__("odxtools.parameterinfo", fromlist=["x"]).parameter_info(
        obj.free_parameters))
    col.ev()
    if not info.ok:
        from .c05 import where_of
        bad("free-parameter-info-raises", info.exc_type + "/" + where_of(info.exc),
            f"{info.exc_type}: {info.exc}")
    else:
        listed = [ln.split(":", 1)[0] for ln in str(info.value).splitlines()
                  if ln and not ln[0].isspace() and ":" in ln and not ln.startswith(("}", ")"))]
        if listed != list(free.value):
            bad("free-parameter-info-wrong", codecrun.offender_any(ll.ref, rq),
                f"the report lists {listed}, free_parameters is {free.value}", report=str(info.value)[:600])
        col.count("free-parameter-info-checked")
    assigns = full_assign(rq, model, r, mode, dobjs, tier)
    accepted: List[Tuple[Dict[str, Any], bytes]] = []
    warned: List[Tuple[Dict[str, Any], bytes]] = []
    for vals in assigns:
        e = codecrun.encode(obj, vals, request)
        if e.ok and not e.overlap_warnings:
            accepted.append((vals, e.value))
        elif e.ok:
            warned.append((vals, e.value))  # still a successful encoding: its length counts
        elif e.exc_family != "foreign":
            # every parameter that is reported as required is supplied (the generator leaves
            # out only what is reported as optional: defaults, length and table keys) and the
            # reference can lay the assignment out: then it is the omission of a parameter that
            # is NOT reported as required which makes encoding fail
            kr, _er = codecrun.ref_encode(ll.ref, rq, vals, request)
            missing_required = [n for n in reqd.value if n not in vals]
            if kr == "ok" and not missing_required:
                col.ev()
                bad("omission-fails-but-not-required", "complete-assignment-rejected/" +
                    codecrun.offender_any(ll.ref, rq),
                    f"all required parameters {reqd.value} are supplied, the reference can lay the "
                    f"assignment out, yet: {e.exc_type}: {e.exc}", values=vals)
    if not accepted and not warned:
        col.count("messages-without-accepted-assignment")
        return
    kind_of = {p["name"]: codecrun.describe_param(ll.ref, p) for p in rq["params"]}
    # (1) static length
    if static.value is not None:
        for vals, pdu in accepted + warned:
            col.ev()
            if 8 * len(pdu) != static.value:
                bad("static-length-differs", "condensed-mask" if has_condensed(model, rq["params"]) else
                    (codecrun.offender_any(ll.ref, rq) if mode != "grid" else layout),
                    f"static bit length {static.value}, PDU {pdu.hex()} has {8 * len(pdu)} bits",
                    values=vals)
                break
        col.count("static-length-known")
    else:
        col.count("static-length-none")
        ref_static = ll.ref.static_bits_params(rq["params"])
        if ref_static is not None and not any(p["p"] in ("LENGTH-KEY", "TABLE-KEY", "TABLE-STRUCT")
                                              for p in rq["params"]):
            # not a violation of the statement (it only speaks about reported lengths)
            col.count("static-length-none-although-fixed")
    if not accepted:
        col.count("messages-with-warned-assignments-only")
        return
    # (2) constant prefix
    pb = bytes(prefix.value)
    for vals, pdu in accepted:
        col.ev()
        if pdu[:len(pb)] != pb:
            bad("prefix-not-a-prefix", rq.get("shape") if mode != "grid" else layout,
                f"coded_const_prefix {pb.hex()} is not a prefix of {pdu.hex()}", values=vals)
            break
    col.count("prefix-checked")
    # (2b) responses: the prefix depends on the request; ask for several requests in a row
    # (each differing from the previous one in a single byte) and encode with each
    if request is not None and accepted:
        vals0, _ = accepted[0]
        variants = [request]
        for i in range(len(request) - 1, -1, -1):
            prev = variants[-1]
            variants.append(prev[:i] + bytes([(prev[i] + 1) & 0xFF]) + prev[i + 1:])
        variants += [request]
        for rq2 in variants:
            pfx = codecrun.call(obj.coded_const_prefix, rq2)
            e2 = codecrun.encode(obj, vals0, rq2)
            col.ev()
            if pfx.ok and e2.ok and not e2.overlap_warnings:
                pb2 = bytes(pfx.value)
                if e2.value[:len(pb2)] != pb2:
                    bad("prefix-not-a-prefix", "response/request-varied",
                        f"for request {rq2.hex()} coded_const_prefix gives {pb2.hex()} but the "
                        f"response encodes to {e2.value.hex()}", values=vals0, varied_request=rq2)
                    break
        col.count("response-prefix-request-variants")
    # (3) required parameters
    vals, pdu = accepted[0]
    for p in rq["params"]:
        n = p["name"]
        if n in vals:
            less = {k: v for k, v in vals.items() if k != n}
            e = codecrun.encode(obj, less, request)
            col.ev()
            col.nontrivial((layout, "omit", kind_of[n].split("/")[0], p.get("default") is not None))
            fails = not e.ok
            if fails and n not in reqd.value:
                # a key omitted together with... no: only one parameter is omitted at a time
                bad("omission-fails-but-not-required", kind_of[n],
                    f"without {n}: {e.exc_type}: {e.exc}, but {n} is not in required_parameters "
                    f"{reqd.value}", values=vals)
            elif not fails and n in reqd.value:
                bad("required-but-omission-accepted", kind_of[n],
                    f"{n} is reported as required, yet encoding without it gives {e.value.hex()}",
                    values=vals)
        elif n in reqd.value:
            bad("required-but-not-needed", kind_of[n],
                f"{n} is reported as required but the full assignment {list(vals)} encodes", values=vals)
    for n in reqd.value:
        if n not in kind_of:
            bad("required-unknown-parameter", "name", f"{n} is not a parameter of the message")
    # (3b) the same for the parameters of structures used by the message (directly or as the
    # items of a field): omitted in every instance at once
    for avals, _ in accepted[:4]:
        for p in rq["params"]:
            n = p["name"]
            if n not in avals or p["p"] != "VALUE":
                continue
            pobj = next((x for x in obj.parameters if x.short_name == n), None)
            dopo = getattr(pobj, "dop", None)
            st = dopo if hasattr(dopo, "required_parameters") and hasattr(dopo, "parameters") else \
                getattr(dopo, "structure", None)
            if st is None or not hasattr(st, "required_parameters"):
                continue
            is_field = st is not dopo
            items = avals[n] if is_field else [avals[n]]
            if not isinstance(items, list) or not items or not all(isinstance(it, dict) for it in items):
                continue
            sreq_o = codecrun.call(lambda st=st: {x.short_name for x in st.required_parameters})
            if not sreq_o.ok:
                bad("static-query-raises", "required_parameters/nested", f"{sreq_o.exc_type}: {sreq_o.exc}")
                continue
            for sp in st.parameters:
                sname = sp.short_name
                if not any(sname in it for it in items):
                    continue
                less_items = [{k: x for k, x in it.items() if k != sname} for it in items]
                less = dict(avals)
                less[n] = less_items if is_field else less_items[0]
                e = codecrun.encode(obj, less, request)
                col.ev()
                col.count("nested-omissions")
                tag = f"nested/{type(sp).__name__}/{'field-items' if is_field else 'structure'}"
                if not e.ok and sname not in sreq_o.value:
                    bad("omission-fails-but-not-required", tag,
                        f"without {n}.{sname} (in {len(items)} instance(s)): {e.exc_type}: {e.exc}, but "
                        f"{sname} is not in the structure's required_parameters {sorted(sreq_o.value)}",
                        values=avals)
                elif e.ok and sname in sreq_o.value:
                    bad("required-but-omission-accepted", tag,
                        f"{n}.{sname} is reported as required, yet encoding without it gives "
                        f"{e.value.hex()}", values=avals)
    # (4) free parameters
    for p in rq["params"]:
        n = p["name"]
        k = p["p"]
        if n in free.value:
            if k in ("VALUE", "SYSTEM", "TABLE-STRUCT") and n in vals:
                # vary this parameter only; alternatives are values which the reference lays
                # out differently, so the real PDU has to change as well
                kb, eb = codecrun.ref_encode(ll.ref, rq, vals, request)
                changed = None
                tried = 0
                for alt, _ in accepted[1:] + [(a, b"") for a in
                                             full_assign(rq, model, r, mode, dobjs, tier)[:4]]:
                    if kb != "ok" or n not in alt or alt[n] == vals[n]:
                        continue
                    v2 = dict(vals)
                    v2[n] = alt[n]
                    ka, ea = codecrun.ref_encode(ll.ref, rq, v2, request)
                    if ka != "ok" or ea.pdu == eb.pdu:
                        continue
                    e = codecrun.encode(obj, v2, request)
                    col.ev()
                    if e.ok:
                        tried += 1
                        if e.value != pdu:
                            changed = True
                            break
                        changed = False
                # a falsy value is a value: where the description gives a default, zero / the empty
                # string are what the caller asked for, not a request for the default
                if k == "VALUE" and p.get("default") is not None and kb == "ok" and pdu == eb.pdu:
                    for falsy in (0, "", b"", 0.0):
                        if falsy == vals[n] and type(falsy) is type(vals[n]):
                            continue
                        v2 = dict(vals)
                        v2[n] = falsy
                        ka, ea = codecrun.ref_encode(ll.ref, rq, v2, request)
                        if ka != "ok" or ea.pdu == eb.pdu:
                            continue  # (not a value of this parameter / no visible difference)
                        e = codecrun.encode(obj, v2, request)
                        col.ev()
                        col.count("free-falsy-values-tried")
                        if e.ok and e.value != ea.pdu:
                            kd, rd = codecrun.ref_decode(ll.ref, rq, e.value, request)
                            back = rd[0].get(n) if kd == "ok" else None
                            if kd == "ok" and not refodx.values_equal(back, falsy):
                                bad("free-but-value-ignored", kind_of[n],
                                    f"{n}={falsy!r} is accepted, but the PDU {e.value.hex()} carries "
                                    f"{back!r} (with the value it would be {ea.pdu.hex()})", values=v2)
                                break
                col.nontrivial((layout, "vary", kind_of[n].split("/")[0]))
                if changed is False and tried >= 2:
                    bad("free-but-not-settable", kind_of[n],
                        f"{tried} accepted values for {n} that must change the PDU all gave {pdu.hex()}",
                        values=vals)
                if changed:
                    col.count("free-varied")
        else:
            # not free: any supplied value must raise or leave the PDU unchanged
            for cand in (0, 1, 255, "x", b"\x01", vals.get(n)):
                if cand is None:
                    continue
                v2 = dict(vals)
                v2[n] = cand
                e = codecrun.encode(obj, v2, request)
                col.ev()
                if e.ok and e.value != pdu:
                    bad("not-free-but-settable", kind_of[n],
                        f"{n} is not in free_parameters, yet {n}={cand!r} changes the PDU "
                        f"{pdu.hex()} -> {e.value.hex()}", values=vals)
                    break
            col.nontrivial((layout, "nonfree", k))
            col.count("nonfree-probed")
    for n in free.value:
        if n not in kind_of:
            bad("free-unknown-parameter", "name", f"{n} is not a parameter of the message")


def judge_dobjs(col: common.Collector, ll: codecrun.LoadedLayer, model: Dict[str, Any]) -> None:
    ddds = ll.layer.diag_data_dictionary_spec
    pools = [("structures", "STRUCT"), ("data_object_props", "DOP"), ("static_fields", "SFIELD"),
             ("dtc_dops", "DTCDOP")]
    for attr, t in pools:
        for o in getattr(ddds, attr, []):
            m = ll.ref.dobjs.get(o.short_name)
            if m is None or m["t"] != t:
                continue
            got = codecrun.call(o.get_static_bit_length)
            col.ev()
            if not got.ok:
                col.violation(("static-query-raises", t), {"object": m, "problem": f"{got.exc_type}: {got.exc}"})
                continue
            try:
                want = ll.ref.static_bits(m)
            except refodx.RefError:
                continue
            if has_condensed(model, [{"p": "VALUE", "name": "x", "dop": m["name"]}]):
                want_note = "condensed-mask"
            else:
                want_note = t
            if got.value is not None and want is not None and got.value != want:
                col.violation(("static-length-differs", want_note),
                              {"object": m, "dobjs": used_dobjs(model, {"params": [{"p": "VALUE", "name": "x", "dop": m["name"]}]}),
                               "problem": f"get_static_bit_length()={got.value}, the object "
                               f"occupies {want} bits"})
            elif got.value is not None and want is None:
                col.violation(("static-length-for-dynamic-object", t),
                              {"object": m, "problem": f"reports {got.value} bits for an object "
                               f"whose size depends on its value"})
            col.nontrivial(("dobj", t, got.value is None))
    col.count("dobjs-checked")


def prefix_probe_layer() -> Dict[str, Any]:
    from ..odxgen import dct_std, p_const, p_value, u8const
    m = {"kind": "BASE-VARIANT", "name": "prefixprobes", "dobjs": [dict(d) for d in codeccompose.POOL],
         "gneg": []}
    m["dobjs"] += [dict(o) for o in codeccompose.probe_layer()["dobjs"]
                   if o["name"] in ("st_c1", "st_c2", "tab")]
    rqs = [
        {"name": "pp_first_later", "shape": "first-listed-at-later-position",
         "feat": {"shape": "first-listed-at-later-position"},
         "params": [u8const("sub", 0x99, byte=1), u8const("sid", 0x31, byte=0), p_value("v", "u8", byte=2)]},
        {"name": "pp_const_after_value", "shape": "constant-listed-first-positioned-after-value",
         "feat": {"shape": "constant-listed-first-positioned-after-value"},
         "params": [u8const("late", 0x77, byte=2), p_value("v", "u16", byte=0)]},
        {"name": "pp_const_gap", "shape": "constants-with-gap", "feat": {"shape": "constants-with-gap"},
         "params": [u8const("sid", 0x31), u8const("c2", 0x44, byte=3), p_value("v", "u16", byte=1)]},
        {"name": "pp_two_byte", "shape": "multi-byte-constant", "feat": {"shape": "multi-byte-constant"},
         "params": [p_const("sid", dct_std("A_UINT32", 16), 0x22F1), p_const("lo", dct_std("A_UINT32", 16, hilo=False), 0x1234),
                    p_value("v", "u8")]},
        {"name": "pp_bits", "shape": "sub-byte-constant", "feat": {"shape": "sub-byte-constant"},
         "params": [p_const("hi", dct_std("A_UINT32", 4), 0xA, byte=0, bit=4), p_value("lo", "u4", byte=0, bit=0)]},
    ]
    # one service per table row, as data identifiers are usually modelled: the key names its
    # row statically, the content of the row still has to be given
    rqs.append({"name": "pp_rowref", "shape": "table-row-selected-statically",
                "feat": {"shape": "table-row-selected-statically"},
                "params": [u8const("sid", 0x41),
                           {"p": "TABLE-KEY", "name": "tk", "byte": None, "bit": None,
                            "row": ["tab", "r_struct"]},
                           {"p": "TABLE-STRUCT", "name": "ts", "byte": None, "bit": None, "key": "tk"}]})
    # nothing but constants, the last one of a kind whose end depends on what follows it
    # (terminated unless it is the last thing in the PDU - which it is)
    from ..odxgen import dct_minmax
    rqs.append({"name": "pp_all_const_text", "shape": "all-constant-ending-in-terminated-text",
                "feat": {"shape": "all-constant-ending-in-terminated-text"},
                "params": [u8const("sid", 0x31),
                           {"p": "PHYS-CONST", "name": "txt", "byte": None, "bit": None, "dop": "mmz",
                            "value": "sport"}]})
    rqs.append({"name": "pp_all_const_bytes", "shape": "all-constant-ending-in-terminated-bytes",
                "feat": {"shape": "all-constant-ending-in-terminated-bytes"},
                "params": [u8const("sid", 0x32),
                           p_const("blob", dct_minmax("A_BYTEFIELD", 1, 5, "HEX-FF"), b"\x01\x02")]})
    rqs.append({"name": "pp_did", "shape": "request-with-did", "feat": {"shape": "request-with-did"},
                "params": [u8const("sid", 0x22), p_value("did", "u16"), p_value("opt", "u8")]})
    pos = [{"name": "pr_echo2", "for": "pp_did", "shape": "response-echo-2-bytes",
            "feat": {"shape": "response-echo-2-bytes"},
            "params": [u8const("rsid", 0x62),
                       {"p": "MATCHING-REQUEST-PARAM", "name": "did", "req_pos": 1, "len": 2},
                       p_value("r", "u8")]},
           {"name": "pr_echo_const", "for": "pp_did", "shape": "response-echo-then-terminated-constant",
            "feat": {"shape": "response-echo-then-terminated-constant"},
            "params": [u8const("rsid", 0x62),
                       {"p": "MATCHING-REQUEST-PARAM", "name": "did", "req_pos": 1, "len": 2},
                       p_const("blob", dct_minmax("A_BYTEFIELD", 1, 5, "HEX-FF"), b"\xab\xcd")]},
           {"name": "pr_echo3", "for": "pp_did", "shape": "response-echo-3-bytes",
            "feat": {"shape": "response-echo-3-bytes"},
            "params": [u8const("rsid", 0x62),
                       {"p": "MATCHING-REQUEST-PARAM", "name": "tail", "req_pos": 1, "len": 3}]}]
    neg = [{"name": "nr_echo", "for": "pp_did", "shape": "neg-echo-sid-did",
            "feat": {"shape": "neg-echo-sid-did"},
            "params": [u8const("nsid", 0x7F),
                       {"p": "MATCHING-REQUEST-PARAM", "name": "rq_sid", "req_pos": 0, "len": 1},
                       {"p": "MATCHING-REQUEST-PARAM", "name": "rq_did", "req_pos": 1, "len": 2},
                       p_value("nrc", "u8")]}]
    m.update({"requests": rqs, "pos": pos, "neg": neg,
              "services": [{"name": "svc_" + r["name"], "request": r["name"],
                            "pos": [p["name"] for p in pos if p["for"] == r["name"]],
                            "neg": [n["name"] for n in neg if n["for"] == r["name"]]}
                           for r in rqs]})
    return m


def widened_revision(model: Dict[str, Any]) -> Dict[str, Any]:
    """The same layer (same names, same IDs) with its byte-sized integer DOPs one byte wider:
    a later revision of a description, loaded by the same process."""
    import copy
    m = copy.deepcopy(model)
    for o in m["dobjs"]:
        d = o.get("dct") if o.get("t") == "DOP" else None
        if d and d.get("k") == "STD" and d.get("base") in ("A_UINT32", "A_INT32") and \
                d.get("mask") is None and d.get("enc") is None and d.get("bits") in (8, 16, 24):
            d["bits"] += 8
    # (declared sizes of containers grow generously with their content: padding is legitimate,
    # content that no longer fits is not)
    for o in m["dobjs"]:
        if o.get("t") == "STRUCT" and o.get("byte_size") is not None:
            o["byte_size"] += 24
        if o.get("t") == "SFIELD" and o.get("item_size") is not None:
            o["item_size"] += 24
    return m


def run_layer(task: Tuple, col: common.Collector) -> None:
    mode, model, tier, wseed = task
    if mode == "compose+revision":
        # what is reported for a description must not depend on what was loaded before it
        run_layer(("compose", model, tier, wseed), col)
        run_layer(("compose", widened_revision(model), tier, wseed + 1), col)
        col.count("layers-followed-by-a-revision")
        return
    r = random.Random(wseed)
    try:
        ll = codecrun.LoadedLayer(model)
    except Exception as e:
        col.fail_inconclusive(f"generated layer {model['name']} does not load: {type(e).__name__}: {e}")
        return
    judge_dobjs(col, ll, model)
    for rq in model["requests"]:
        obj = ll.requests.get(rq["name"])
        if obj is None:
            continue
        judge_message(col, ll, model, rq, obj, mode, tier, r, None)
        col.count("cell:" + (str(rq["feat"].get("dct")) if mode == "grid" else "compose"))
        for pr in model["pos"] + model["neg"]:
            if pr.get("for") == rq["name"]:
                pobj = ll.pos.get(pr["name"]) or ll.neg.get(pr["name"])
                if pobj is not None:
                    a = full_assign(rq, model, r, mode, ll.ref.dobjs, tier)
                    ro = codecrun.encode(obj, a[0], None) if a else None
                    req_pdu = ro.value if ro is not None and ro.ok else bytes([0x22, 1, 2, 3, 4, 5, 6, 7])
                    judge_message(col, ll, model, pr, pobj, mode, tier, r, req_pdu)
                    col.count("responses")
    if model["requests"]:
        rq = model["requests"][0]
        col.sample({"mode": mode, "layer": model["name"], "message": rq["name"],
                    "params": [p["name"] + ":" + p["p"] for p in rq["params"]]}, limit=4)


def run(tier: str, col: common.Collector) -> None:
    seed = common.seed()
    tasks: List[Tuple] = []
    glayers = codecgen.grid_layers(tier, seed, per_layer=60)
    for i, m in enumerate(glayers):
        tasks.append(("grid", m, tier, seed * 100003 + i))
    comp = codeccompose.layers(tier, seed)
    if tier == "quick":
        # the check is cheap: a second, independently seeded set of random compositions
        comp += codeccompose.layers(tier, seed + 1000)[1:]
    for i, m in enumerate(comp):
        tasks.append(("compose+revision" if i % 4 == 0 else "compose", m, tier, seed * 100019 + i))
    tasks.append(("compose+revision", prefix_probe_layer(), tier, seed + 9))
    common.pmap(run_layer, tasks, col)
    for need in ("cell:STD", "cell:compose", "static-length-known", "static-length-none",
                 "prefix-checked", "free-varied", "nonfree-probed", "dobjs-checked", "responses",
                 "response-prefix-request-variants"):
        if not col.counters.get(need):
            col.fail_inconclusive(f"monitor counter {need} stayed at zero")


def replay(w: Dict[str, Any], col: common.Collector) -> None:
    if "message" not in w:
        col.fail_inconclusive("data-object witness: re-run the tier")
        return
    msg = w["message"]
    is_resp = w.get("request") is not None
    model: Dict[str, Any] = {"kind": "BASE-VARIANT", "name": "replay", "dobjs": w.get("dobjs", []),
                             "neg": [], "gneg": [], "pos": []}
    if is_resp:
        model["requests"] = [{"name": "rq_dummy", "params": [codecgen.u8const("sid", 0x22)]}]
        model["pos"] = [msg]
        model["services"] = [{"name": "svc", "request": "rq_dummy", "pos": [msg["name"]], "neg": []}]
    else:
        model["requests"] = [msg]
        model["services"] = [{"name": "svc", "request": msg["name"], "pos": [], "neg": []}]
    ll = codecrun.LoadedLayer(model)
    obj = (ll.pos if is_resp else ll.requests)[msg["name"]]
    judge_message(col, ll, model, msg, obj, "compose", "quick", random.Random(0), w.get("request"))
