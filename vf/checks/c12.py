"""C12 - ISO-TP reassembly returns exactly the transmitted telegrams.

Events: tuples yielded by decode_rx_frame per frame; tuples yielded by read_telegrams on text
logs; frames passed to bus.send by IsoTpActiveDecoder.
Oracle: reference segmenter (vf.refisotp) - per receive ID the concatenated outputs must equal
the transmitted payloads, in order, each once.
"""
from __future__ import annotations

import asyncio
import contextlib
import io
import itertools
import random
from typing import Any, Dict, Iterable, List, Optional, Sequence, Tuple

from .. import common
from ..refisotp import FD_DLCS, flow_control, kind_of, segment

PROPERTY = "C12"
LEVEL = "exploration"
RULE = ("ISO 15765-2 frame streams produced by an independent segmenter: (a) one telegram of "
        "every length in a length set x TX_DL x padding, (b) all merges of the frame sequences "
        "of up to 3 CAN IDs with <= 8 frames in total, each also with one flow-control / "
        "unrelated-ID frame inserted at every position, (c) random multi-telegram streams. "
        "Every stream is fed through decode_rx_frame, a sample also through read_telegrams in "
        "three candump text formats and through IsoTpActiveDecoder with a stub bus. A case is "
        "distinct by (part, length, tx_dl, padding) resp. by the merged frame-kind sequence; "
        "non-trivial if at least one telegram was transmitted")
MIN_EVALS = {"quick": 5000, "thorough": 100000}
ASSUMPTIONS = [
    "normal addressing, FF_DL <= 4095 (the property's range); CAN FD frames longer than 8 bytes "
    "are padded to a legal DLC",
    "flow-control frames on a monitored ID carry no payload and must not disturb reassembly",
]

IDS = [0x7E0, 0x7E8, 0x18DA]
UNRELATED = 0x123


def payload_for(tag: int, length: int) -> bytes:
    """Distinct, position-dependent content so that loss, duplication and reordering show."""
    return bytes(((tag * 37 + i * 7 + (i >> 8) * 3) & 0xFF) for i in range(length))


Frame = Tuple[int, bytes]


def run_stream(sm: Any, frames: Sequence[Frame]) -> Tuple[Dict[int, List[bytes]], Optional[str]]:
    """What a consumer that KEEPS the reported telegram objects holds at the end of the stream
    (a telegram that is reported correctly and later changes under the consumer's hands was not
    reported "exactly"); a telegram that changed is returned in its final state."""
    out: Dict[int, List[bytes]] = {}
    kept: List[Tuple[int, int, Any]] = []
    for n, (cid, data) in enumerate(frames):
        try:
            for rid, pl in sm.decode_rx_frame(cid, data):
                out.setdefault(rid, []).append(bytes(pl))
                kept.append((rid, len(out[rid]) - 1, pl))
        except Exception as e:
            return out, f"frame {n} ({cid:x}#{data.hex()}): {type(e).__name__}: {e}"
    for rid, idx, obj in kept:
        if bytes(obj) != out[rid][idx]:
            out[rid][idx] = bytes(obj)  # shows up as 'telegram-altered'
    return out, None


FORMATS = ("console", "log", "fdlog", "console-lc", "log-lc", "fdlog-lc", "log-iface", "console-ascii")


def render(frames: Sequence[Frame], fmt: str) -> str:
    """candump-style text: console output, compact log (-l), CAN-FD log; hex digits in upper
    or lower case (both are written by common tools), other interface names"""
    lines = []
    t = 1700000000.0
    lower = fmt.endswith("-lc")
    base = fmt.split("-")[0]
    iface = "vcan_1-x" if fmt == "log-iface" else "can0"

    def hx(b: bytes) -> str:
        return b.hex() if lower else b.hex().upper()

    for cid, data in frames:
        t += 0.001
        ident = f"{cid:03x}" if lower else f"{cid:03X}"
        if fmt == "console-ascii":
            # candump -a: an ASCII column follows the data bytes
            asc = "".join(chr(b) if 32 <= b < 127 and chr(b) not in "'" else "." for b in data)
            lines.append(f"  {iface}  {ident}   [{len(data)}]  " + " ".join(hx(bytes([b])) for b in data) +
                         f"   '{asc}'")
        elif base == "console":
            lines.append(f"  {iface}  {ident}   [{len(data)}]  " + " ".join(hx(bytes([b])) for b in data))
        elif base == "log":
            lines.append(f"({t:.6f}) {iface} {ident}#{hx(data)}")
        elif base == "fdlog":
            lines.append(f"({t:.6f}) {iface} {ident}##1{hx(data)}")
    return "\n".join(lines) + "\n"


async def _read_all(sm: Any, text: str) -> List[Tuple[int, bytes]]:
    res = []
    async for rid, pl in sm.read_telegrams(io.StringIO(text)):
        res.append((rid, bytes(pl)))
    return res


class StubBus:

    def __init__(self) -> None:
        self.sent: List[Tuple[int, bytes]] = []

    def send(self, msg: Any, timeout: Any = None) -> None:
        self.sent.append((msg.arbitration_id, bytes(msg.data)))


def tkind(L: int, tx_dl: int) -> str:
    if L <= 7:
        return "SF"
    if tx_dl > 8 and L <= tx_dl - 2:
        return "SF-FD-escape"
    ncf = -(-(L - (tx_dl - 2)) // (tx_dl - 1))
    return ("multi-FD" if tx_dl > 8 else "multi") + ("-snwrap" if ncf > 15 else "")


def classify(frames: Sequence[Frame], cid: int, j: int) -> str:
    """Kind of the j-th transfer on `cid` in a well-formed stream (from the frames themselves)."""
    n = -1
    for c, d in frames:
        if c != cid:
            continue
        k = kind_of(d)
        if k in ("SF", "FF"):
            n += 1
            if n == j:
                if k == "FF":
                    return "multi-FD" if len(d) > 8 else "multi"
                return "SF-FD-escape" if (d[0] & 0xF) == 0 else "SF"
    return "none"


def judge(col: common.Collector, part: str, frames: Sequence[Frame],
          expected: Dict[int, List[bytes]], meta: Dict[str, Any], text_too: bool,
          active_too: bool) -> None:
    from odxtools.isotp_state_machine import IsoTpActiveDecoder, IsoTpStateMachine
    # the order in which the receive IDs are configured must not matter: use a non-ascending,
    # stream-dependent order (and the paired transmit IDs in the same positions)
    ids = sorted(expected.keys())
    if len(ids) > 1:
        rot = (len(frames) % (len(ids) - 1)) + 1 if len(ids) > 2 else 1
        ids = ids[rot:] + ids[:rot]
        if len(frames) % 2:
            ids = ids[::-1]
    sm = IsoTpStateMachine(list(ids))
    got, err = run_stream(sm, frames)
    col.ev()
    kinds = "".join(kind_of(d)[0] for _, d in frames)

    def bad(clause: str, text: str, extra: Optional[Dict] = None) -> None:
        fk = meta.get("class", part)
        col.count("violating_streams")
        d = {"part": part, "meta": meta, "frames": [[c, d] for c, d in frames[:80]],
             "expected": {str(k): v for k, v in expected.items()}, "problem": text}
        if extra:
            d.update(extra)
        col.violation((clause, fk), d)

    if err is not None:
        bad("raises", err)
        return
    for i in ids:
        if got.get(i, []) != expected[i]:
            g = got.get(i, [])
            if len(g) < len(expected[i]):
                clause = "telegram-lost"
            elif len(g) > len(expected[i]):
                clause = "telegram-extra"
            else:
                clause = "telegram-altered"
            j = next((n for n, (a, b) in enumerate(zip(g, expected[i])) if a != b),
                     min(len(g), len(expected[i])))
            meta = dict(meta)
            meta["class"] = classify(frames, i, j) + "/" + ("interleaved" if len(ids) > 1 else "alone")
            bad(clause, f"id {i:x}: transfer #{j}: reported {[x.hex()[:24] for x in g[j:j+1]]} "
                f"expected {[x.hex()[:24] for x in expected[i][j:j+1]]}")
            return
    for i in got:
        if i not in expected:
            bad("unrelated-id-reported", f"telegram reported for id {i:x}")
            return
    if text_too:
        flat = []
        sm2 = IsoTpStateMachine(list(ids))
        for cid, data in frames:
            for rid, pl in sm2.decode_rx_frame(cid, data):
                flat.append((rid, bytes(pl)))
        for fmt in FORMATS:
            sm3 = IsoTpStateMachine(list(ids))
            try:
                res = asyncio.run(_read_all(sm3, render(frames, fmt)))
            except Exception as e:
                bad("text-log-raises", f"{fmt}: {type(e).__name__}: {e}", {"format": fmt})
                return
            col.ev()
            col.count("text_logs_read")
            if res != flat:
                bad("text-log-differs", f"{fmt}: read_telegrams gave {len(res)} telegrams, the "
                    f"frame API {len(flat)}", {"format": fmt})
                return
    if active_too:
        tx = [i + 0x100 for i in ids]
        decoders: List[Tuple[str, Any, Any]] = []
        bus = StubBus()
        decoders.append(("", IsoTpActiveDecoder(bus, list(ids), tx), bus))
        try:
            # the active decoder as the snoop tool builds it (a subclass that also prints)
            import odxtools.cli.snoop as snoop
            bus2 = StubBus()
            decoders.append(("snoop-tool: ", snoop.init_verbose_state_machine(
                IsoTpActiveDecoder, bus2, list(ids), tx), bus2))
        except ImportError:
            col.count("snoop-decoder-unavailable")
        for dname, ad, bus in decoders:
            out: Dict[int, List[bytes]] = {}
            tag = "snoop-" if dname else ""
            for n, (cid, data) in enumerate(frames):
                before = len(bus.sent)
                try:
                    with contextlib.redirect_stdout(io.StringIO()):
                        for rid, pl in ad.decode_rx_frame(cid, data):
                            out.setdefault(rid, []).append(bytes(pl))
                except Exception as e:
                    bad(tag + "active-raises", f"{dname}frame {n}: {type(e).__name__}: {e}")
                    return
                new = bus.sent[before:]
                if cid in ids and kind_of(data) == "FF":
                    want_tx = tx[ids.index(cid)]
                    if len(new) != 1 or new[0][0] != want_tx or len(new[0][1]) < 1 or \
                            new[0][1][0] != 0x30:
                        bad(tag + "flow-control-missing", f"{dname}first frame {n} on {cid:x} answered by "
                            f"{[(hex(a), d.hex()) for a, d in new]} (expected one 30.. on {want_tx:x})")
                        return
                    col.count(tag + "first_frames_acknowledged")
                else:
                    for a, d in new:
                        if len(d) < 1 or d[0] != 0x30 or a not in tx:
                            bad(tag + "flow-control-wrong", f"{dname}frame {n} triggered send {a:x}#{d.hex()}")
                            return
            col.ev()
            for i in ids:
                if out.get(i, []) != expected[i]:
                    bad(tag + "active-telegrams-differ", f"{dname}id {i:x}: active decoder reported "
                        f"{len(out.get(i, []))} telegrams, expected {len(expected[i])}")
                    return
    col.nontrivial((part, kinds[:40], meta.get("L"), meta.get("tx_dl"), meta.get("padding")))


# ---------------------------------------------------------------------------
# workloads


def lengths_for(tier: str, tx_dl: int) -> List[int]:
    ls = set(range(1, 131 if tier == "quick" else 400))
    first, per = tx_dl - 2, tx_dl - 1
    ks = [1, 2, 14, 15, 16, 17, 30, 31, 32, 33] if tier == "quick" else range(1, 4095 // per + 2)
    for k in ks:
        for d in (-2, -1, 0, 1, 2):
            ls.add(first + k * per + d)
    ls |= {4093, 4094, 4095}
    return sorted(x for x in ls if 1 <= x <= 4095)


def part_lengths(task: Tuple, col: common.Collector) -> None:
    tier, tx_dl, padding = task
    n = 0
    for L in lengths_for(tier, tx_dl):
        pl = payload_for(L, L)
        frames = [(IDS[0], f) for f in segment(pl, tx_dl, padding)]
        fam = "SF" if len(frames) == 1 and frames[0][1][0] != 0 else (
            "SF-FD-escape" if len(frames) == 1 else "multi")
        meta = {"L": L, "tx_dl": tx_dl, "padding": padding, "class": f"single-telegram/{fam}"}
        judge(col, "lengths", frames, {IDS[0]: [pl]}, meta, text_too=(n % 16 == 0),
              active_too=(n % 16 == 1))
        n += 1
    col.sample({"part": "lengths", "tx_dl": tx_dl, "padding": padding, "lengths_tried": n,
                "example_frames_L20": [f.hex() for f in segment(payload_for(20, 20), tx_dl, padding)]},
               limit=2)


def part_long(task: Tuple, col: common.Collector) -> None:
    """Telegrams near the 12-bit length limit and around 256 consecutive frames (the block size
    counter of the active decoder wraps there), each followed by another segmented telegram on
    the same ID; telegrams that exactly fill their last frame, followed by another one."""
    (tier,) = task
    n = 0
    for L in (1791, 1792, 1795, 1798, 1799, 3584, 3590, 4094, 4095):
        for L2 in (20, 13):
            p1, p2 = payload_for(L % 251, L), payload_for(L2 + 3, L2)
            frames = [(IDS[0], f) for f in segment(p1, 8, None)] + [(IDS[0], f) for f in segment(p2, 8, 0xAA)]
            meta = {"L": L, "tx_dl": 8, "padding": None, "class": "long-telegram-then-segmented"}
            judge(col, "long", frames, {IDS[0]: [p1, p2]}, meta, text_too=(n % 6 == 0), active_too=True)
            n += 1
    for L in (13, 20, 27, 118):   # no padding to cut off in the last consecutive frame
        p1, p2, p3 = payload_for(L, L), payload_for(L + 1, L + 7), payload_for(L + 2, 9)
        frames = [(IDS[0], f) for p in (p1, p2, p3) for f in segment(p, 8, None)]
        judge(col, "long", frames, {IDS[0]: [p1, p2, p3]},
              {"L": L, "tx_dl": 8, "padding": None, "class": "exact-fill-then-segmented"},
              text_too=True, active_too=True)
    col.count("long_streams", n)


SEQ_LIBRARY = [
    # (description, list of (length, tx_dl))
    [(3, 8)],
    [(7, 8), (1, 8)],
    [(8, 8)],                # FF + 1 CF
    [(20, 8)],               # FF + 2 CF
    [(14, 8), (2, 8)],       # FF + 2 CF, SF
    [(2, 8), (9, 8)],        # SF, FF + CF
    [(10, 16)],              # FD escape SF
    [(30, 16)],              # FD FF + 2 CF
    [(62, 64)],              # FD escape SF, max
]


def merges(seqs: List[List[Frame]]) -> Iterable[List[Frame]]:
    """All interleavings preserving the order inside each sequence."""
    lens = [len(s) for s in seqs]
    labels = []
    for i, n in enumerate(lens):
        labels += [i] * n
    seen = set()
    for perm in set(itertools.permutations(labels)):
        pos = [0] * len(seqs)
        out = []
        for lab in perm:
            out.append(seqs[lab][pos[lab]])
            pos[lab] += 1
        yield out


def part_merges(task: Tuple, col: common.Collector) -> None:
    tier, combos = task
    n = 0
    for combo in combos:
        seqs: List[List[Frame]] = []
        expected: Dict[int, List[bytes]] = {}
        for slot, libidx in enumerate(combo):
            cid = IDS[slot]
            fr: List[Frame] = []
            expected[cid] = []
            for t, (L, tx_dl) in enumerate(SEQ_LIBRARY[libidx]):
                pl = payload_for(slot * 50 + libidx * 5 + t + 1, L)
                expected[cid].append(pl)
                fr += [(cid, f) for f in segment(pl, tx_dl, 0xAA if (libidx + slot) % 2 else None)]
            seqs.append(fr)
        for m in merges(seqs):
            meta = {"combo": list(combo), "class": "interleaving"}
            judge(col, "merges", m, expected, meta, text_too=(n % 50 == 0), active_too=(n % 50 == 1))
            n += 1
            # one extra frame at every position: flow control on a monitored ID, unrelated ID
            if n % (3 if tier == "thorough" else 11) == 0:
                for pos in range(len(m) + 1):
                    for extra in ([(IDS[(pos + n) % len(seqs)], flow_control(n % 3, 8, 0))],
                                  [(UNRELATED, bytes([0x21, 1, 2, 3, 4, 5, 6, 7]))],
                                  [(UNRELATED, bytes([0x10, 0x20, 9, 9, 9, 9, 9, 9]))],
                                  # bursts from one unrelated ID that look like ISO-TP traffic
                                  [(UNRELATED, bytes([0x21, 1, 2, 3, 4, 5, 6, 7])),
                                   (UNRELATED, bytes([0x22, 8, 9, 10, 11, 12, 13, 14]))],
                                  [(UNRELATED, bytes([0x03, 0xA1, 0xA2, 0xA3])),
                                   (UNRELATED, bytes([0x02, 0xB1, 0xB2])),
                                   (UNRELATED + 1, bytes([0x10, 0x09, 1, 2, 3, 4, 5, 6])),
                                   (UNRELATED + 1, bytes([0x21, 7, 8, 9]))]):
                        mm = m[:pos] + extra + m[pos:]
                        judge(col, "merges+fc", mm, expected,
                              {"combo": list(combo), "inserted": [[c, d] for c, d in extra], "at": pos,
                               "class": "interleaving+flow-control/unrelated"},
                              text_too=(pos == 0 and n % 5 == 0), active_too=(pos == 1))
    col.count("merge_streams", n)
    if combos:
        col.sample({"part": "merges", "combo": list(combos[0]),
                    "sequences": [[(L, d) for L, d in SEQ_LIBRARY[i]] for i in combos[0]],
                    "streams": n}, limit=2)


def merge_combos(tier: str) -> List[Tuple[int, ...]]:
    nlib = len(SEQ_LIBRARY)

    def nframes(i: int) -> int:
        return sum(len(segment(b"x" * L, d)) for L, d in SEQ_LIBRARY[i])

    combos = []
    for k in (1, 2, 3):
        for c in itertools.product(range(nlib), repeat=k):
            if sum(nframes(i) for i in c) <= 8:
                combos.append(c)
    return combos


def part_random(task: Tuple, col: common.Collector) -> None:
    worker, count = task
    r = common.rng(worker, "c12")
    for n in range(count):
        nids = r.choice([1, 2, 3, 3])
        ids = IDS[:nids]
        seqs = []
        expected: Dict[int, List[bytes]] = {}
        for s, cid in enumerate(ids):
            tx_dl = r.choice(FD_DLCS) if r.random() < 0.5 else 8
            padding = r.choice([None, 0x00, 0xAA, 0xCC, 0x55])
            fr: List[Frame] = []
            expected[cid] = []
            for t in range(r.randrange(1, 14)):
                L = r.choice([r.randrange(1, 8), r.randrange(1, 70), r.randrange(1, 300),
                              r.randrange(1, 4096) if r.random() < 0.15 else r.randrange(1, 40)])
                pl = bytes(r.getrandbits(8) for _ in range(L))
                expected[cid].append(pl)
                fr += [(cid, f) for f in segment(pl, tx_dl, padding)]
            seqs.append(fr)
        # random merge + random flow-control / unrelated frames
        pos = [0] * nids
        stream: List[Frame] = []
        live = [i for i in range(nids)]
        while live:
            i = r.choice(live)
            stream.append(seqs[i][pos[i]])
            pos[i] += 1
            if pos[i] == len(seqs[i]):
                live.remove(i)
            x = r.random()
            if x < 0.08:
                stream.append((r.choice(ids), flow_control(r.randrange(3), r.randrange(256),
                                                           r.randrange(128),
                                                           r.choice([None, 0xAA]))))
            elif x < 0.14:
                uid = UNRELATED + r.randrange(4)
                for _ in range(r.choice([1, 1, 2, 3])):
                    stream.append((uid, bytes([r.choice([0x02, 0x10, 0x21, 0x22, 0x30,
                                                         r.getrandbits(8)])]) +
                                   bytes(r.getrandbits(8) for _ in range(r.randrange(0, 8)))))
        judge(col, "random", stream, expected,
              {"ids": nids, "frames": len(stream), "class": "random-stream"},
              text_too=(n % 4 == 0), active_too=(n % 4 == 1))
    col.count("random_streams", count)


def run(tier: str, col: common.Collector) -> None:
    paddings = [None, 0x00, 0xAA, 0xCC]
    tasks = [(tier, d, p) for d in FD_DLCS for p in paddings]
    common.pmap(part_lengths, tasks, col)
    common.pmap(part_long, [(tier,)], col)
    combos = merge_combos(tier)
    r = random.Random(common.seed())
    if tier == "quick":
        # all 1- and 2-ID combos, a seeded sample of the 3-ID combos
        small = [c for c in combos if len(c) < 3]
        big = [c for c in combos if len(c) == 3]
        combos = small + r.sample(big, min(len(big), 160))
    chunks = [combos[i::common.NCPU] for i in range(common.NCPU)]
    common.pmap(part_merges, [(tier, ch) for ch in chunks if ch], col)
    nrand = 120 if tier == "quick" else 1500
    common.pmap(part_random, [(w, nrand) for w in range(common.NCPU)], col)
    col.notes["merge_combinations"] = len(combos)
    for need in ("text_logs_read", "first_frames_acknowledged", "merge_streams", "random_streams",
                 "long_streams"):
        if not col.counters.get(need):
            col.fail_inconclusive(f"monitor counter {need} stayed at zero")


def replay(w: Dict[str, Any], col: common.Collector) -> None:
    frames = [(int(c), bytes(d)) for c, d in w["frames"]]
    expected = {int(k): [bytes(x) for x in v] for k, v in w["expected"].items()}
    judge(col, w.get("part", "replay"), frames, expected, w.get("meta", {}), True, True)
