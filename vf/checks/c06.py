"""C06 - messages are attributed to exactly the services whose description matches.

Events: the list returned by DiagLayer.decode(M) / decode_response(M, request) (service, coding
object, param dict) or the exception; DiagLayer.service_groups[sid].
Oracle: the reference interpreter classifies every coding object of every service against M:
  MUST     constants match, every parameter decodes, PDU fully consumed
  MAY      decodes but leaves trailing bytes, or only a non-leading constant differs (odxtools
           documents that as a warning; the statement is silent), or attribution through a
           global negative response
  MUST-NOT leading constant differs, NRC not listed, M too short, invalid internal value
reported services must include every MUST service, stay within MUST+MAY, name each (service,
coding object) once, and DecodeError is allowed only when there is no MUST object.
"""
from __future__ import annotations

import itertools
import random
from typing import Any, Dict, List, Optional, Set, Tuple

from .. import codeccompose, codecrun, common, refodx
from ..odxgen import dct_minmax, dct_std, dop, p_const, p_value, u8const

PROPERTY = "C06"
LEVEL = "exploration"
RULE = ("layers of 1-8 services drawn from a 12-shape request alphabet (constant bytes c, value "
        "bytes v: c, cc, ccc, cv, cvv, ccv, cvc, c+end-of-pdu field, c+min-max string, v (empty "
        "prefix), 4-bit c + 4-bit v in byte 0, c listed second but positioned at byte 0) with "
        "constants chosen so that prefixes are equal, nested or disjoint; positive responses with "
        "request echo, negative responses with NRC-CONST alternatives or free NRC, 0-2 global "
        "negative responses; exhaustive over all 2- and 3-service sets from the alphabet "
        "(thorough; sampled in quick) and random larger sets. Messages: own encodings of every "
        "request and response, all byte strings up to length 3 over the prefix alphabet, "
        "mutations. Distinct+non-trivial = distinct (service-set shape signature, message class, "
        "expected attribution size)")
MIN_EVALS = {"quick": 20000, "thorough": 500000}
ASSUMPTIONS = [
    "vf/refodx.py classifies coding objects; MAY exists to keep the oracle sound where the "
    "statement is silent; the evidence reports how many verdicts rested on MAY",
    "a response decoded without knowing the request cannot have its request echo checked",
    "if two coding objects of ONE service decode M (a short response tolerating trailing bytes "
    "next to a longer one) the statement does not say which is the interpretation; odxtools "
    "calls that ambiguous and raises: such services are MAY",
    "request SIDs never coincide with 0x7F or with the response SID (request SID + 0x40) of "
    "another service, as UDS guarantees; such collisions make one byte string a request and a "
    "response at once and the statement does not say how they are told apart",
]

POOL = [dop("u8", dct_std("A_UINT32", 8)), dop("u16", dct_std("A_UINT32", 16)),
        dop("u4", dct_std("A_UINT32", 4)), dop("u1", dct_std("A_UINT32", 1)),
        dop("mm", dct_minmax("A_BYTEFIELD", 0, 4, "END-OF-PDU")),
        {"t": "STRUCT", "name": "item", "params": [p_value("a", "u8"), p_value("b", "u8")]},
        {"t": "EOPFIELD", "name": "eop", "struct": "item", "min": None, "max": None}]

SHAPES = ["c", "cc", "ccc", "cv", "cvv", "ccv", "cvc", "c+eop", "c+mm", "v", "c4v4", "c-second",
          "cc7v1", "v4c4"]


def build_request(name: str, shape: str, consts: List[int]) -> Dict[str, Any]:
    c0, c1, c2 = (consts + [0x01, 0x02, 0x03])[:3]
    if shape == "c":
        ps = [u8const("sid", c0)]
    elif shape == "cc":
        ps = [u8const("sid", c0), u8const("sub", c1)]
    elif shape == "ccc":
        ps = [u8const("sid", c0), u8const("sub", c1), u8const("sub2", c2)]
    elif shape == "cv":
        ps = [u8const("sid", c0), p_value("v1", "u8")]
    elif shape == "cvv":
        ps = [u8const("sid", c0), p_value("v1", "u8"), p_value("v2", "u8")]
    elif shape == "ccv":
        ps = [u8const("sid", c0), u8const("sub", c1), p_value("v1", "u8")]
    elif shape == "cvc":
        ps = [u8const("sid", c0), p_value("v1", "u8"), u8const("tail", c1)]
    elif shape == "c+eop":
        ps = [u8const("sid", c0), p_value("items", "eop")]
    elif shape == "c+mm":
        ps = [u8const("sid", c0), p_value("blob", "mm")]
    elif shape == "v":
        ps = [p_value("v1", "u8"), p_value("v2", "u8")]
    elif shape == "c4v4":
        ps = [p_const("hi", dct_std("A_UINT32", 4), c0 >> 4, byte=0, bit=4),
              p_value("lo", "u4", byte=0, bit=0), p_value("v1", "u8", byte=1)]
    elif shape == "cc7v1":
        # the sub-function byte of UDS: seven constant bits and one flag chosen by the user;
        # the constant prefix ends in front of that byte
        ps = [u8const("sid", c0), p_const("sub", dct_std("A_UINT32", 7), c1 & 0x7F, byte=1, bit=0),
              p_value("spr", "u1", byte=1, bit=7), p_value("v1", "u8", byte=2)]
    elif shape == "v4c4":
        # constant low nibble, free high nibble: no constant byte at all
        ps = [p_const("lo", dct_std("A_UINT32", 4), c0 & 0x0F, byte=0, bit=0),
              p_value("hi", "u4", byte=0, bit=4), p_value("v1", "u8", byte=1)]
    elif shape == "c-second":
        ps = [u8const("sub", c1, byte=1), u8const("sid", c0, byte=0), p_value("v1", "u8", byte=2)]
    else:
        raise ValueError(shape)
    return {"name": name, "params": ps, "shape": shape, "feat": {"shape": shape}}


def first_const_byte(rq: Dict[str, Any]) -> Optional[int]:
    """First byte of every PDU of the request if it is a constant, else None."""
    for p in rq["params"]:
        pos = p.get("byte") if p.get("byte") is not None else None
        if p["p"] == "CODED-CONST" and p["dct"]["bits"] == 8 and (p.get("bit") or 0) == 0:
            if p.get("byte") == 0 or (p.get("byte") is None and p is rq["params"][0]):
                return p["value"]
    return None


def build_layer(idx: int, spec: List[Tuple[str, List[int]]], r: random.Random, n_gnr: int) -> Dict[str, Any]:
    rqs, prs, ngs = [], [], []
    services = []
    for k, (shape, consts) in enumerate(spec):
        rq = build_request(f"rq{k}", shape, consts)
        rqs.append(rq)
        sid = first_const_byte(rq)
        pos_names, neg_names = [], []
        rq_len = {"cc": 2, "ccc": 3, "ccv": 3}.get(shape, 0)
        sharable = [q for q in prs if q["params"][0].get("value") == ((sid or 0) + 0x40) & 0xFF and
                    any(x["p"] == "MATCHING-REQUEST-PARAM" for x in q["params"]) and
                    all(x["req_pos"] + x["len"] <= rq_len for x in q["params"]
                        if x["p"] == "MATCHING-REQUEST-PARAM")]
        if sid is not None and sharable and shape in ("cc", "ccc", "ccv") and r.random() < 0.5:
            # one positive response object used by several services with the same SID: what
            # its request echo must look like depends on the service it is used for
            pos_names.append(r.choice(sharable)["name"])
        elif sid is not None and r.random() < 0.85:
            pr = {"name": f"pr{k}", "for": rq["name"], "shape": "pos", "feat": {"shape": "pos"},
                  "params": [u8const("rsid", (sid + 0x40) & 0xFF)]}
            if shape in ("cc", "ccc", "ccv", "cv", "cvv", "cvc") and r.random() < 0.7:
                pr["params"].append({"p": "MATCHING-REQUEST-PARAM", "name": "echo", "req_pos": 1,
                                     "len": 2 if shape == "ccc" and r.random() < 0.5 else 1})
            for j in range(r.randrange(0, 3)):
                pr["params"].append(p_value(f"r{j}", r.choice(["u8", "u16"])))
            prs.append(pr)
            pos_names.append(pr["name"])
        if sid is not None and r.random() < 0.6:
            kind = r.choice(["nrc-list", "nrc-free"])
            ng = {"name": f"nr{k}", "for": rq["name"], "shape": "neg-" + kind, "feat": {"shape": "neg"},
                  "params": [u8const("nsid", 0x7F),
                             {"p": "MATCHING-REQUEST-PARAM", "name": "rq_sid", "req_pos": 0, "len": 1}]}
            if kind == "nrc-list":
                ng["params"].append({"p": "NRC-CONST", "name": "nrc", "byte": None, "bit": None,
                                     "dct": dct_std("A_UINT32", 8),
                                     "values": r.sample([0x11, 0x12, 0x31, 0x33], 2)})
            else:
                ng["params"].append(p_value("nrc", "u8"))
            ngs.append(ng)
            neg_names.append(ng["name"])
            if r.random() < 0.5:
                # a second (and third) negative response with the same prefix, told apart by
                # the NRC-CONST lists only; the one listed first does not apply to their NRCs
                rest = [v for v in (0x11, 0x12, 0x31, 0x33)
                        if kind != "nrc-list" or v not in ng["params"][2]["values"]][:2]
                ng2 = {"name": f"nr{k}b", "for": rq["name"], "shape": "neg-nrc-list", "feat": {"shape": "neg"},
                       "params": [u8const("nsid", 0x7F),
                                  {"p": "MATCHING-REQUEST-PARAM", "name": "rq_sid", "req_pos": 0, "len": 1},
                                  {"p": "NRC-CONST", "name": "nrc", "byte": None, "bit": None,
                                   "dct": dct_std("A_UINT32", 8), "values": rest},
                                  p_value("detail", "u8")]}
                ngs.append(ng2)
                # listed before or after the shorter one
                neg_names.insert(r.randrange(0, 2), ng2["name"])
        if sid is not None and neg_names and r.random() < 0.25:
            # a further negative response of the service without request echo: its constant
            # prefix (7F) is a proper prefix of the other one's (7F <sid>)
            ngw = {"name": f"nr{k}w", "for": rq["name"], "shape": "neg-wide", "feat": {"shape": "neg"},
                   "params": [u8const("nsid", 0x7F), p_value("any_sid", "u8"), p_value("nrc", "u8"),
                              u8const("marker", 0xEE)]}
            ngs.append(ngw)
            neg_names.append(ngw["name"])
        if sid is not None and not neg_names and ngs and r.random() < 0.35:
            # a negative response object shared with an earlier service (its request echo then
            # depends on which service it is used for)
            neg_names.append(r.choice(ngs)["name"])
        services.append({"name": f"svc{k}", "request": rq["name"], "pos": pos_names, "neg": neg_names})
    echo = {"p": "MATCHING-REQUEST-PARAM", "name": "rq_sid", "req_pos": 0, "len": 1}

    def nrcs(vals: List[int]) -> Dict[str, Any]:
        return {"p": "NRC-CONST", "name": "nrc", "byte": None, "bit": None,
                "dct": dct_std("A_UINT32", 8), "values": vals}

    def gnr(g: int, params: List[Dict[str, Any]]) -> Dict[str, Any]:
        return {"name": f"gnr{g}", "shape": "gneg", "feat": {"shape": "gneg"},
                "params": [u8const("nsid", 0x7F)] + params}

    gneg = []
    if n_gnr >= 3:
        # several global negative responses with one constant prefix, told apart by their
        # NRC-CONST lists and their lengths; the specific ones are listed first
        gneg = [gnr(0, [dict(echo), nrcs([0x31]), p_value("detail", "u8")]),
                gnr(1, [dict(echo), nrcs([0x21, 0x78])]),
                gnr(2, [dict(echo), nrcs([0x11, 0x12, 0x22, 0x31])])]
    else:
        for g in range(n_gnr):
            gneg.append(gnr(g, [dict(echo), p_value("nrc", "u8")] if g == 0 else
                            [u8const("any", 0x00), p_value("nrc", "u8")]))
    return {"kind": "BASE-VARIANT", "name": f"L{idx}", "dobjs": [dict(d) for d in POOL],
            "requests": rqs, "pos": prs, "neg": ngs, "gneg": gneg, "services": services,
            "spec": [[s, c] for s, c in spec]}


CONST_SETS = [[0x22, 0xF1, 0x90], [0x22, 0xF1, 0x91], [0x22, 0xF2, 0x90], [0x22, 0x01, 0x05],
              [0x10, 0x01, 0x00], [0x10, 0x02, 0x00], [0x3E, 0x00, 0x00], [0x31, 0x01, 0xFF],
              [0x2E, 0xF1, 0x90], [0x2E, 0x01, 0x05], [0x31, 0x02, 0xFF]]


def gen_specs(tier: str, r: random.Random) -> List[List[Tuple[str, List[int]]]]:
    specs: List[List[Tuple[str, List[int]]]] = []
    singles = [(s, c) for s in SHAPES for c in (CONST_SETS[0], CONST_SETS[3], CONST_SETS[4])]
    pairs = list(itertools.combinations(singles, 2))
    if tier == "quick":
        pairs = r.sample(pairs, 320)
    specs += [[a, b] for a, b in pairs]
    triples_n = 300 if tier == "quick" else 6000
    for _ in range(triples_n):
        specs.append([(r.choice(SHAPES), r.choice(CONST_SETS[:5])) for _ in range(3)])
    for _ in range(160 if tier == "quick" else 3000):
        specs.append([(r.choice(SHAPES), r.choice(CONST_SETS)) for _ in range(r.randrange(4, 9))])
    for s in SHAPES:
        specs.append([(s, CONST_SETS[0])])
    return specs


def classify(ll: codecrun.LoadedLayer, msg: Dict[str, Any], M: bytes,
             request: Optional[bytes], const_len: Optional[int] = None) -> Tuple[str, Any]:
    k, res = codecrun.ref_decode(ll.ref, msg, M, request, const_len)
    if k == "ok":
        return ("MUST" if res[1] == len(M) else "MAY"), res[0]
    if k == "mismatch":
        return "MAY", None
    if k == "skip":
        return "MAY", None
    return "MUST-NOT", None


def shape_of(ll: codecrun.LoadedLayer, rq: Dict[str, Any]) -> str:
    return "empty-constant-prefix" if not ll.ref.const_prefix(rq) else rq["shape"]


def judge(col: common.Collector, ll: codecrun.LoadedLayer, model: Dict[str, Any], M: bytes,
          request: Optional[bytes], mclass: str, shape_sig: str) -> None:
    layer = ll.layer
    by_rq = {m["name"]: m for m in model["requests"]}
    by_pos = {m["name"]: m for m in model["pos"]}
    by_neg = {m["name"]: m for m in model["neg"]}
    must: Set[str] = set()
    may: Set[str] = set()
    must_vals: Dict[Tuple[str, str], Any] = {}
    for s in model["services"]:
        objs = [("rq", by_rq[s["request"]])] + [("pos", by_pos[n]) for n in s["pos"]] + \
            [("neg", by_neg[n]) for n in s["neg"]]
        rq_model = by_rq[s["request"]]
        only_may = False
        if request is not None:
            # services whose request prefix contradicts the triggering request are no candidates;
            # if the request merely fails to decode completely (too short, invalid value) the
            # statement does not say whether the service is still a candidate -> MAY at most
            # (a "request" argument that is no request of the service at all - e.g. one of its
            # responses - still leads odxtools to the service through the shared prefix tree;
            # the statement defines the reported set by what matches M, so that is MAY as well)
            k0, _ = codecrun.ref_decode(ll.ref, rq_model, request)
            if k0 != "ok":
                only_may = True
        # what is known about the request when a response is matched: the triggering request if
        # given, else the constant prefix of the service's own request; only the constant part
        # of it takes part in matching
        rq_prefix = ll.ref.const_prefix(rq_model)
        ctx = request if request is not None else rq_prefix
        n_must = 0
        for kind, m in objs:
            c, vals = classify(ll, m, M, ctx if kind != "rq" else None, len(rq_prefix))
            if only_may and c == "MUST-NOT" and kind != "rq":
                # the request argument is not a request of this service: odxtools then matches
                # the echo against the service's own request prefix - also acceptable
                c2, _ = classify(ll, m, M, rq_prefix, len(rq_prefix))
                if c2 in ("MUST", "MAY"):
                    c, vals = "MAY", None
            if c == "MUST" and not only_may:
                must.add(s["name"])
                must_vals[(s["name"], m["name"])] = vals
            if c in ("MUST", "MAY"):
                may.add(s["name"])
                # decodes - possibly leaving trailing bytes, possibly with a constant that is
                # not part of the prefix differing (which odxtools only warns about)
                n_must += 1
        if n_must > 1:
            # two coding objects of ONE service match M (e.g. a short negative response that
            # tolerates trailing bytes next to a longer one): which of them is "the"
            # interpretation is not settled by the statement; odxtools calls it ambiguous
            must.discard(s["name"])
            for key in [k for k in must_vals if k[0] == s["name"]]:
                del must_vals[key]
            col.count("ambiguous-within-service")
        for g in model["gneg"]:
            # a global negative response applies to a service when M matches it with the echo of
            # the service's (constant) request prefix: then the service has to be reported -
            # through the GNR or through an object of its own.  Any looser match is MAY.
            c, _ = classify(ll, g, M, rq_prefix, len(rq_prefix))
            if c == "MUST" and not only_may:
                must.add(s["name"])
                may.add(s["name"])
                continue
            if request is not None and not only_may:
                # the triggering request is known and is a request of this service: a global
                # negative response whose echo contradicts it does not apply
                c, _ = classify(ll, g, M, request, len(rq_prefix))
                if c in ("MUST", "MAY"):
                    may.add(s["name"])
                continue
            c, _ = classify(ll, g, M, None)
            if c in ("MUST", "MAY"):
                may.add(s["name"])
    if request is None:
        o = codecrun.call(layer.decode, M)
        api = "decode"
    else:
        o = codecrun.call(layer.decode_response, M, request)
        api = "decode_response"
    col.ev()
    col.nontrivial((shape_sig, api, mclass, len(must), len(may) - len(must)))
    if may - must:
        col.count("verdicts-with-MAY")

    def bad(clause: str, what: str, text: str) -> None:
        col.violation((clause, what), {
            "spec": model.get("spec"), "layer": model, "message": M, "request": request, "api": api,
            "must": sorted(must), "may": sorted(may), "observed": o.brief() if not o.ok else
            [(m.service.short_name, m.coding_object.short_name if m.coding_object else None,
              m.param_dict) for m in o.value], "problem": text})

    if not o.ok:
        if o.exc_family != "DecodeError":
            bad("not-a-decode-error", o.exc_type, f"{o.exc_type}: {o.exc}")
        elif must:
            shapes = sorted({shape_of(ll, by_rq[s["request"]]) for s in model["services"] if s["name"] in must})
            bad("must-service-missing", "decode-error-raised/" + shapes[0],
                f"DecodeError although {sorted(must)} match: {o.exc}")
        return
    reported = [(m.service.short_name, m.coding_object.short_name if m.coding_object is not None else None)
                for m in o.value]
    names = {s for s, _ in reported}
    if len(set(reported)) != len(reported):
        dup = [x for x in set(reported) if reported.count(x) > 1][0]
        bad("reported-twice", "pair", f"{dup} appears {reported.count(dup)} times")
        return
    missing = must - names
    if missing:
        shapes = sorted({shape_of(ll, by_rq[s["request"]]) for s in model["services"] if s["name"] in missing})
        bad("must-service-missing", shapes[0], f"{sorted(missing)} match M but are not reported")
        return
    extra = names - may
    if extra:
        bad("non-matching-service-reported", "service", f"{sorted(extra)} cannot match M")
        return
    for m in o.value:
        key = (m.service.short_name, m.coding_object.short_name if m.coding_object is not None else None)
        if key in must_vals and must_vals[key] is not None:
            for k, v in must_vals[key].items():
                if k not in m.param_dict or not refodx.values_equal(m.param_dict[k], v):
                    bad("values-differ", "param", f"{key}: {k}={m.param_dict.get(k)!r}, PDU holds {v!r}")
                    return


def run_layer(task: Tuple, col: common.Collector) -> None:
    idx, spec, tier, wseed = task
    r = random.Random(wseed)
    model = build_layer(idx, [(s, list(c)) for s, c in spec], r, r.choice([0, 0, 1, 2, 3]))
    try:
        ll = codecrun.LoadedLayer(model)
    except Exception as e:
        col.violation(("description-rejected", type(e).__name__),
                      {"spec": model["spec"], "problem": f"{type(e).__name__}: {e}"})
        return
    shape_sig = "+".join(sorted(s for s, _ in spec))[:60]
    by = {o["name"]: o for o in model["dobjs"]}
    # own encodings
    own: List[Tuple[bytes, Optional[bytes], str]] = []
    svc_of = {s["request"]: s for s in model["services"]}
    for rq in model["requests"]:
        for _ in range(2):
            vals = codeccompose.good_params(rq["params"], by, r)
            k, e = codecrun.ref_encode(ll.ref, rq, vals)
            if k != "ok":
                continue
            own.append((e.pdu, None, "own-request"))
            # corollary: the layer attributes the encoded request to its service with the values
            svc = next((s for s in ll.layer.services if s.short_name == svc_of[rq["name"]]["name"]), None)
            if svc is not None:
                o = codecrun.call(ll.layer.decode, e.pdu)
                col.ev()
                if o.ok:
                    hit = [m for m in o.value if m.service is svc and m.coding_object is svc.request]
                    if not hit:
                        col.violation(("own-request-not-attributed", shape_of(ll, rq)),
                                      {"spec": model["spec"], "layer": model, "message": e.pdu,
                                       "values": vals, "observed": [(m.service.short_name) for m in o.value]})
                    elif not codecrun.requested_in(hit[0].param_dict, vals):
                        col.violation(("own-request-values-differ", rq["shape"]),
                                      {"spec": model["spec"], "layer": model, "message": e.pdu,
                                       "values": vals, "observed": hit[0].param_dict})
                elif o.exc_family == "DecodeError":
                    col.violation(("own-request-not-attributed", shape_of(ll, rq)),
                                  {"spec": model["spec"], "layer": model, "message": e.pdu,
                                   "values": vals, "observed": o.brief()})
            s = svc_of[rq["name"]]
            for rn in s["pos"] + s["neg"]:
                rm = next(m for m in model["pos"] + model["neg"] if m["name"] == rn)
                rv = codeccompose.good_params(rm["params"], by, r)
                if any(p["p"] == "NRC-CONST" for p in rm["params"]):
                    # the NRC is carried by... nothing sets it in this shape: use a listed value
                    pass
                k2, e2 = codecrun.ref_encode(ll.ref, rm, rv, e.pdu)
                if k2 == "ok":
                    pdu2 = bytearray(e2.pdu)
                    for p in rm["params"]:
                        if p["p"] == "NRC-CONST":
                            pdu2[2] = r.choice(p["values"] + [0x99])
                    own.append((bytes(pdu2), e.pdu, "own-response"))
                    own.append((bytes(pdu2), None, "own-response-as-message"))
    if model["gneg"]:
        # negative response messages for the SIDs of the layer, with listed and unlisted NRCs
        sids = sorted({M[0] for M, q, c in own if c == "own-request" and M})[:3]
        rq_of = {M[0]: M for M, q, c in own if c == "own-request" and M}
        for sid in sids + [0x10]:
            for nrc in (0x11, 0x21, 0x22, 0x31, 0x78, 0x99):
                for tail in (b"", b"\x05"):
                    M = bytes([0x7F, sid, nrc]) + tail
                    own.append((M, None, "gnr-message"))
                    if sid in rq_of:
                        own.append((M, rq_of[sid], "gnr-response"))
                    # ... and as the answer to a request of ANOTHER service (the echo differs)
                    for other in sids:
                        if other != sid and other in rq_of and nrc in (0x11, 0x31):
                            own.append((M, rq_of[other], "gnr-response-other-sid"))
        col.count("layers-with-gnr")
    if any(n["name"].endswith("w") for n in model["neg"]):
        for M0, q, c in list(own):
            if c == "own-request" and M0:
                for nrc in (0x10, 0x11, 0x31):
                    own.append((bytes([0x7F, M0[0], nrc, 0xEE]), None, "wide-neg-message"))
                    own.append((bytes([0x7F, M0[0], nrc, 0xEE]), M0, "wide-neg-response"))
    alpha = sorted({c for _, cs in spec for c in cs[:2]} | {0x00, 0x7F, 0x62})[:6]
    strings = [bytes(t) for n in range(0, 4) for t in itertools.product(alpha, repeat=n)]
    if tier == "quick" and len(strings) > 60:
        strings = r.sample(strings, 60)
    for M, rq, cls in own:
        judge(col, ll, model, M, rq, cls, shape_sig)
        for mut in (M[:-1], M + b"\x00", M[:1] + bytes([(M[1] + 1) & 0xFF]) + M[2:] if len(M) > 1 else M):
            judge(col, ll, model, mut, rq, cls + "-mutated", shape_sig)
    for M in strings:
        judge(col, ll, model, M, None, "alphabet", shape_sig)
    if own:
        rq0 = next((m for m, q, c in own if c == "own-request"), None)
        if rq0 is not None:
            for M in strings[::4]:
                judge(col, ll, model, M, rq0, "alphabet-response", shape_sig)
    # service groups
    groups = codecrun.call(lambda: ll.layer.service_groups)
    if groups.ok:
        for b in range(256):
            want = {s["name"] for s in model["services"]
                    if first_const_byte(next(m for m in model["requests"] if m["name"] == s["request"])) == b}
            if not want and b not in alpha:
                continue
            got = codecrun.call(lambda: {x.short_name for x in groups.value[b]})
            col.ev()
            if not got.ok:
                col.violation(("service-groups-raises", got.exc_type), {"spec": model["spec"], "sid": b})
            elif got.value != want:
                shapes = sorted({next(m for m in model["requests"] if m["name"] == s["request"])["shape"]
                                 for s in model["services"] if s["name"] in (got.value ^ want)})
                col.violation(("service-group-wrong", shapes[0] if shapes else "?"),
                              {"spec": model["spec"], "layer": model, "sid": b, "expected": sorted(want),
                               "observed": sorted(got.value)})
        col.count("service-groups-checked")
    col.count("layers")
    if idx % 50 == 0:
        col.sample({"spec": model["spec"], "messages": len(own) + len(strings),
                    "example": own[0][0].hex() if own else ""}, limit=5)


def run_prefixless(task: Tuple, col: common.Collector) -> None:
    """Responses without a constant prefix (the SID constant is listed after a value parameter,
    or the response starts with the echo of a non-constant request byte) can only be found
    through the request that triggered them - the one clause judged here: decode_response(own
    response, own request) reports the service with the response's values."""
    idx, wseed = task
    r = random.Random(wseed)
    rqs, prs, svcs = [], [], []
    for k in range(r.randrange(2, 5)):
        sid = r.choice([0x22, 0x2E, 0x31]) if k else 0x22
        shape = r.choice(["cv", "cvv", "ccv"])
        rq = build_request(f"rq{k}", shape, [sid, 0x10 + k, 0x90])
        rqs.append(rq)
        if r.random() < 0.5:
            pr = {"name": f"pr{k}", "for": rq["name"], "shape": "pos-sid-listed-late",
                  "feat": {"shape": "pos"},
                  "params": [p_value("first_listed", "u8", byte=1),
                             u8const("rsid", (sid + 0x40) & 0xFF, byte=0), p_value("r1", "u16", byte=2)]}
        else:
            pos = 1 if shape != "ccv" else 2
            pr = {"name": f"pr{k}", "for": rq["name"], "shape": "pos-echo-first",
                  "feat": {"shape": "pos"},
                  "params": [{"p": "MATCHING-REQUEST-PARAM", "name": "echo", "req_pos": pos, "len": 1},
                             u8const("rsid", (sid + 0x40) & 0xFF), p_value("r0", "u8")]}
        prs.append(pr)
        svcs.append({"name": f"svc{k}", "request": rq["name"], "pos": [pr["name"]], "neg": []})
    model = {"kind": "BASE-VARIANT", "name": f"P{idx}", "dobjs": [dict(d) for d in POOL],
             "requests": rqs, "pos": prs, "neg": [], "gneg": [], "services": svcs}
    try:
        ll = codecrun.LoadedLayer(model)
    except Exception as e:
        col.fail_inconclusive(f"layer with prefix-less responses does not load: {e}")
        return
    by = {o["name"]: o for o in model["dobjs"]}
    for s in svcs:
        rq = next(m for m in rqs if m["name"] == s["request"])
        pr = next(m for m in prs if m["name"] == s["pos"][0])
        for _ in range(4):
            k1, e1 = codecrun.ref_encode(ll.ref, rq, codeccompose.good_params(rq["params"], by, r))
            if k1 != "ok":
                continue
            vals = codeccompose.good_params(pr["params"], by, r)
            k2, e2 = codecrun.ref_encode(ll.ref, pr, vals, e1.pdu)
            if k2 != "ok":
                continue
            if codecrun.ref_decode(ll.ref, rq, e2.pdu)[0] == "ok":
                # the response bytes happen to read as a request of the same service as well:
                # ambiguous within the service (see the assumption on intra-service ambiguity)
                col.count("prefixless-ambiguous-skipped")
                continue
            o = codecrun.call(ll.layer.decode_response, e2.pdu, e1.pdu)
            col.ev()
            col.count("prefixless-responses")
            col.nontrivial(("prefixless", pr["shape"], rq["shape"], len(svcs)))
            det = {"layer": model, "message": e2.pdu, "request": e1.pdu, "service": s["name"],
                   "values": vals}
            if not o.ok:
                col.violation(("response-not-found-through-request", pr["shape"]),
                              dict(det, observed=o.brief()))
                continue
            hit = [m for m in o.value if m.service.short_name == s["name"] and
                   m.coding_object is not None and m.coding_object.short_name == pr["name"]]
            if not hit:
                col.violation(("response-not-found-through-request", pr["shape"]),
                              dict(det, observed=[(m.service.short_name,
                                                   getattr(m.coding_object, "short_name", None))
                                                  for m in o.value]))
            elif not codecrun.requested_in(hit[0].param_dict, vals):
                col.violation(("response-values-differ", pr["shape"]),
                              dict(det, observed=hit[0].param_dict))


def run(tier: str, col: common.Collector) -> None:
    r = random.Random(common.seed() * 7 + 1)
    specs = gen_specs(tier, r)
    tasks = [(i, s, tier, common.seed() * 1009 + i) for i, s in enumerate(specs)]
    common.pmap(run_layer, tasks, col)
    common.pmap(run_prefixless, [(i, common.seed() * 77 + i) for i in range(60 if tier == "quick" else 2000)],
                col)
    if not col.counters.get("prefixless-responses"):
        col.fail_inconclusive("monitor counter prefixless-responses stayed at zero")
    col.notes["service_sets"] = len(specs)
    for need in ("layers", "service-groups-checked", "verdicts-with-MAY"):
        if not col.counters.get(need):
            col.fail_inconclusive(f"monitor counter {need} stayed at zero")


def replay(w: Dict[str, Any], col: common.Collector) -> None:
    model = w.get("layer")
    if not isinstance(model, dict) or "message" not in w:
        col.fail_inconclusive("witness without layer model")
        return
    ll = codecrun.LoadedLayer(model)
    judge(col, ll, model, w["message"], w.get("request"), "replay", "replay")
