"""C04 - the encoder never silently emits a PDU that misrepresents its input.

Events: (description, ANY values) -> PDU or exception of Request.encode / Response.encode.
Oracle: outcome must be (a) an exception of odxtools' own OdxError family, or (b) a PDU whose
decoding BY THE REFERENCE INTERPRETER yields the requested values. Foreign exception types and
PDUs that read back differently are violations.
"""
from __future__ import annotations

import json
import random
from typing import Any, Dict, List, Optional, Tuple

from .. import codeccompose, codecgen, codecrun, common, refodx
from .c02 import used_dobjs

PROPERTY = "C04"
LEVEL = "exploration"
RULE = ("grid and composed descriptions (see C02) x hostile value assignments: integers "
        "exhaustively from -2^n-1 to 2^(n+1) for small n and around every representability "
        "boundary otherwise, strings / byte fields of length 0, n-1, n, n+1 and with "
        "unencodable characters or embedded terminators, wrongly typed values from a fixed "
        "pool, missing required and unknown parameters at every nesting level, wrong container "
        "shapes. Distinct+non-trivial = distinct (grid cell or layout shape, value class, "
        "reference verdict) that was judged")
MIN_EVALS = {"quick": 30000, "thorough": 400000}
ASSUMPTIONS = [
    "vf/refodx.py decides what a PDU means; plain OdxError counts as the library's own error "
    "type (the statement only forbids foreign exception types)",
    "scaled numeric values are compared after the quantisation the description prescribes",
]


def judge_case(col: common.Collector, ll: codecrun.LoadedLayer, msg: Dict[str, Any], obj: Any,
               values: Dict[str, Any], request: Optional[bytes], cell: str, nt: Any) -> None:
    o = codecrun.encode(obj, values, request)
    kind, enc = codecrun.ref_encode(ll.ref, msg, values, request)
    refcls = "representable" if kind == "ok" else (enc if kind == "unrepresentable" else "unknown")
    col.ev()
    col.count("ref-verdict:" + refcls.split(" ")[0][:30])

    def bad(clause: str, sig_extra: Tuple, text: str, **extra: Any) -> None:
        d = {"layer": ll.model["name"], "message": msg, "dobjs": used_dobjs(ll.model, msg),
             "values": values, "request": request, "observed": o.brief(),
             "reference_verdict": refcls, "problem": text}
        d.update(extra)
        col.violation((clause,) + sig_extra, d)

    composite = not cell.startswith(("STD", "MINMAX", "LEAD", "PLEN"))
    where = "composite" if composite else cell
    if not o.ok:
        if o.exc_family == "foreign":
            bad("foreign-exception", (o.exc_type, refcls, where),
                f"{o.exc_type}: {o.exc} for {refcls} input")
        else:
            col.count("rejected-with:" + o.exc_family)
            if kind == "ok":
                col.count("rejected-although-representable")
        col.nontrivial((cell, nt, refcls, "raised"))
        return
    if o.overlap_warnings:
        # the description makes two parameters share bits and the encoder said so: whatever
        # is lost is not lost *silently*
        col.count("not-judged:overlap-warning-issued")
        return
    # a PDU was produced: the reference must read the requested values back from it
    k2, dec = codecrun.ref_decode(ll.ref, msg, o.value, request)
    if k2 == "skip" or kind == "skip":
        col.count("not-judged:skip")
        return
    if k2 == "mismatch-nrc":
        # which NRC values a negative response admits is a matching question (C06); a VALUE
        # parameter laid over the NRC-CONST may carry any byte as far as this property goes
        col.count("not-judged:nrc-const-overlaid")
        return
    col.nontrivial((cell, nt, refcls, "pdu"))
    if k2 != "ok":
        bad("pdu-not-decodable", (k2, refcls, where), f"reference cannot decode {o.value.hex()}: {dec}")
        return
    if kind == "ok" and o.value == enc.pdu:
        return  # byte-identical with the reference's own encoding of the request
    if refcls == "wrong-type":
        # python's bool is an int: the library takes True for the integer 1.  If the PDU is the
        # one the reference builds for the assignment with the booleans read as integers,
        # nothing was misrepresented beyond the quantisation the description prescribes
        k_b, enc_b = codecrun.ref_encode(ll.ref, msg, _debool(values), request)
        if k_b == "ok" and o.value == enc_b.pdu:
            col.count("bool-taken-as-integer")
            return
    expected: Any = values
    if kind == "ok":
        # quantisation: what the description prescribes is the reference's reading of its
        # own PDU (float32 rounding, scaled compu methods), restricted to the supplied keys
        k3, rd = codecrun.ref_decode(ll.ref, msg, enc.pdu, request)
        if k3 == "ok":
            expected = _restrict(rd[0], values)
    if not codecrun.requested_in(dec[0], expected):
        off = codecrun.offender(ll.ref, msg, dec[0], expected)
        mech = refcls
        if off.endswith("/mask") and refcls in ("bits-outside-mask", "negative-unsigned",
                                               "out-of-range", "wrong-type"):
            mech = "masked-bits-dropped"  # one mechanism: value & BIT-MASK without complaint
        if off.endswith("EMFIELD") and mech != "item-equals-endmarker" and \
                ll.ref.item_reads_as_endmarker(msg["params"], values):
            # the reference names the first reason it meets (e.g. a bool given for an integer,
            # which odxtools accepts as 1); what was lost is the item that reads as the marker
            mech = "item-equals-endmarker"
        bad("silent-misrepresentation", (mech, off),
            f"PDU {o.value.hex()} reads back as {dec[0]!r}", reads_back=dec[0], expected=expected)
        return
    if dec[1] != len(o.value) and kind == "ok" and len(enc.pdu) != len(o.value):
        bad("pdu-length-differs", (cell,), f"PDU {o.value.hex()} vs reference {enc.pdu.hex()}")


def judge_service_entry(col: common.Collector, ll: codecrun.LoadedLayer, msg: Dict[str, Any],
                        obj: Any, values: Dict[str, Any], request: Optional[bytes], cell: str) -> None:
    """The service-level entry points (DiagService.__call__ / encode_request /
    encode_positive_response / encode_negative_response) against the coding object's own
    encode(): same PDU, or both reject with the library's error; never a foreign exception."""
    svc = None
    for s in ll.layer.services:
        if request is None and s.request is obj:
            svc, how = s, "call"
            break
        if request is not None and any(r is obj for r in s.positive_responses):
            svc, how, idx = s, "pos", [r is obj for r in s.positive_responses].index(True)
            break
        if request is not None and any(r is obj for r in s.negative_responses):
            svc, how, idx = s, "neg", [r is obj for r in s.negative_responses].index(True)
            break
    if svc is None:
        return
    direct = codecrun.encode(obj, values, request)
    if how == "call":
        via = codecrun.call(svc, **values)
        via2 = codecrun.call(svc.encode_request, **values)
        if via.ok != via2.ok or (via.ok and bytes(via.value) != bytes(via2.value)):
            col.violation(("service-entry-differs", "__call__-vs-encode_request", cell),
                          {"message": msg, "values": values, "call": via.brief(), "encode_request": via2.brief()})
    elif how == "pos":
        via = codecrun.call(svc.encode_positive_response, request, idx, **values)
    else:
        via = codecrun.call(svc.encode_negative_response, request, idx, **values)
    col.ev()
    col.count("service-entry:" + how)
    det = {"layer": ll.model["name"], "message": msg, "dobjs": used_dobjs(ll.model, msg),
           "values": values, "request": request, "entry": how, "direct": direct.brief(),
           "via_service": via.brief()}
    if not via.ok and via.exc_family == "foreign":
        col.violation(("foreign-exception", via.exc_type, "service-entry/" + how, cell), det)
    elif via.ok != direct.ok:
        col.violation(("service-entry-differs", how, "accepts" if via.ok else "rejects", cell), det)
    elif via.ok and bytes(via.value) != bytes(direct.value):
        col.violation(("service-entry-differs", how, "pdu", cell), det)


def _debool(x: Any) -> Any:
    if isinstance(x, bool):
        return int(x)
    if isinstance(x, dict):
        return {k: _debool(v) for k, v in x.items()}
    if isinstance(x, tuple):
        return tuple(_debool(v) for v in x)
    if isinstance(x, list):
        return [_debool(v) for v in x]
    return x


def _restrict(decoded: Any, requested: Any) -> Any:
    """The part of `decoded` that corresponds to keys the caller supplied."""
    if isinstance(requested, dict) and isinstance(decoded, dict):
        return {k: _restrict(decoded[k], v) for k, v in requested.items()
                if v is not None and k in decoded}
    if isinstance(requested, (list, tuple)) and isinstance(decoded, (list, tuple)) and \
            len(requested) == len(decoded) and not isinstance(requested, (bytes, bytearray)):
        return [_restrict(d, r) for d, r in zip(decoded, requested)]
    return decoded


def mutate_assignment(vals: Dict[str, Any], r: random.Random) -> List[Tuple[str, Dict[str, Any]]]:
    """Hostile variants of a valid nested assignment: (mutation kind, assignment)."""
    out: List[Tuple[str, Dict[str, Any]]] = []
    paths: List[Tuple] = []

    def walk(v: Any, path: Tuple) -> None:
        paths.append(path)
        if isinstance(v, dict):
            for k, x in v.items():
                walk(x, path + (k,))
        elif isinstance(v, (list, tuple)) and not isinstance(v, (bytes, bytearray)):
            for i, x in enumerate(v):
                walk(x, path + (i,))

    walk(vals, ())

    def setp(root: Any, path: Tuple, fn: Any) -> Any:
        if not path:
            return fn(root)
        k = path[0]
        if isinstance(root, dict):
            c = dict(root)
            c[k] = setp(root[k], path[1:], fn)
            return c
        c2 = list(root)
        c2[k] = setp(root[k], path[1:], fn)
        return tuple(c2) if isinstance(root, tuple) else c2

    def delp(root: Any, path: Tuple) -> Any:
        k = path[0]
        if len(path) == 1:
            if isinstance(root, dict):
                c = dict(root)
                del c[k]
                return c
            c2 = list(root)
            del c2[k]
            return tuple(c2) if isinstance(root, tuple) else c2
        return setp(root, path[:1], lambda x: delp(x, path[1:]))

    for path in paths[1:]:
        out.append(("missing", delp(vals, path)))
        for w in r.sample(codecgen.WRONG_POOL, 3):
            out.append(("wrong-type", setp(vals, path, lambda _x, w=w: w)))
        # a number may always turn out not to be one
        cur: Any = vals
        for k in path:
            cur = cur[k]
        if isinstance(cur, (int, float)) and not isinstance(cur, bool):
            out.append(("non-finite", setp(vals, path, lambda _x, w=r.choice(codecgen.NON_FINITE): w)))
    for path in paths:
        # unknown parameter inside every dict
        def add_unknown(x: Any) -> Any:
            if isinstance(x, dict):
                c = dict(x)
                c["no_such_param"] = 1
                return c
            return x
        out.append(("unknown-param", setp(vals, path, add_unknown)))
        # wrong number of items in lists
        def extend(x: Any) -> Any:
            if isinstance(x, list):
                return x + x[:1] if x else [{}]
            return x
        out.append(("list-length", setp(vals, path, extend)))
    # boundary scalars
    for path in paths[1:]:
        def bump(x: Any) -> Any:
            if isinstance(x, bool):
                return x
            if isinstance(x, int):
                return r.choice([x + (1 << k) for k in (7, 8, 12, 15, 16, 24, 32, 64)] +
                                [-x - 1, -(1 << 15) - 1, 10 ** 5])
            if isinstance(x, float):
                return r.choice([1e39, -1e39, 1e308, float(2 ** 70)])
            if isinstance(x, str):
                return r.choice([x + "x", x[:-1], x + "\x00", "é" + x[1:], x + "語", "\x00" + x[1:],
                                 x[:1] + "\x00" + x[2:], "\xff" * max(1, len(x))])
            if isinstance(x, (bytes, bytearray)):
                return r.choice([bytes(x) + b"\x01", bytes(x)[:-1], b"\x00" + bytes(x)[1:],
                                 bytes(x)[:1] + b"\xff" + bytes(x)[2:], b"\xff" * max(1, len(x)),
                                 b"\x00" * max(1, len(x))])
            return x
        out.append(("boundary", setp(vals, path, bump)))
    return out


def run_layer(task: Tuple, col: common.Collector) -> None:
    mode, model, tier, wseed = task
    r = random.Random(wseed)
    try:
        ll = codecrun.LoadedLayer(model)
    except Exception as e:
        col.fail_inconclusive(f"generated layer {model['name']} does not load: {type(e).__name__}: {e}")
        return
    dobjs = {o["name"]: o for o in model["dobjs"]}
    for rq in model["requests"]:
        obj = ll.requests.get(rq["name"])
        if obj is None:
            continue
        if mode == "grid":
            cell = codecrun.coarse_cell(rq["feat"])
            for vals in codecgen.assignments_for(rq, dobjs, tier, r, hostile=True):
                v = vals.get("x", vals.get("st"))
                if isinstance(v, dict):
                    v = v.get("x")
                judge_case(col, ll, rq, obj, vals, None, cell,
                           (rq["feat"].get("bits"), rq["feat"].get("bitpos"),
                            rq["feat"].get("shape"), codecrun.vclass(v)))
            col.count("cell:" + str(rq["feat"].get("dct")))
        else:
            cell = "compose:" + rq.get("shape", "?")
            base = codeccompose.assignments(rq, model, r, n=2 if tier == "quick" else 5)
            for bi, vals in enumerate(base):
                judge_case(col, ll, rq, obj, vals, None, cell, (rq["name"], "valid", bi))
                judge_service_entry(col, ll, rq, obj, vals, None, cell)
                muts = mutate_assignment(vals, r)
                if tier == "quick" and len(muts) > 40:
                    muts = r.sample(muts, 40)
                for mi, (mk, mv) in enumerate(muts):
                    if not isinstance(mv, dict):
                        continue
                    judge_case(col, ll, rq, obj, mv, None, cell, (rq["name"], mk, mi % 7))
                    if mi % 3 == 0 or mk in ("missing", "unknown-param"):
                        judge_service_entry(col, ll, rq, obj, mv, None, cell)
                    col.count("mutation:" + mk)
            col.count("cell:compose")
        for pr in model["pos"] + model["neg"]:
            if pr.get("for") != rq["name"]:
                continue
            pobj = ll.pos.get(pr["name"]) or ll.neg.get(pr["name"])
            if pobj is None:
                continue
            # (requests that end before, inside and after the bytes a response may echo)
            for req_pdu in (bytes([0x22, 1, 2, 3, 4, 5]), b"", b"\x22", bytes([0x22, 0xF1]),
                            bytes([0x22, 0xF1, 0x90]), None):
                if mode == "grid":
                    va = codecgen.assignments_for(pr, dobjs, tier, r, hostile=True)[:6]
                else:
                    va = codeccompose.assignments(pr, model, r, n=2)
                for vals in va:
                    if req_pdu is None:
                        o = codecrun.call(pobj.encode, **vals)
                        col.ev()
                        if not o.ok and o.exc_family == "foreign":
                            col.violation(("foreign-exception", o.exc_type, "response-without-request"),
                                          {"message": pr, "values": vals, "observed": o.brief()})
                        continue
                    judge_case(col, ll, pr, pobj, vals, req_pdu, "response/" + str(len(req_pdu)),
                               (pr["name"], len(req_pdu)))
                    judge_service_entry(col, ll, pr, pobj, vals, req_pdu, "response/" + str(len(req_pdu)))
    if model["requests"]:
        rq = model["requests"][len(model["requests"]) // 2]
        col.sample({"mode": mode, "layer": model["name"], "message": rq["name"],
                    "features": rq.get("feat")}, limit=4)


def run(tier: str, col: common.Collector) -> None:
    seed = common.seed()
    tasks: List[Tuple] = []
    for i, m in enumerate(codecgen.grid_layers(tier, seed, per_layer=60)):
        tasks.append(("grid", m, tier, seed * 100003 + i))
    for i, m in enumerate(codeccompose.layers(tier, seed)):
        tasks.append(("compose", m, tier, seed * 100019 + i))
    common.pmap(run_layer, tasks, col)
    for need in ("cell:STD", "cell:MINMAX", "cell:LEAD", "cell:compose", "mutation:missing",
                 "mutation:wrong-type", "mutation:unknown-param", "ref-verdict:out-of-range",
                 "service-entry:call", "service-entry:pos", "service-entry:neg",
                 "ref-verdict:wrong-type"):
        if not col.counters.get(need):
            col.fail_inconclusive(f"feature cell {need} never evaluated")


def replay(w: Dict[str, Any], col: common.Collector) -> None:
    msg = w["message"]
    is_resp = w.get("request") is not None
    model: Dict[str, Any] = {"kind": "BASE-VARIANT", "name": "replay", "dobjs": w.get("dobjs", []),
                             "neg": [], "gneg": []}
    if is_resp:
        model["requests"] = [{"name": "rq_dummy", "params": [codecgen.u8const("sid", 0x22)]}]
        model["pos"] = [msg]
        model["services"] = [{"name": "svc", "request": "rq_dummy", "pos": [msg["name"]], "neg": []}]
    else:
        model["requests"] = [msg]
        model["pos"] = []
        model["services"] = [{"name": "svc", "request": msg["name"], "pos": [], "neg": []}]
    ll = codecrun.LoadedLayer(model)
    obj = (ll.pos if is_resp else ll.requests)[msg["name"]]
    judge_case(col, ll, msg, obj, w["values"], w.get("request"), "replay", "replay")
