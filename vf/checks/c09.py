"""C09 - a layer sees exactly the objects ODX value inheritance prescribes.

Events (public API, after db.refresh()): for every layer and every inheritable view the multiset
of (short_name, LONG-NAME marker of the defining layer); the exception raised by loading, if
any; layer.decode() of the request of every visible (and of every hidden) service.
Oracle: refinherit.resolve() - an independent model of the ODX value-inheritance rule - plus
the metamorphic parent-isolation relation (views of a layer in the database without its
descendants == its views in the full database).
"""
from __future__ import annotations

import copy
import json
import random
from typing import Any, Dict, List, Optional, Sequence, Set, Tuple

from .. import common
from .. import layergen as lg
from .. import refinherit as ri

PROPERTY = "C09"
LEVEL = "exploration"
RULE = ("hierarchy shapes: every multiset of <= 4 layers over {PROTOCOL, FUNCTIONAL-GROUP, "
        "BASE-VARIANT, ECU-VARIANT, ECU-SHARED-DATA} x every assignment of parent subsets "
        "(parents of strictly lower rank, plus any ECU-SHARED-DATA; single, multiple, diamonds) "
        "[quick: all <= 3 layers several times, every 4-layer shape once; thorough: every shape "
        "many times], + random hierarchies of 5..7 layers in 1..3 containers.  Into each layer "
        "0..2 objects per category (services, single-ECU jobs, DOPs, DTC-DOPs, structures, "
        "static / dynamic-length / dynamic-endmarker / end-of-pdu fields, muxes, env-datas, "
        "env-data-descs, tables, global negative responses, functional classes, state charts, "
        "additional audiences, unit groups, diag variables) with names from a 3-name alphabet "
        "per namespace, objects marked in LONG-NAME by defining layer (or as content-identical "
        "twins); random NOT-INHERITED-DIAG-COMMS/-DOPS/-TABLES/-GLOBAL-NEG-RESPONSES/-VARIABLES "
        "subsets per PARENT-REF (names of the own and of foreign exclusion classes); "
        "equal-priority clashes are repaired by exclusion / local override / removal, except in "
        "about a third of the clashing databases where exactly one is kept.  Distinct = distinct "
        "description; non-trivial = at least one inherited, excluded or clashing object")
MIN_EVALS = {"quick": 500000, "thorough": 8000000}
ASSUMPTIONS = [
    "parent priority ECU-SHARED-DATA > ECU-VARIANT > BASE-VARIANT > FUNCTIONAL-GROUP > PROTOCOL, "
    "taken from the direct parent an object is inherited through",
    "two distinct definitions with identical content (only the ODX ID differs) at equal "
    "priority: the standard does not say whether this is a clash; both raising and silently "
    "picking either are accepted",
    "DOP-BASE kinds (DOP, DTC-DOP, structure, fields, mux, env-data...) use disjoint short names, "
    "so whether they share one override namespace (standard) or one per list (odxtools) is "
    "not judged",
    "any exception type counts as 'clash reported'",
    "PROTOCOL layers have no diag-variable view (ODX has no DIAG-VARIABLES there); whether the "
    "diag variables of an ECU-SHARED-DATA pass through a PROTOCOL to its children is left open "
    "(such hierarchies are not generated)",
]

# (two of the three names are valid short names that a Python attribute cannot carry as they
# are - the name of a list method and a name with a leading digit: short names are what value
# inheritance goes by, whatever a container makes of them as keys)
ALPHA3 = ["a", "count", "1c"]
ALPHABET: Dict[str, List[str]] = {
    "service": ALPHA3, "job": ALPHA3, "dop": ALPHA3, "table": ALPHA3, "gnr": ALPHA3,
    "funct_class": ALPHA3, "state_chart": ALPHA3, "audience": ALPHA3, "unit_group": ALPHA3,
    "diag_variable": ALPHA3,
    "dtc_dop": ["dtc_a", "dtc_b"], "structure": ["st_a", "st_b"], "static_field": ["sf_a", "sf_b"],
    "dyn_length_field": ["dlf_a", "dlf_b"], "dyn_endmarker_field": ["demf_a", "demf_b"],
    "eopdu_field": ["eopf_a", "eopf_b"], "mux": ["mux_a", "mux_b"], "env_data": ["ed_a", "ed_b"],
    "env_data_desc": ["edd_a", "edd_b"],
}
ALPHABET["variable_group"] = ALPHA3

# The category alphabet is fixed except for VARIABLE-GROUPs: the tree under test may be unable
# to load that element at all (reported separately by probe_variable_groups()); the category
# only takes part in the generated hierarchies when the probe loads.
CATS_USED: List[str] = []
CATS: Dict[str, Tuple[str, Optional[str]]] = {}
PRIMARY_NS: List[str] = []
VIEW_NS: Dict[str, Tuple[str, Optional[Set[str]]]] = {}
VIEWS_USED: List[str] = []
NOT_APPLICABLE = {"PROTOCOL": {"diag_variables", "variable_groups"}}
_CONFIGURED: Dict[str, Any] = {}


def probe_hier() -> Dict[str, Any]:
    h = lg.shape_to_hier([("ECU-SHARED-DATA", []), ("BASE-VARIANT", [0])])
    h["layers"][0]["objects"].append({"cat": "variable_group", "name": "a", "twin": False})
    return h


def probe_variable_groups() -> Optional[BaseException]:
    return _try_load(probe_hier())[1]


def configure(with_vg: Optional[bool] = None) -> None:
    if _CONFIGURED and with_vg is None:
        return
    if with_vg is None:
        with_vg = probe_variable_groups() is None
    _CONFIGURED["with_vg"] = with_vg
    CATS_USED[:] = [c for c in lg.CATS if with_vg or c not in lg.UNLOADABLE_CATS]
    CATS.clear()
    CATS.update({c: lg.CATS[c] for c in CATS_USED})
    PRIMARY_NS[:] = sorted(set(ns for ns, _ in CATS.values()))
    VIEW_NS.clear()
    VIEW_NS.update({"services": ("diag_comms", {"service"}),
                    "diag_services": ("diag_comms", {"service"}),
                    "single_ecu_jobs": ("diag_comms", {"job"})})
    for ns in PRIMARY_NS:  # the primary view of a namespace carries the namespace's name
        VIEW_NS[ns] = (ns, None)
    VIEWS_USED[:] = [v for v in lg.VIEWS if v in VIEW_NS]


def resolve(h: Dict[str, Any], **kw: Any) -> ri.Resolution:
    return ri.resolve(h, CATS, not_applicable=NOT_APPLICABLE, **kw)


PARENT_KIND_PAIRS = ["FUNCTIONAL-GROUP-vs-PROTOCOL", "BASE-VARIANT-vs-PROTOCOL",
                     "BASE-VARIANT-vs-FUNCTIONAL-GROUP", "ECU-SHARED-DATA-vs-PROTOCOL",
                     "ECU-SHARED-DATA-vs-FUNCTIONAL-GROUP", "ECU-SHARED-DATA-vs-BASE-VARIANT"]
REQUIRED_REL = ["local-only", "local-overrides", "single-parent", "same-object-multi-path",
                "priority", "clash", "clash-settled-by-local", "clash-settled-by-higher-priority"]


# ---------------------------------------------------------------------------
# generation


def random_shape(r: random.Random, n: int) -> List[Tuple[str, List[int]]]:
    kinds = sorted((r.choice(lg.KINDS) for _ in range(n)), key=lg.KINDS.index)
    shape = []
    for i, k in enumerate(kinds):
        cand = [j for j, pk in enumerate(kinds) if j != i and lg.allowed_parent(k, pk)]
        r.shuffle(cand)
        parents = [j for j in cand if r.random() < 0.55][:3]
        shape.append((k, parents))
    return shape


def populate(r: random.Random, shape: Sequence[Tuple[str, Sequence[int]]]) -> Dict[str, Any]:
    """Shape -> full description (objects, exclusions, containers, repaired clashes)."""
    ncont = r.choice([1, 1, 2, 3]) if len(shape) > 1 else 1
    h = lg.shape_to_hier(shape, 1)
    h["containers"] = [f"C{i}" for i in range(ncont)]
    for l in h["layers"]:
        l["container"] = r.randrange(ncont)
        r.shuffle(l["parents"])
        for p in l["parents"]:
            p["docref"] = r.random() < 0.5
    # active namespaces of this database (keeps documents small, spreads coverage)
    k = r.choice([3, 5, 7, len(PRIMARY_NS)])
    active = set(r.sample(PRIMARY_NS, min(k, len(PRIMARY_NS))))
    twin_p = r.choice([0.0, 0.0, 0.15, 0.4])
    dens = r.choice([[0, 1, 1, 2], [0, 0, 1], [1, 1, 2]])
    names_used: Set[str] = set()
    for l in h["layers"]:
        for ns in sorted(active):
            cats = [c for c in CATS_USED if CATS[c][0] == ns]
            if l["kind"] == "PROTOCOL":
                cats = [c for c in cats if c not in lg.NOT_IN_PROTOCOL]
            if not cats:
                continue
            alpha = ALPHABET[cats[0]]
            for name in r.sample(alpha, min(r.choice(dens), len(alpha))):
                l["objects"].append({"cat": r.choice(cats), "name": name,
                                     "twin": r.random() < twin_p})
                names_used.add(name)
    # diag variables do not exist in a PROTOCOL; whether those of an ECU-SHARED-DATA parent
    # pass *through* a PROTOCOL to its children is not settled by the standard -> not generated
    by_name = {l["name"]: l for l in h["layers"]}
    for l in h["layers"]:
        if l["kind"] == "PROTOCOL":
            for p in l["parents"]:
                pl = by_name[p["layer"]]
                pl["objects"] = [o for o in pl["objects"] if o["cat"] not in lg.NOT_IN_PROTOCOL]
    # diagnostic communications taken over by reference (DIAG-COMM-REF): a job defined in one
    # library is a local object of every layer that refers to it - of other libraries too
    if "diag_comms" in active and r.random() < 0.5:
        providers = [(l["name"], o) for l in h["layers"] if l["kind"] == "ECU-SHARED-DATA"
                     for o in l["objects"] if o["cat"] == "job" and not o.get("twin")]
        for l in h["layers"]:
            if not providers or r.random() < 0.5:
                continue
            pn, po = r.choice(providers)
            taken = {o["name"] for o in l["objects"] if CATS[o["cat"]][0] == "diag_comms"}
            if pn != l["name"] and po["name"] not in taken:
                l["objects"].append({"cat": "job", "name": po["name"], "twin": False, "ref": pn})
    lg.add_helpers(h)
    pool = sorted(names_used) or ["a"]
    excl_p = r.choice([0.0, 0.2, 0.5])
    for l in h["layers"]:
        for p in l["parents"]:
            for ex in lg.EXCLUSION_CLASSES:
                if r.random() < excl_p:
                    p["ni"][ex] = sorted(set(r.choice(pool) for _ in range(r.choice([1, 1, 2]))))
    keep = r.random() < 0.35
    repair(r, h, keep)
    return h


def repair(r: random.Random, h: Dict[str, Any], keep_one: bool) -> None:
    """Remove hard clashes (all, or all but one) by exclusion, local override or removal."""
    by_name = {l["name"]: l for l in h["layers"]}
    kept: Optional[Tuple[str, str, str]] = None
    for _ in range(200):
        res = resolve(h)
        hard = res.hard_clashes
        if keep_one and kept is None and hard:
            c = r.choice(hard)
            kept = (c.layer, c.ns, c.name)
        todo = [c for c in hard if (c.layer, c.ns, c.name) != kept]
        if not todo:
            return
        c = todo[0]
        layer = by_name[c.layer]
        ex = lg.NS_EXCLUSION[c.ns]
        contenders = list(c.parents)
        r.shuffle(contenders)
        cat = res.views[contenders[0]][c.ns][c.name].cat
        options = ["remove"]
        if ex is not None:
            options += ["exclude", "exclude"]
        if not (layer["kind"] == "PROTOCOL" and cat in lg.NOT_IN_PROTOCOL):
            options += ["override"]
        how = r.choice(options)
        if how == "exclude":
            for pn in contenders[1:]:
                for p in layer["parents"]:
                    if p["layer"] == pn and c.name not in p["ni"][ex]:
                        p["ni"][ex] = sorted(p["ni"][ex] + [c.name])
        elif how == "override":
            layer["objects"].append({"cat": cat, "name": c.name, "twin": False})
            lg.add_helpers(h)
        else:
            # delete the definition(s) reaching us through all but one contender
            for pn in contenders[1:]:
                ent = res.views[pn][c.ns][c.name]
                for d in ent.definer.split("|"):
                    dl = by_name[d]
                    dl["objects"] = [o for o in dl["objects"]
                                     if not (CATS[o["cat"]][0] == c.ns and o["name"] == c.name)]
            lg.drop_dangling_refs(h)
    raise RuntimeError("repair did not converge")


# ---------------------------------------------------------------------------
# judging


def _relclass(rel: str) -> str:
    return "priority" if rel.startswith("priority:") else rel


def _try_load(h: Dict[str, Any]) -> Tuple[Any, Optional[BaseException]]:
    import warnings
    try:
        with warnings.catch_warnings():
            warnings.simplefilter("ignore")
            return lg.load(h), None
    except Exception as e:  # judged by the caller
        return None, e


def _observe(db: Any, h: Dict[str, Any]) -> Dict[str, Dict[str, Any]]:
    """Views through the public API; for the views an ECU-SHARED-DATA object does not offer at
    all the (public) raw layer is read instead and the gap is reported separately."""
    obs: Dict[str, Dict[str, Any]] = {}
    for l in h["layers"]:
        lo = db.diag_layers[l["name"]]
        o: Dict[str, Any] = {}
        for v in VIEWS_USED:
            try:
                o[v] = lg.read_view(lo, v)
            except lg.ViewUnavailable as e:
                if v in NOT_APPLICABLE.get(l["kind"], ()):
                    o[v] = None
                    continue
                o[v] = None
                o["!" + v] = str(e)
                raw = getattr(lo, "diag_layer_raw", None)
                if len(lg.VIEWS[v]) == 1 and raw is not None and hasattr(raw, lg.VIEWS[v][0]):
                    o[v] = sorted((str(x.short_name), str(x.long_name))
                                  for x in getattr(raw, lg.VIEWS[v][0]))
        obs[l["name"]] = o
    return obs


def judge(col: common.Collector, h: Dict[str, Any], isolation: str = "one",
          r: Optional[random.Random] = None) -> None:
    res = resolve(h)
    kinds = {l["name"]: l["kind"] for l in h["layers"]}
    db, exc = _try_load(h)

    def detail(**kw: Any) -> Dict[str, Any]:
        d = {"hier": h}
        d.update(kw)
        return d

    hard = res.hard_clashes
    col.ev()
    if hard:
        for c in hard:
            col.count(f"cell:{c.ns}:clash")
        if exc is None:
            for c in hard:
                col.violation(("clash-not-reported", c.ns), detail(
                    clash=list(c), problem=f"layer {c.layer} inherits unequal '{c.name}' from "
                    f"equal-priority parents {c.parents}; loading did not raise"))
        else:
            col.count("clash-reported-as:" + type(exc).__name__)
        col.nontrivial(json.dumps(h, sort_keys=True))
        return
    if exc is not None:
        if res.twin_clashes:
            col.count("twin-clash:raised")
            col.count("twin-clash-raised-as:" + type(exc).__name__)
            return
        # which would-be clashes does the rule settle in this database?
        how = set(x[3] for x in res.settled)
        if len(resolve(h, ignore_exclusions=True).hard_clashes) > 0:
            how.add("exclusion")
        col.violation(("load-raises-without-clash", type(exc).__name__,
                       "settled-by:" + ("+".join(sorted(how)) or "nothing")), detail(
            problem=f"{type(exc).__name__}: {exc}"[:600], settled=res.settled[:10]))
        return
    for x in res.settled:
        col.count(f"cell:{x[1]}:clash-settled-by-{x[3]}")
        col.count(f"clash-settled-by:{x[3]}")
    if res.settled:
        col.ev()
    if res.twin_clashes:
        col.count("twin-clash:loaded")

    obs = _observe(db, h)
    res_noex: Optional[ri.Resolution] = None
    nontrivial = False
    for l in h["layers"]:
        ln = l["name"]
        for v in VIEWS_USED:
            ns, only = VIEW_NS[v]
            got = obs[ln][v]
            if "!" + v in obs[ln]:
                col.ev()
                col.violation(("view-unavailable", v, l["kind"]), detail(
                    layer=ln, problem=obs[ln]["!" + v]))
            if got is None:
                continue
            col.ev()
            expv = {n: e for n, e in res.views[ln][ns].items() if only is None or e.cat in only}
            got_by: Dict[str, List[str]] = {}
            for n, m in got:
                got_by.setdefault(n, []).append(m)
            primary = v in PRIMARY_NS
            for n in sorted(set(expv) | set(got_by)):
                e = expv.get(n)
                ms = got_by.get(n, [])
                if e is not None and primary:
                    col.count(f"cell:{ns}:{_relclass(e.relation)}")
                    if e.relation.startswith("priority:"):
                        for lk in e.relation.split("-vs-")[1].split("+"):
                            col.count("prio:" + e.via[0] + "-vs-" + lk)
                    if not e.relation.startswith("local-only"):
                        nontrivial = True
                if len(ms) > 1:
                    col.violation(("duplicate-in-view", v), detail(
                        layer=ln, name=n, observed=ms, expected=e and e.marker))
                    continue
                if e is not None and not ms:
                    if e.relation.startswith("local"):
                        col.violation(("local-missing", v), detail(
                            layer=ln, name=n, expected=e.marker, observed=got))
                    else:
                        col.violation(("missing-inherited", v, e.relation), detail(
                            layer=ln, name=n, expected=e.marker, observed=got))
                elif e is None and ms:
                    if n in res.excluded[ln][ns]:
                        col.violation(("not-inherited-ignored", v), detail(
                            layer=ln, name=n, observed=ms[0],
                            problem="listed as NOT-INHERITED on every PARENT-REF offering it"))
                    elif only is not None and n in res.views[ln][ns]:
                        col.violation(("wrong-kind-in-view", v), detail(
                            layer=ln, name=n, observed=ms[0],
                            expected_kind=res.views[ln][ns][n].cat))
                    else:
                        col.violation(("unexpected-object", v), detail(
                            layer=ln, name=n, observed=ms[0], expected=None))
                elif e is not None and ms[0] != e.marker:
                    if e.relation.startswith("local"):
                        col.violation(("local-not-overriding", v), detail(
                            layer=ln, name=n, expected=e.marker, observed=ms[0]))
                    elif ms[0] in e.losers:
                        col.violation(("wrong-winner", v, e.relation.replace("priority:", "")),
                                      detail(layer=ln, name=n, expected=e.marker, observed=ms[0]))
                    else:
                        if res_noex is None:
                            res_noex = resolve(h, ignore_exclusions=True)
                        ne = res_noex.views[ln][ns].get(n)
                        if n in res.partially_excluded[ln][ns] and ne is not None and \
                                ne.marker == ms[0]:
                            col.violation(("not-inherited-ignored", v), detail(
                                layer=ln, name=n, expected=e.marker, observed=ms[0]))
                        else:
                            col.violation(("wrong-object", v, e.relation), detail(
                                layer=ln, name=n, expected=e.marker, observed=ms[0]))
            if primary:
                for n in res.excluded[ln][ns]:
                    col.count(f"cell:{ns}:excluded")
                    nontrivial = True
                for n in res.partially_excluded[ln][ns]:
                    col.count(f"cell:{ns}:excluded-on-one-path")

    judge_decode(col, h, res, db, detail)
    if isolation != "none":
        judge_isolation(col, h, obs, isolation, r or random.Random(0), detail)
    if nontrivial:
        col.nontrivial(json.dumps(h, sort_keys=True))
        col.sample({"layers": [[l["name"], l["kind"], [p["layer"] for p in l["parents"]],
                                [f"{o['cat']}:{o['name']}" for o in l["objects"]]]
                               for l in h["layers"]]}, limit=4)


def judge_decode(col: common.Collector, h: Dict[str, Any], res: ri.Resolution, db: Any,
                 detail: Any) -> None:
    """Behavioural corollary: the encoded request of a visible service decodes to that service;
    the request of a service that is overridden / excluded / not an ancestor's is not found."""
    from odxtools.exceptions import DecodeError
    all_services = [(l["name"], o) for l in h["layers"] for o in l["objects"]
                    if o["cat"] == "service"]
    for l in h["layers"]:
        ln = l["name"]
        lo = db.diag_layers[ln]
        view = res.views[ln]["diag_comms"]
        visible_markers = set()
        for n, e in view.items():
            if e.cat != "service":
                continue
            visible_markers.add(e.marker)
            twin = e.marker.startswith("twin/")
            pdu = lg.request_bytes(h, e.definer.split("|")[0], {"name": n, "twin": twin})
            col.ev()
            col.count("decode:visible:" + _relclass(e.relation))
            try:
                msgs = lo.decode(pdu)
            except Exception as ex:
                col.violation(("decode-fails", type(ex).__name__, _relclass(e.relation)), detail(
                    layer=ln, pdu=pdu, expected=e.marker, problem=str(ex)[:300]))
                continue
            who = sorted(set((m.service.short_name, str(m.service.long_name)) for m in msgs))
            if who != [(n, e.marker)]:
                col.violation(("decode-misattributed", _relclass(e.relation)), detail(
                    layer=ln, pdu=pdu, expected=[n, e.marker], observed=who))
        for dn, o in all_services:
            m = lg.marker(dn, o)
            if m in visible_markers or o.get("twin"):
                continue
            pdu = lg.request_bytes(h, dn, o)
            col.ev()
            col.count("decode:invisible")
            try:
                msgs = lo.decode(pdu)
            except DecodeError:
                continue
            except Exception as ex:
                col.violation(("decode-invisible-crashes", type(ex).__name__), detail(
                    layer=ln, pdu=pdu, problem=str(ex)[:300]))
                continue
            who = sorted(set((mm.service.short_name, str(mm.service.long_name)) for mm in msgs))
            if who:
                col.violation(("decode-finds-invisible-service",), detail(
                    layer=ln, pdu=pdu, observed=who, service=m))


def judge_isolation(col: common.Collector, h: Dict[str, Any], obs: Dict[str, Dict[str, Any]],
                    mode: str, r: random.Random, detail: Any) -> None:
    cands = []
    for l in h["layers"]:
        d = lg.descendants(h, l["name"])
        if d:
            cands.append((l["name"], d))
    if not cands:
        return
    if mode == "one":
        cands = [r.choice(cands)]
    seen: Set[Tuple[str, ...]] = set()
    for x, d in cands:
        key = tuple(sorted(d))
        if key in seen:
            continue
        seen.add(key)
        hp = lg.prune(h, d)
        dbp, exc = _try_load(hp)
        col.ev()
        if exc is not None:
            col.violation(("pruned-load-raises", type(exc).__name__), detail(
                removed=sorted(d), problem=f"{type(exc).__name__}: {exc}"[:400]))
            continue
        obsp = _observe(dbp, hp)
        for l in hp["layers"]:
            for v in VIEWS_USED:
                col.ev()
                col.count("isolation-view-comparisons")
                if obsp[l["name"]][v] != obs[l["name"]][v]:
                    col.violation(("parent-view-altered", v), detail(
                        layer=l["name"], removed=sorted(d), with_children=obs[l["name"]][v],
                        without_children=obsp[l["name"]][v]))


# ---------------------------------------------------------------------------
# driver


def part(task: Tuple, col: common.Collector) -> None:
    kind, worker, payload, isolation, with_vg = task
    configure(with_vg)
    r = common.rng(worker, "c09/" + kind)
    if kind == "shapes":
        for shape, reps in payload:
            for _ in range(reps):
                judge(col, populate(r, shape), isolation, r)
                col.count("databases:shape-enumeration")
    else:
        for _ in range(payload):
            n = r.choice([5, 5, 6, 7])
            judge(col, populate(r, random_shape(r, n)), isolation, r)
            col.count("databases:random")


def hand_made() -> List[Dict[str, Any]]:
    """A few fixed hierarchies that guarantee the rarer matrix cells in every run."""
    res = []
    ni0 = {c: [] for c in lg.EXCLUSION_CLASSES}

    def L(i: int, kind: str, parents: List[Any], objs: List[Tuple[str, str]]) -> Dict[str, Any]:
        ps = []
        for p in parents:
            if isinstance(p, int):
                ps.append({"layer": f"L{p}", "docref": False, "ni": copy.deepcopy(ni0)})
            else:
                ps.append({"layer": f"L{p[0]}", "docref": True, "ni": dict(copy.deepcopy(ni0),
                                                                             **p[1])})
        return {"name": f"L{i}", "index": i, "kind": kind, "container": 0, "parents": ps,
                "objects": [{"cat": c, "name": n, "twin": False} for c, n in objs]}

    for cat in CATS_USED:
        a = ALPHABET[cat][0]
        b = ALPHABET[cat][1]
        ex = CATS[cat][1]
        prot_ok = cat not in lg.NOT_IN_PROTOCOL
        low = "PROTOCOL" if prot_ok else "FUNCTIONAL-GROUP"
        # single parent, multi-path, priority, override, exclusion, exclusion on one path
        exa = {ex: [a]} if ex else {}
        layers = [L(0, low, [], [(cat, a), (cat, b)]),
                  L(1, "ECU-SHARED-DATA", [], [(cat, a)]),
                  L(2, "BASE-VARIANT", [0], []),
                  L(3, "ECU-VARIANT", [0, 2, 1], [(cat, b)]),
                  L(4, "ECU-VARIANT", [0, 2], []),
                  L(5, "ECU-VARIANT", [(2, exa)], []),
                  L(6, "ECU-VARIANT", [(2, exa), 1], [])]
        res.append(lg.add_helpers({"containers": ["C0"], "layers": layers}))
        # unresolved clash between two equal-priority parents
        res.append(lg.add_helpers({"containers": ["C0"], "layers": [
            L(0, "ECU-SHARED-DATA", [], [(cat, a)]), L(1, "ECU-SHARED-DATA", [], [(cat, a)]),
            L(2, "BASE-VARIANT", [0, 1], [])]}))
    return res


def run(tier: str, col: common.Collector) -> None:
    exc = probe_variable_groups()
    col.ev()
    if exc is not None:
        col.violation(("category-unloadable", "variable_groups", type(exc).__name__), {
            "hier": probe_hier(), "probe": "variable-group",
            "problem": f"a layer holding one VARIABLE-GROUP cannot be loaded: "
                       f"{type(exc).__name__}: {exc}"[:400]})
    configure(exc is None)
    with_vg = exc is None
    col.notes["variable_groups_in_alphabet"] = with_vg
    for h in hand_made():
        judge(col, h, "all")
        col.count("databases:hand-made")
    r = random.Random(common.seed() * 7919 + 9)
    small = [s for n in (1, 2, 3) for s in lg.shapes(n)]
    four = list(lg.shapes(4))
    if tier == "quick":
        work = [(s, 2) for s in small] + [(s, 1) for s in four]
        nrand, iso = 45, "one"
    else:
        work = [(s, 40) for s in small] + [(s, 25) for s in four]
        nrand, iso = 700, "all"
    r.shuffle(work)
    n = common.NCPU * 4
    tasks: List[Tuple] = [("shapes", i, work[i::n], iso, with_vg) for i in range(n)]
    tasks += [("random", 1000 + i, nrand, iso, with_vg) for i in range(n)]
    common.pmap(part, tasks, col)
    col.notes["shapes_enumerated"] = {"<=3 layers": len(small), "4 layers": len(four)}
    col.notes["exhaustive_scope"] = "all hierarchy shapes with <= 4 layers (parent subsets x kinds)"

    # feature matrix: every required cell must have been evaluated
    missing = []
    matrix: Dict[str, Dict[str, int]] = {}
    for ns in PRIMARY_NS:
        need = list(REQUIRED_REL)
        if lg.NS_EXCLUSION[ns] is not None:
            need += ["excluded", "excluded-on-one-path"]
        matrix[ns] = {}
        for rel in need + ["twin-either"]:
            cnt = col.counters.get(f"cell:{ns}:{rel}", 0)
            matrix[ns][rel] = cnt
            if cnt == 0 and rel in need:
                missing.append(f"{ns}/{rel}")
    for pair in PARENT_KIND_PAIRS:
        if not col.counters.get("prio:" + pair):
            missing.append("priority/" + pair)
    for k in ("decode:visible:single-parent", "decode:visible:priority", "decode:invisible",
              "isolation-view-comparisons"):
        if not col.counters.get(k):
            missing.append(k)
    if not (col.counters.get("twin-clash:raised") or col.counters.get("twin-clash:loaded")):
        missing.append("twin-clash")
    col.notes["feature_matrix"] = matrix
    if missing:
        col.fail_inconclusive("feature-matrix cells never evaluated: " + ", ".join(missing[:12]))


def replay(w: Dict[str, Any], col: common.Collector) -> None:
    if w.get("probe") == "variable-group":
        exc = probe_variable_groups()
        col.ev()
        if exc is not None:
            col.violation(("category-unloadable", "variable_groups", type(exc).__name__),
                          {"hier": probe_hier(), "probe": "variable-group", "problem": str(exc)})
        return
    uses_vg = any(o["cat"] == "variable_group" for l in w["hier"]["layers"] for o in l["objects"])
    configure(True if uses_vg else None)
    judge(col, w["hier"], "all")
