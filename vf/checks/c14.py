"""C14 - variant identification picks the first matching candidate.

Events: the (use_physical_addressing, request) pairs yielded by VariantMatcher.request_loop(),
the responses the simulated ECU fed to evaluate(), has_match() / matching_variant, for
use_cache in {False, True}.
Oracle: c14gen.ref_outcome (independent byte-level decoder of the generated layouts + first
candidate / any pattern / all parameters), cache on == cache off, yielded requests are
identification requests of the candidates, no request twice with the cache.
"""
from __future__ import annotations

import itertools
import json
import os
import traceback
import warnings
from typing import Any, Dict, List, Optional, Tuple

from .. import common
from .. import c14gen as cg

PROPERTY = "C14"
LEVEL = "exploration"
RULE = ("random candidate lists: ECU variants (0-4, PARENT-REF to one base variant, 0-3 "
        "ECU-VARIANT-PATTERNs x 1-3 MATCHING-PARAMETERs, inherited / local / overriding "
        "identification services) or base variants (1-4, 0-1 BASE-VARIANT-PATTERN x 1-3 "
        "MATCHING-BASE-VARIANT-PARAMETERs, USE-PHYSICAL-ADDRESSING true/false/absent); services "
        "22 F1 xx / 1A xx with targets (SNREF / SNPATHREF) in plain params, structures, nested "
        "structures, END-OF-PDU and STATIC fields, negative and global negative responses, of 8 "
        "value types; x every ECU over the 3-answer alphabet of each request (exhaustive when "
        "<= 27 resp. 81 ECUs, random beyond), ECUs answering differently to physical and "
        "functional requests, ECUs with negative responses and garbage; x use_cache off/on. "
        "Distinct = distinct (configuration, ECU table); non-trivial = some candidate has a pattern")
MIN_EVALS = {"quick": 20000, "thorough": 600000}
ASSUMPTIONS = [
    "a response structure applies to received bytes only if its CODED-CONST parameters match and "
    "the bytes are long enough; values of a structure that does not apply are not 'decoded "
    "from the ECU's response'",
    "open clauses, every reading accepted: non-canonical numbers ('01') and lower-case hex in "
    "EXPECTED-VALUE, surplus bytes after a structure, a wrong MATCHING-REQUEST echo, whether one "
    "undecodable leaf invalidates the whole response",
    "a missing USE-PHYSICAL-ADDRESSING means physical addressing; ECU variant patterns may be "
    "asked with either addressing",
    "a field target matches if any item matches (as the code documents the rule)",
    "the ECU always answers with at least one byte",
]

REQUIRED_CELLS = [
    "cell:mode:ecu", "cell:mode:base", "cell:ref:snref", "cell:ref:snpathref",
    "cell:target-in-field", "cell:target-in:pos", "cell:target-in:neg", "cell:target-in:gnr",
    "cell:params-per-pattern:1", "cell:params-per-pattern:2", "cell:params-per-pattern:3",
    "cell:patterns-per-variant:0", "cell:patterns-per-variant:1", "cell:patterns-per-variant:2",
    "cell:patterns-per-variant:3", "cell:candidates:0", "cell:candidates:1", "cell:candidates:2",
    "cell:candidates:3", "cell:candidates:4", "cell:use-phys:None", "cell:use-phys:True",
    "cell:use-phys:False", "cell:service-shared-by-variants", "cell:distinct-services-used",
    "cell:service:base", "cell:service:local", "cell:service:overriding",
    "cell:path-depth:2", "cell:path-depth:3",
    "ecu:blind/exhaustive", "ecu:faulty", "ecu:addr/exhaustive",
    "ref:first-candidate", "ref:later-candidate", "ref:none",
    "ref:match-by-later-pattern", "run:cache-off", "run:cache-on",
    "mode-ecu:cache-off", "mode-ecu:cache-on", "mode-base:cache-off", "mode-base:cache-on",
    "snref:ecu", "snpathref:ecu", "snref:base", "snpathref:base",
] + ["cell:target-type:" + t for t in cg.LEAF] + ["cell:service-shape:" + s for s in cg.SHAPES]


# ---------------------------------------------------------------------------


def _origin(e: BaseException) -> str:
    """module.function of the innermost odxtools frame (a categorical label of the mechanism)."""
    label = "?"
    for fs in traceback.extract_tb(e.__traceback__):
        fn = fs.filename.replace("\\", "/")
        if "/odxtools/" in fn and not fn.endswith("/exceptions.py"):
            label = os.path.splitext(os.path.basename(fn))[0] + "." + fs.name
    return label


def drive(variants: List[Any], ecu: Dict[str, str], use_cache: bool) -> Dict[str, Any]:
    """Run the matcher exactly as its doc string says."""
    from odxtools.variantmatcher import VariantMatcher
    res: Dict[str, Any] = {"requests": [], "exc": None, "outcome": None}
    phase = "construct"
    try:
        m = VariantMatcher(list(variants), use_cache=use_cache)
        phase = "request_loop"
        n = 0
        for use_phys, req in m.request_loop():
            req_b = bytes(req)
            res["requests"].append((bool(use_phys), req_b))
            n += 1
            if n > 400:
                res["exc"] = ("Runaway", phase, "more than 400 requests", "harness")
                return res
            m.evaluate(cg.ecu_answer(ecu, req_b, bool(use_phys)))
        phase = "result"
        if m.has_match():
            mv = m.matching_variant
            res["outcome"] = getattr(mv, "short_name", repr(mv))
            if mv is None:
                res["exc"] = ("NoVariant", phase, "has_match() is True but matching_variant is None",
                              "variantmatcher")
        else:
            res["outcome"] = None
            if m.matching_variant is not None:
                res["exc"] = ("StaleVariant", phase,
                              "has_match() is False but matching_variant is set", "variantmatcher")
    except Exception as e:  # judged by the caller
        res["exc"] = (type(e).__name__, phase, str(e)[:300], _origin(e))
    return res


def readings_for(cfg: Dict[str, Any], ecu_class: str) -> List[cg.Reading]:
    mps = [mp for v in cfg["variants"] for p in v["patterns"] for mp in p if mp["style"] == "alt"]
    opts: Dict[str, List[bool]] = {k: [getattr(cg.Reading(), k)] for k in cg.Reading.FLAGS}
    if any(mp["ty"] in ("u8", "i8", "u16") for mp in mps):
        opts["lex_int"] = [False, True]
    if any(mp["ty"] in ("bf2", "dtc3") for mp in mps):
        opts["lex_hex"] = [False, True]
    nsvc = len(cfg["services"]) + sum(len(v.get("local", [])) for v in cfg["variants"])
    shared_req = len({s["req"] for s in cfg["services"]} |
                     {s["req"] for v in cfg["variants"] for s in v.get("local", [])}) < nsvc
    if ecu_class == "faulty" or shared_req:
        opts["trailing_ok"] = [False, True]
        opts["partial_ok"] = [False, True]
        opts["echo_strict"] = [True, False]
        opts["poison"] = [True, False]
        opts["poison_text"] = [True, False]
    keys = list(cg.Reading.FLAGS)
    return [cg.Reading(**dict(zip(keys, combo)))
            for combo in itertools.product(*[opts[k] for k in keys])]


def classify_wrong(cfg: Dict[str, Any], ecu: Dict[str, str], observed: Optional[str],
                   acceptable: List[Optional[str]], readings: List[cg.Reading]) -> str:
    # defect model: CODED-CONST mismatches do not stop a structure from "decoding" the bytes
    alt = set()
    for combo in itertools.product([False, True], repeat=len(cg.Reading.FLAGS)):
        alt.add(cg.ref_outcome(cfg, ecu, cg.Reading(consts=False,
                                                    **dict(zip(cg.Reading.FLAGS, combo)))))
    if observed in alt:
        return "const-mismatch-ignored"
    exp = acceptable[0]
    if observed is None:
        return "match-missed"
    if exp is None:
        return "spurious-match"
    order = cfg["candidates"]
    if observed in order and exp in order:
        return "first-match-order" if order.index(observed) > order.index(exp) else \
            "earlier-candidate-spurious"
    return "not-a-candidate"


def addr_sensitive(cfg: Dict[str, Any], ecu: Dict[str, str]) -> bool:
    used = cg.used_requests(cfg)
    both = {q for q, p in used if (q, not p) in used}
    return any(ecu.get(q + "/P") != ecu.get(q + "/F") for q in both)


def judge(cfg: Dict[str, Any], variants: List[Any], ecu_class: str, ecu: Dict[str, str],
          col: common.Collector) -> None:
    readings = readings_for(cfg, ecu_class)
    acceptable: List[Optional[str]] = []
    for rd in readings:
        o = cg.ref_outcome(cfg, ecu, rd)
        if o not in acceptable:
            acceptable.append(o)
    idents = cg.ident_requests(cfg)
    ident_bytes = {b for _, b in idents}
    mode = cfg["mode"]

    def detail(**kw: Any) -> Dict[str, Any]:
        d = {"config": cfg, "ecu": ecu, "ecu_class": ecu_class,
             "reference_outcomes": acceptable}
        d.update(kw)
        return d

    def fmt(reqs: List[Tuple[bool, bytes]]) -> List[List[Any]]:
        return [[p, b.hex()] for p, b in reqs]

    runs: Dict[bool, Dict[str, Any]] = {}
    for use_cache in (False, True):
        res = drive(variants, ecu, use_cache)
        runs[use_cache] = res
        col.ev()
        col.count("run:cache-on" if use_cache else "run:cache-off")
        col.count(f"mode-{mode}:cache-" + ("on" if use_cache else "off"))
        # clause: only identification requests of the candidates are issued
        for p, b in res["requests"]:
            if b not in ident_bytes:
                col.violation(("non-identification-request", "bytes"),
                              detail(use_cache=use_cache, requests=fmt(res["requests"])))
                break
            if mode == "base" and (p, b) not in idents:
                col.violation(("non-identification-request", "addressing"),
                              detail(use_cache=use_cache, requests=fmt(res["requests"])))
                break
        col.count("requests-yielded", len(res["requests"]))

    off, on = runs[False], runs[True]
    if off["exc"] is not None:
        et, phase, msg, origin = off["exc"]
        col.violation(("raises", et, phase, origin),
                      detail(use_cache=False, exception=f"{et}: {msg}", requests=fmt(off["requests"])))
    else:
        if off["outcome"] not in acceptable:
            kind = classify_wrong(cfg, ecu, off["outcome"], acceptable, readings)
            col.violation(("wrong-variant", kind),
                          detail(use_cache=False, observed=off["outcome"],
                                 requests=fmt(off["requests"])))
        else:
            col.count("agree-with-reference")
    if on["exc"] is not None:
        et, phase, msg, origin = on["exc"]
        if off["exc"] is not None and off["exc"][0] == et and off["exc"][3] == origin:
            pass  # same failure as without the cache, already recorded
        elif origin.startswith("variantmatcher.") or not addr_sensitive(cfg, ecu):
            col.violation(("cache-raises", et),
                          detail(use_cache=True, exception=f"{et}: {msg} (in {origin})",
                                 outcome_without_cache=off["outcome"],
                                 requests=fmt(on["requests"])))
        else:  # a response obtained with the other addressing was taken from the cache
            col.violation(("cache-changes-outcome", "addressing-ignored"),
                          detail(with_cache=f"raises {et}: {msg} (in {origin})",
                                 without_cache=off["outcome"],
                                 requests_with_cache=fmt(on["requests"]),
                                 requests_without_cache=fmt(off["requests"])))
    else:
        if off["exc"] is None and on["outcome"] != off["outcome"]:
            mech = "addressing-ignored" if addr_sensitive(cfg, ecu) else "other"
            col.violation(("cache-changes-outcome", mech),
                          detail(with_cache=on["outcome"], without_cache=off["outcome"],
                                 requests_with_cache=fmt(on["requests"]),
                                 requests_without_cache=fmt(off["requests"])))
        elif off["exc"] is not None and on["outcome"] not in acceptable:
            kind = classify_wrong(cfg, ecu, on["outcome"], acceptable, readings)
            col.violation(("wrong-variant", kind, "cached"),
                          detail(use_cache=True, observed=on["outcome"],
                                 requests=fmt(on["requests"])))
        if len(set(on["requests"])) != len(on["requests"]):
            col.violation(("request-repeated-with-cache",),
                          detail(requests_with_cache=fmt(on["requests"])))
        col.count("cache-run-completed")
        if on["requests"]:
            col.count("cache-run-completed-with-requests")
        if len(off["requests"]) > len(on["requests"]):
            col.count("cache-saved-requests")

    # coverage of the reference's own verdicts
    ref = acceptable[0]
    col.count("ecu:" + ecu_class)
    if len(acceptable) > 1:
        col.count("ref:open-clause-two-outcomes")
    if ref is None:
        col.count("ref:none")
    else:
        col.count("ref:first-candidate" if cfg["candidates"][0] == ref else "ref:later-candidate")
        v = cg.variant_by_name(cfg)[ref]
        rd = readings[0]
        first = next(i for i, pat in enumerate(v["patterns"])
                     if all(cg.ref_param(cfg, v, mp, ecu, rd) for mp in pat))
        if first > 0:
            col.count("ref:match-by-later-pattern")
    if any(cg.variant_by_name(cfg)[n]["patterns"] for n in cfg["candidates"]):
        col.nontrivial((json.dumps(cfg["variants"], sort_keys=True, default=str),
                        tuple(cfg["candidates"]), tuple(sorted(ecu.items()))))


def load_variants(cfg: Dict[str, Any]) -> List[Any]:
    from .. import odxgen
    db = odxgen.load_xml([cg.emit(cfg)])
    byname = {dl.short_name: dl for dl in db.diag_layers}
    return [byname[n] for n in cfg["candidates"]]


def judge_config(cfg: Dict[str, Any], r: Any, n_faulty: int, limit: int,
                 col: common.Collector) -> None:
    variants = load_variants(cfg)
    for f in cg.features(cfg):
        col.count("cell:" + f)
    for mode in ("ecu", "base"):
        if cfg["mode"] == mode:
            byname = cg.variant_by_name(cfg)
            for n in cfg["candidates"]:
                for pat in byname[n]["patterns"]:
                    for mp in pat:
                        col.count(("snref:" if mp["snref"] else "snpathref:") + mode)
    col.count("configurations")
    for ecu_class, ecu in cg.enumerate_ecus(cfg, r, n_faulty, limit):
        judge(cfg, variants, ecu_class, ecu, col)


def part(task: Tuple[int, int, int, int], col: common.Collector) -> None:
    worker, count, n_faulty, limit = task
    warnings.simplefilter("ignore")
    r = common.rng(worker, "c14")
    for i in range(count):
        cfg = cg.gen_config(r, max_services=3 if r.random() < 0.9 else 5)
        judge_config(cfg, r, n_faulty, limit, col)
        if i < 2 and worker == 0:
            col.sample({"mode": cfg["mode"], "candidates": cfg["candidates"],
                        "services": [{k: s[k] for k in ("name", "req", "shape", "answers")}
                                     for s in cfg["services"]],
                        "variants": [{"name": v["name"],
                                      "patterns": [[{k: mp[k] for k in ("exp", "svc", "path", "snref")}
                                                    for mp in p] for p in v["patterns"]]}
                                     for v in cfg["variants"]]}, limit=2)


def run(tier: str, col: common.Collector) -> None:
    if tier == "quick":
        per_worker, n_faulty, limit = 160, 10, 27
    else:
        per_worker, n_faulty, limit = 1600, 12, 81
    nw = 16
    common.pmap(part, [(w, per_worker, n_faulty, limit) for w in range(nw)], col)
    col.notes["configurations"] = col.counters.get("configurations", 0)
    missing = [c for c in REQUIRED_CELLS if not col.counters.get(c)]
    if missing:
        col.fail_inconclusive("feature matrix cells never exercised: " + ", ".join(missing))
    if not col.counters.get("cache-run-completed-with-requests"):
        msg = ("no use_cache=True run that issues a request ever completed: the clauses 'same "
               "outcome with and without cache' and 'no request twice' were decided only by the "
               "exception, never by comparing outcomes")
        col.notes["cache_clauses"] = msg
        if not any(sig[0] == "cache-raises" for sig in col.violations):
            col.fail_inconclusive(msg)
    if not col.counters.get("agree-with-reference"):
        col.fail_inconclusive("the matcher never completed a run that agreed with the reference")


def replay(w: Dict[str, Any], col: common.Collector) -> None:
    warnings.simplefilter("ignore")
    cfg = w["config"]
    variants = load_variants(cfg)
    judge(cfg, variants, w.get("ecu_class", "faulty"), w["ecu"], col)
