"""compose / probe mode of the description generator.

probes : fixed, hand-described layouts - one per construct the properties name
compose: seeded random nesting of structures, fields, muxes, tables, keys inside messages
         with mixed explicit / implicit positions

Values are generated recursively from the model (`good_value`: representable by construction,
`assignments`: several per message).
"""
from __future__ import annotations

import random
from typing import Any, Dict, List, Optional, Tuple

from .codecgen import linear, texttable
from .odxgen import (dct_leading, dct_minmax, dct_paramlen, dct_std, dop, p_const, p_value, u8const)

J = Dict[str, Any]

# ---------------------------------------------------------------------------
# a pool of simple DOPs available in every compose layer

POOL: List[J] = [
    dop("u8", dct_std("A_UINT32", 8)),
    dop("u16", dct_std("A_UINT32", 16)),
    dop("u16le", dct_std("A_UINT32", 16, hilo=False)),
    dop("u4", dct_std("A_UINT32", 4)),
    dop("u3", dct_std("A_UINT32", 3)),
    dop("u1", dct_std("A_UINT32", 1)),
    dop("u12", dct_std("A_UINT32", 12)),
    dop("u24", dct_std("A_UINT32", 24)),
    dop("s8", dct_std("A_INT32", 8)),
    dop("s16le", dct_std("A_INT32", 16, "2C", False)),
    dop("s12sm", dct_std("A_INT32", 12, "SM")),
    dop("bcd16", dct_std("A_UINT32", 16, "BCD-P")),
    dop("f32", dct_std("A_FLOAT32", 32)),
    dop("f64le", dct_std("A_FLOAT64", 64, hilo=False)),
    dop("b2", dct_std("A_BYTEFIELD", 16)),
    dop("b4", dct_std("A_BYTEFIELD", 32)),
    dop("a3", dct_std("A_ASCIISTRING", 24)),
    dop("w2", dct_std("A_UNICODE2STRING", 32)),
    dop("lin8", dct_std("A_UINT32", 8), "A_INT32", linear(-40, 1)),
    dop("linf", dct_std("A_UINT32", 16), "A_FLOAT64", linear(0, 0.001), precision=1),
    dop("tabi", dct_std("A_UINT32", 8), "A_UINT32",
        {"cat": "TAB-INTP", "i2p": {"scales": [{"lo": (0, "CLOSED"), "const": {"v": 0}},
                                               {"lo": (10, "CLOSED"), "const": {"v": 100}},
                                               {"lo": (20, "CLOSED"), "const": {"v": 150}},
                                               {"lo": (200, "CLOSED"), "const": {"v": 1050}}]}}),
    dop("txt", dct_std("A_UINT32", 8), "A_UNICODE2STRING",
        texttable([(0, "zero"), (1, "one"), (2, "two"), (200, "many")])),
    dop("mmz", dct_minmax("A_ASCIISTRING", 0, 6, "ZERO")),
    dop("mmf", dct_minmax("A_BYTEFIELD", 1, 5, "HEX-FF")),
    dop("mme", dct_minmax("A_BYTEFIELD", 0, None, "END-OF-PDU")),
    dop("mmu", dct_minmax("A_UTF8STRING", 1, None, "ZERO")),
    dop("ll8", dct_leading("A_BYTEFIELD", 8)),
    dop("ll16s", dct_leading("A_UTF8STRING", 16)),
    dop("u8mask", dct_std("A_UINT32", 8, mask=0x3C)),
    {"t": "DTCDOP", "name": "dtc", "dct": dct_std("A_UINT32", 24), "ptype": "A_UINT32",
     "compu": {"cat": "IDENTICAL"},
     "dtcs": [{"name": "P0000", "code": 0x000000, "text": "zero"},  # a code like any other
              {"name": "P0001", "code": 0x000001, "text": "one"},
              {"name": "P0123", "code": 0x012345, "text": "two"},
              {"name": "U1000", "code": 0xC10000, "text": "three"}]},
    # inherits P0001/U1000 from "dtc" (P0123 excluded), adds one of its own
    {"t": "DTCDOP", "name": "dtc_linked", "dct": dct_std("A_UINT32", 24), "ptype": "A_UINT32",
     "compu": {"cat": "IDENTICAL"},
     "dtcs": [{"name": "B2222", "code": 0x922222, "text": "own"}],
     "linked": [{"dop": "dtc", "not_inherited": ["P0123"]}]},
    {"t": "DTCDOP", "name": "dtc_linked2", "dct": dct_std("A_UINT32", 24), "ptype": "A_UINT32",
     "compu": {"cat": "IDENTICAL"},
     "dtcs": [{"name": "C3333", "code": 0x433333, "text": "own2"}],
     "linked": [{"dop": "dtc"}]},
    # a diamond: both linked DTC-DOPs provide the DTCs of "dtc"
    {"t": "DTCDOP", "name": "dtc_diamond", "dct": dct_std("A_UINT32", 24), "ptype": "A_UINT32",
     "compu": {"cat": "IDENTICAL"}, "dtcs": [],
     "linked": [{"dop": "dtc_linked"}, {"dop": "dtc_linked2"}]},
    # a text table with a scale that covers a range and has no COMPU-INVERSE-VALUE (the lower
    # limit is what gets encoded), one with an inverse value, and single values
    dop("txtr", dct_std("A_UINT32", 8), "A_UNICODE2STRING",
        {"cat": "TEXTTABLE", "i2p": {"scales": [
            {"lo": (0, "CLOSED"), "hi": (0, "CLOSED"), "const": {"vt": "off"}},
            {"lo": (10, "CLOSED"), "hi": (19, "CLOSED"), "const": {"vt": "warm"}},
            {"lo": (20, "CLOSED"), "hi": (29, "CLOSED"), "const": {"vt": "hot"}, "inv": {"v": 25}},
            {"lo": (200, "CLOSED"), "hi": (200, "CLOSED"), "const": {"vt": "max"}, "inv": {"v": 200}}]}}),
]
FIXED_SIMPLE = ["u8", "u16", "u16le", "u24", "s8", "s16le", "f32", "b2", "b4", "a3", "w2", "lin8",
                "linf", "txt", "bcd16", "dtc", "f64le", "dtc_linked", "tabi", "dtc_diamond", "txtr"]
BITS_SIMPLE = ["u4", "u3", "u1", "u12", "s12sm", "u8mask"]
OPEN_SIMPLE = ["mmz", "mmf", "mmu", "ll8", "ll16s"]


def good_value(o: J, layer_by: Dict[str, J], r: random.Random, depth: int = 0) -> Any:
    t = o["t"]
    if t == "DTCDOP":
        def entries(x: J, depth: int = 0) -> List[Tuple[str, int]]:
            own = [(d["name"], d["code"]) for d in x["dtcs"]]
            if depth < 5:
                for ln in x.get("linked") or []:
                    own += [(n, c) for n, c in entries(layer_by[ln["dop"]], depth + 1)
                            if n not in (ln.get("not_inherited") or []) and n not in {a for a, _ in own}]
            return own
        return r.choice(sorted({c for _, c in entries(o)}))
    if t == "DOP":
        d = o["dct"]
        base = d["base"]
        cat = o["compu"]["cat"]
        if cat == "TEXTTABLE":
            return r.choice(o["compu"]["i2p"]["scales"])["const"]["vt"]
        if cat == "TAB-INTP":
            # a physical value that is the exact image of an internal value
            pts = [(sc["lo"][0], sc["const"]["v"]) for sc in o["compu"]["i2p"]["scales"]]
            a, b = r.choice(list(zip(pts, pts[1:])))
            if r.random() < 0.4:
                return r.choice([a[1], b[1]])
            step = (b[1] - a[1]) // (b[0] - a[0]) if (b[1] - a[1]) % (b[0] - a[0]) == 0 else None
            if step:
                return a[1] + step * r.randrange(0, b[0] - a[0] + 1)
            return a[1]
        if base in ("A_UINT32", "A_INT32"):
            n = d.get("bits", 8)
            enc = d.get("enc")
            if base == "A_UINT32":
                if enc in ("BCD-P", "BCD-UP"):
                    digits = n // (4 if enc == "BCD-P" else 8)
                    i = r.randrange(0, 10 ** max(1, digits))
                else:
                    i = r.choice([0, 1, (1 << n) - 1, r.randrange(1 << n)])
                if d.get("mask") is not None:
                    i &= d["mask"]
            else:
                lo = -(1 << (n - 1)) + (1 if enc in ("1C", "SM") else 0)
                hi = (1 << (n - 1)) - 1
                i = r.choice([0, 1, -1, lo, hi, r.randrange(lo, hi + 1)])
            if cat == "LINEAR":
                sc = o["compu"]["i2p"]["scales"][0]
                n0, n1 = sc["num"][0], sc["num"][1]
                d0 = (sc.get("den") or [1])[0]
                v = (n0 + n1 * i) / d0
                return int(v) if o["ptype"] in ("A_INT32", "A_UINT32") else v
            return i
        if base in ("A_FLOAT32", "A_FLOAT64"):
            return r.choice([0.0, 1.5, -2.25, 1024.0, r.randrange(-1000, 1000) / 8])
        k = d["k"]
        if k == "STD":
            nbytes = d["bits"] // 8
        elif k == "MINMAX":
            nbytes = r.randrange(d["min"], (d.get("gen_max") or d.get("max") or d["min"] + 5) + 1)
        else:
            nbytes = r.choice([0, 1, 3, 5])
        if base == "A_BYTEFIELD":
            return bytes(r.randrange(1, 0xFE) for _ in range(nbytes))
        if base == "A_UNICODE2STRING":
            return "".join(r.choice("abcXYZ09") for _ in range(nbytes // 2))
        return "".join(r.choice("abcXYZ09 _") for _ in range(nbytes))
    if t in ("STRUCT", "ENVDATA"):
        return good_params(o["params"], layer_by, r, depth + 1)
    if t == "SFIELD":
        return [good_value(layer_by[o["struct"]], layer_by, r, depth + 1) for _ in range(o["n"])]
    if t in ("DLFIELD", "EOPFIELD", "EMFIELD"):
        n = r.choice([0, 1, 2, 3]) if _ITEMS[0] is None else _ITEMS[0]
        if t == "EOPFIELD":
            n = max(n, o.get("min") or 0)
            if o.get("max") is not None:
                n = min(n, o["max"])
        return [good_value(layer_by[o["struct"]], layer_by, r, depth + 1) for _ in range(n)]
    if t == "MUX":
        # successive assignments of one message walk through the cases (every case of a
        # multiplexer is reached after len(cases) assignments), with a random start
        if _ROT[0] >= 0:
            c = o["cases"][_ROT[0] % len(o["cases"])]
        else:
            c = r.choice(o["cases"])
        if c.get("struct"):
            return (c["name"], good_value(layer_by[c["struct"]], layer_by, r, depth + 1))
        return (c["name"], {})
    if t == "ENVDESC":
        res: Dict[str, Any] = {}
        for n in o["envdatas"]:
            res.update(good_params(layer_by[n]["params"], layer_by, r, depth + 1))
        return res
    raise ValueError(t)


def good_params(params: List[J], layer_by: Dict[str, J], r: random.Random, depth: int = 0,
                omit_defaults: bool = True) -> Dict[str, Any]:
    vals: Dict[str, Any] = {}
    for p in params:
        k = p["p"]
        if k in ("VALUE", "SYSTEM"):
            if p.get("default") is not None and omit_defaults and r.random() < 0.5:
                continue
            vals[p["name"]] = good_value(layer_by[p["dop"]], layer_by, r, depth)
        elif k == "TABLE-STRUCT":
            kp = next(q for q in params if q["name"] == p["key"])
            tab = layer_by[kp["table"] if kp.get("table") else kp["row"][0]]
            row = r.choice(tab["rows"]) if not kp.get("row") else \
                next(x for x in tab["rows"] if x["name"] == kp["row"][1])
            if row.get("struct") is None and row.get("dop") is None:
                vals[p["name"]] = (row["name"], None)   # a row that carries no data
            else:
                tgt = layer_by[row.get("struct") or row["dop"]]
                vals[p["name"]] = (row["name"], good_value(tgt, layer_by, r, depth))
        elif k == "LENGTH-KEY":
            pass  # implicit by default; explicit variants are added by `assignments`
    # env-data-desc consistency: only parameters of the applicable env datas may be given
    for p in params:
        if p["p"] == "VALUE" and layer_by[p["dop"]]["t"] == "ENVDESC":
            edd = layer_by[p["dop"]]
            dtc = vals.get(edd["param_snref"])
            ok = {}
            for n in edd["envdatas"]:
                ed = layer_by[n]
                if not ed.get("dtcs") or dtc in ed["dtcs"]:
                    sub = good_params(ed["params"], layer_by, r, depth, omit_defaults=False)
                    ok.update(sub)
            vals[p["name"]] = ok
    return vals


_ROT = [-1]
_ITEMS: List[Optional[int]] = [None]  # every third assignment has fields of three items


def assignments(msg: J, layer: J, r: random.Random, n: int = 6) -> List[Dict[str, Any]]:
    by = {o["name"]: o for o in layer["dobjs"]}
    out = []
    ncases = [len(by[p["dop"]]["cases"]) for p in msg["params"]
              if p.get("dop") in by and by[p["dop"]]["t"] == "MUX"]
    n = max([n] + ncases)
    if layer.get("name") == "probes":
        n = max(n, 6)  # one message per construct: a few more assignments each
    for i in range(n):
        _ROT[0] = i
        _ITEMS[0] = 3 if i % 3 == 2 else None
        try:
            v = good_params(msg["params"], by, r)
        finally:
            _ROT[0] = -1
            _ITEMS[0] = None
        # explicit length keys for some assignments
        for p in msg["params"]:
            if p["p"] == "LENGTH-KEY" and i % 2 == 1:
                user = next((q for q in msg["params"] if q["p"] == "VALUE" and
                             by[q["dop"]]["t"] == "DOP" and by[q["dop"]]["dct"].get("key_id") ==
                             (p.get("id") or p["name"])), None)
                if user is not None and user["name"] in v:
                    val = v[user["name"]]
                    base = by[user["dop"]]["dct"]["base"]
                    if isinstance(val, (bytes, str)):
                        v[p["name"]] = 8 * len(val) * (2 if base == "A_UNICODE2STRING" else 1)
                    elif isinstance(val, int):
                        # (values of these objects fit into 8 bits; the declared length need
                        # not be a multiple of eight: those come first, and a signed object
                        # then carries a negative value - its sign bits end where the key says)
                        v[p["name"]] = [12, 9, 20, 13, 16, 24, 32][(i // 2) % 7]
                        if base == "A_INT32" and v[p["name"]] % 8 and val >= 0:
                            v[user["name"]] = -(val % 100) - 1
        out.append(v)
    return out


# ---------------------------------------------------------------------------
# probes


def _struct(name: str, params: List[J], byte_size: Optional[int] = None) -> J:
    return {"t": "STRUCT", "name": name, "params": params, "byte_size": byte_size}


def probe_layer() -> J:
    dobjs: List[J] = [dict(d) for d in POOL]
    rqs: List[J] = []
    prs: List[J] = []
    ngs: List[J] = []

    def rq(name: str, params: List[J], shape: str, **kw: Any) -> None:
        m = {"name": name, "params": params, "shape": shape, "feat": {"shape": shape}}
        m.update(kw)
        rqs.append(m)

    sid = lambda v=0x31: u8const("sid", v)  # noqa
    # 1 structure with BYTE-SIZE at non-zero offset, followed by a constant
    dobjs.append(_struct("st_bs", [p_value("a", "u8"), p_value("b", "u8")], byte_size=4))
    rq("p_bytesize", [sid(), p_value("s", "st_bs"), u8const("tail", 0x03)], "struct-bytesize")
    # BYTE-SIZE with parameters listed out of positional order (padding must not touch them)
    dobjs.append(_struct("st_bs_ooo", [p_value("chk", "u8", byte=3), p_value("kind", "u8", byte=0),
                                       p_value("len", "u8", byte=1)], byte_size=6))
    rq("p_bytesize_ooo", [sid(), p_value("s", "st_bs_ooo"), u8const("tail", 0x03)],
       "struct-bytesize-out-of-order")
    # ... and one that is filled completely (no padding needed), followed by an implicitly
    # positioned parameter: the cursor has to end up behind the structure all the same
    dobjs.append(_struct("st_full_ooo", [p_value("hi", "u8", byte=2), p_value("lo", "u16", byte=0)],
                         byte_size=3))
    rq("p_bytesize_full_ooo", [sid(), p_value("s", "st_full_ooo"), p_value("after", "u8")],
       "struct-bytesize-filled-out-of-order")
    dobjs.append(_struct("st_plain", [p_value("a", "u16"), p_value("b", "s8")]))
    rq("p_struct2", [sid(), p_value("s1", "st_plain"), p_value("s2", "st_plain", byte=6)],
       "struct-twice-gap")
    # 2 static field
    dobjs.append(_struct("st_item", [p_value("k", "u8"), p_value("v", "u16le")]))
    dobjs.append({"t": "SFIELD", "name": "sf3", "struct": "st_item", "n": 3, "item_size": 4})
    rq("p_static", [sid(), p_value("f", "sf3"), u8const("tail", 0x99)], "static-field")
    # static field whose items list their explicitly positioned parameters out of order (the
    # cursor sits inside the item when the item gets padded)
    dobjs.append(_struct("st_ooo", [p_value("late", "u8", byte=3), u8const("mid", 0xDB, byte=1),
                                    p_value("early", "u8", byte=0)]))
    dobjs.append({"t": "SFIELD", "name": "sf_ooo", "struct": "st_ooo", "n": 2, "item_size": 5})
    rq("p_static_ooo", [sid(), p_value("f", "sf_ooo"), u8const("tail", 0x98)],
       "static-field-items-out-of-order")
    # ... and items that are filled completely (no padding needed) although the cursor sits
    # in their middle after the last listed parameter
    dobjs.append(_struct("st_ooo_full", [p_value("late", "u16", byte=2), p_value("early", "u16", byte=0)]))
    dobjs.append({"t": "SFIELD", "name": "sf_ooo_full", "struct": "st_ooo_full", "n": 3, "item_size": 4})
    rq("p_static_ooo_full", [sid(), p_value("f", "sf_ooo_full"), u8const("tail", 0x95)],
       "static-field-items-out-of-order-filled")
    # static field / end-of-PDU field whose items end with a terminated string (the item size
    # depends on the PDU; every item but the last one of the PDU carries its terminator)
    dobjs.append(_struct("st_var", [p_value("k", "u8"), p_value("s", "mmz")]))
    dobjs.append({"t": "SFIELD", "name": "sf_var", "struct": "st_var", "n": 2, "item_size": 8})
    rq("p_static_var", [sid(), p_value("f", "sf_var"), u8const("tail", 0x97)], "static-field-variable-items")
    dobjs.append(_struct("st_unb", [p_value("k", "u8"), p_value("s", "mmu")]))  # no MAX-LENGTH
    dobjs.append({"t": "SFIELD", "name": "sf_unb", "struct": "st_unb", "n": 2, "item_size": 6})
    rq("p_static_unbounded", [sid(), p_value("f", "sf_unb"), u8const("tail", 0x96)],
       "static-field-unbounded-items")
    # ... and items without any slack: the string fills the item exactly, so that a PDU whose
    # terminator is damaged makes the item run into its neighbour
    tight = dop("mm2", dct_minmax("A_ASCIISTRING", 2, None, "ZERO"))
    tight["dct"]["gen_max"] = 2  # (generator hint: longer strings cannot be represented here)
    dobjs.append(tight)
    dobjs.append(_struct("st_tight", [p_value("k", "u8"), p_value("s", "mm2")]))
    dobjs.append({"t": "SFIELD", "name": "sf_tight", "struct": "st_tight", "n": 2, "item_size": 4})
    rq("p_static_tight", [sid(), p_value("f", "sf_tight"), u8const("tail", 0x95)],
       "static-field-items-without-slack")
    dobjs.append({"t": "EOPFIELD", "name": "eop_var", "struct": "st_var", "min": None, "max": None})
    rq("p_eop_var", [sid(), p_value("f", "eop_var")], "end-of-pdu-field-variable-items")
    # 3 dynamic length field
    dobjs.append({"t": "DLFIELD", "name": "dlf", "struct": "st_item", "offset": 1, "cnt_dop": "u8",
                  "cnt_byte": 0, "cnt_bit": None})
    rq("p_dynlen", [sid(), p_value("f", "dlf"), u8const("tail", 0x77)], "dynamic-length-field")
    dobjs.append({"t": "DLFIELD", "name": "dlf4", "struct": "st_item", "offset": 2, "cnt_dop": "u4",
                  "cnt_byte": 1, "cnt_bit": 4})
    rq("p_dynlen_bits", [sid(), p_value("f", "dlf4")], "dynamic-length-field-bitcount")
    # 4 end-of-pdu field
    dobjs.append({"t": "EOPFIELD", "name": "eop", "struct": "st_item", "min": None, "max": None})
    rq("p_eop", [sid(), p_value("n", "u8"), p_value("f", "eop")], "end-of-pdu-field")
    dobjs.append(_struct("st_eopwrap", [p_value("h", "u8"), p_value("items", "eop")]))
    rq("p_eop_nested", [sid(), p_value("w", "st_eopwrap")], "end-of-pdu-field-nested")
    # 5 end-marker field followed by its marker
    dobjs.append({"t": "EMFIELD", "name": "emf", "struct": "st_item", "term_dop": "u8",
                  "term_value": 255})
    rq("p_endmarker", [sid(), p_value("f", "emf"), u8const("marker", 0xFF), p_value("t", "u8")],
       "end-marker-field")
    rq("p_endmarker_last", [sid(), p_value("f", "emf")], "end-marker-field-last")
    # ... whose termination DOP cannot convert every coded value (probing an item for the marker
    # then ends with an error that concerns nobody)
    from .codecgen import linear
    dobjs.append(dop("lim_hi", dct_std("A_UINT32", 8), "A_UINT32",
                     linear(0, 1, lo=(128, "CLOSED"), hi=(255, "CLOSED"))))
    dobjs.append({"t": "EMFIELD", "name": "emf_lim", "struct": "st_item", "term_dop": "lim_hi",
                  "term_value": 255})
    rq("p_endmarker_lim", [sid(), p_value("f", "emf_lim"), u8const("marker", 0xFF), p_value("t", "u8")],
       "end-marker-field-partial-dop")
    # 6 multiplexer
    dobjs.append(_struct("st_c1", [p_value("x", "u16")]))
    dobjs.append(_struct("st_c2", [p_value("y", "s8"), p_value("z", "u8")]))
    dobjs.append({"t": "MUX", "name": "mux", "byte_pos": 1, "key": {"byte": 0, "bit": None, "dop": "u8"},
                  "cases": [{"name": "c1", "lo": 1, "hi": 3, "struct": "st_c1"},
                            {"name": "c2", "lo": 4, "hi": 4, "struct": "st_c2"},
                            {"name": "c3", "lo": 7, "hi": 9, "struct": None}],
                  "default": {"name": "dflt", "struct": "st_c1"}})
    rq("p_mux", [sid(), p_value("m", "mux")], "mux")
    dobjs.append({"t": "MUX", "name": "mux_kb", "byte_pos": 2,
                  "key": {"byte": 0, "bit": 4, "dop": "u4"},
                  "cases": [{"name": "k1", "lo": 1, "hi": 1, "struct": "st_c2"},
                            {"name": "k2", "lo": 2, "hi": 5, "struct": "st_c1"}], "default": None})
    rq("p_mux_bitkey", [sid(), p_value("pre", "u8"), p_value("m", "mux_kb")], "mux-bitkey")
    # multiplexer at a non-zero offset with structure-less cases, followed by a parameter at an
    # explicit position (the origin of the enclosing message must be restored after the mux)
    dobjs.append({"t": "MUX", "name": "mux_ns", "byte_pos": 1,
                  "key": {"byte": 0, "bit": None, "dop": "u8"},
                  "cases": [{"name": "n1", "lo": 1, "hi": 1, "struct": "st_c2"},
                            {"name": "n2", "lo": 2, "hi": 3, "struct": None}],
                  "default": {"name": "ndflt", "struct": None}})
    rq("p_mux_follow", [sid(), p_value("pre", "u8"), p_value("m", "mux_ns", byte=2),
                        p_value("after", "u16", byte=5)], "mux-then-positioned")
    dobjs.append(_struct("st_muxwrap", [p_value("h", "u8"), p_value("m", "mux_ns", byte=1),
                                        p_value("t", "u8", byte=4)]))
    rq("p_mux_follow_nested", [sid(), p_value("pre", "u16"), p_value("w", "st_muxwrap"),
                               p_value("last", "u8")], "mux-then-positioned-nested")
    # 7 table
    dobjs.append({"t": "TABLE", "name": "tab", "key_dop": "u8", "semantic": "X",
                  "rows": [{"name": "r_struct", "key": 1, "struct": "st_c2"},
                           {"name": "r_dop", "key": 2, "dop": "u16"},
                           {"name": "r_other", "key": 10, "struct": "st_c1"},
                           {"name": "r_nodata", "key": 77}]})   # a row that carries no data
    rq("p_table", [sid(), {"p": "TABLE-KEY", "name": "tk", "byte": None, "bit": None, "table": "tab"},
                   {"p": "TABLE-STRUCT", "name": "ts", "byte": None, "bit": None, "key": "tk"}],
       "table-key-struct")
    rq("p_table_gap", [sid(), {"p": "TABLE-KEY", "name": "tk", "byte": 3, "bit": None, "table": "tab"},
                       {"p": "TABLE-STRUCT", "name": "ts", "byte": 1, "bit": None, "key": "tk"}],
       "table-key-after-struct")
    # 8 length keys
    dobjs.append(dop("pl_bytes", dct_paramlen("A_BYTEFIELD", "LK.p_lenkey.lk")))
    rq("p_lenkey", [sid(), {"p": "LENGTH-KEY", "name": "lk", "byte": None, "bit": None, "dop": "u8",
                            "id": "LK.p_lenkey.lk"},
                    p_value("data", "pl_bytes"), u8const("tail", 0x42)], "length-key-bytes")
    dobjs.append(dop("pl_uint", dct_paramlen("A_UINT32", "LK.p_lenkey2.lk")))
    rq("p_lenkey2", [sid(), {"p": "LENGTH-KEY", "name": "lk", "byte": None, "bit": None, "dop": "u8",
                             "id": "LK.p_lenkey2.lk"},
                     p_value("num", "pl_uint")], "length-key-uint")
    # signed numbers whose length comes from a key (the sign bit is where the key says), and such
    # an object at a bit position
    dobjs.append(dop("pl_int", dct_paramlen("A_INT32", "LK.p_lenkey3.lk")))
    rq("p_lenkey3", [sid(), {"p": "LENGTH-KEY", "name": "lk", "byte": None, "bit": None, "dop": "u8",
                             "id": "LK.p_lenkey3.lk"},
                     p_value("num", "pl_int"), u8const("tail", 0x42)], "length-key-int")
    dobjs.append(dop("pl_int1c", dct_paramlen("A_INT32", "LK.p_lenkey4.lk", enc="1C")))
    rq("p_lenkey4", [sid(), {"p": "LENGTH-KEY", "name": "lk", "byte": None, "bit": None, "dop": "u8",
                             "id": "LK.p_lenkey4.lk"},
                     p_value("num", "pl_int1c")], "length-key-int-ones-complement")
    dobjs.append(dop("pl_uint_b", dct_paramlen("A_UINT32", "LK.p_lenkey5.lk")))
    rq("p_lenkey5", [sid(), {"p": "LENGTH-KEY", "name": "lk", "byte": None, "bit": None, "dop": "u8",
                             "id": "LK.p_lenkey5.lk"},
                     p_value("num", "pl_uint_b", byte=2, bit=3), u8const("tail", 0x42)],
       "length-key-uint-at-bit-position")
    # RESERVED bits that start inside a byte and cross its end, followed by an implicitly
    # positioned parameter
    rq("p_reserved_bits", [sid(), {"p": "RESERVED", "name": "rsv", "byte": None, "bit": 4, "bits": 8},
                           p_value("after", "u8"),
                           {"p": "RESERVED", "name": "rsv2", "byte": None, "bit": 6, "bits": 3},
                           p_value("after2", "u16")], "reserved-bits-crossing")
    # reserved areas wider than any number (padding): in the middle and at the end of a message
    rq("p_reserved_wide", [sid(), p_value("a", "u8"),
                           {"p": "RESERVED", "name": "pad", "byte": None, "bit": None, "bits": 72},
                           p_value("b", "u16")], "reserved-wide")
    rq("p_reserved_wide_last", [sid(), p_value("a", "u8"),
                                {"p": "RESERVED", "name": "pad", "byte": None, "bit": None, "bits": 128}],
       "reserved-wide-last")
    # tables with non-integer keys
    dobjs.append({"t": "TABLE", "name": "tab_str", "key_dop": "a3", "semantic": "X",
                  "rows": [{"name": "r_abc", "key": "abc", "struct": "st_c2"},
                           {"name": "r_xyz", "key": "xyz", "dop": "u16"}]})
    rq("p_table_strkey", [sid(), {"p": "TABLE-KEY", "name": "tk", "byte": None, "bit": None,
                                  "table": "tab_str"},
                          {"p": "TABLE-STRUCT", "name": "ts", "byte": None, "bit": None, "key": "tk"}],
       "table-string-key")
    dobjs.append({"t": "TABLE", "name": "tab_bytes", "key_dop": "b2", "semantic": "X",
                  "rows": [{"name": "r_0102", "key": b"\x01\x02", "struct": "st_c1"},
                           {"name": "r_a0b0", "key": b"\xa0\xb0", "dop": "u8"}]})
    rq("p_table_byteskey", [sid(), {"p": "TABLE-KEY", "name": "tk", "byte": None, "bit": None,
                                    "table": "tab_bytes"},
                            {"p": "TABLE-STRUCT", "name": "ts", "byte": None, "bit": None, "key": "tk"}],
       "table-bytes-key")
    # a length key that does not start at bit 0 and shares its byte with another parameter
    dobjs.append(dop("u5", dct_std("A_UINT32", 5)))
    dobjs.append(dop("pl_bits", dct_paramlen("A_BYTEFIELD", "LK.p_lenkey_bits.lk")))
    rq("p_lenkey_bits", [sid(), p_value("flag3", "u3", byte=1, bit=0),
                         {"p": "LENGTH-KEY", "name": "lk", "byte": 1, "bit": 3, "dop": "u5",
                          "id": "LK.p_lenkey_bits.lk"},
                         p_value("data", "pl_bits", byte=2)], "length-key-at-bit-position")
    # length keys inside a structure: as the item of a field (every item has its own length)
    # and followed by further parameters (the key is filled in without moving the cursor)
    dobjs.append(dop("pl_nested", dct_paramlen("A_BYTEFIELD", "LK.st_lk.lk")))
    dobjs.append(_struct("st_lk", [{"p": "LENGTH-KEY", "name": "lk", "byte": None, "bit": None,
                                    "dop": "u8", "id": "LK.st_lk.lk"},
                                   p_value("data", "pl_nested"), p_value("t", "u8")]))
    dobjs.append({"t": "EOPFIELD", "name": "eop_lk", "struct": "st_lk", "min": None, "max": None})
    rq("p_lenkey_items", [sid(), p_value("recs", "eop_lk")], "length-key-in-field-items")
    rq("p_lenkey_nested", [sid(), p_value("one", "st_lk"), p_value("after", "u8")],
       "length-key-in-structure")
    dobjs.append(dop("pl_pos", dct_paramlen("A_BYTEFIELD", "LK.st_lkpos.lk")))
    dobjs.append(_struct("st_lkpos", [{"p": "LENGTH-KEY", "name": "lk", "byte": 1, "bit": None,
                                       "dop": "u8", "id": "LK.st_lkpos.lk"},
                                      p_value("tag", "u8", byte=0), p_value("data", "pl_pos", byte=2)]))
    rq("p_lenkey_positioned", [sid(), p_value("pre", "u16"), p_value("s", "st_lkpos")],
       "length-key-positioned-in-structure")
    dobjs.append({"t": "EOPFIELD", "name": "eop_lkpos", "struct": "st_lkpos", "min": None, "max": None})
    rq("p_lenkey_positioned_items", [sid(), p_value("recs", "eop_lkpos")],
       "length-key-positioned-in-field-items")
    # 9 DTC
    rq("p_dtc_linked", [sid(), p_value("code", "dtc_linked"), p_value("st", "u8")], "dtc-linked")
    # environment data inside repeated records: every record has its own DTC
    dobjs.append({"t": "ENVDATA", "name": "er_all", "params": [p_value("common", "u8")], "dtcs": None})
    dobjs.append({"t": "ENVDATA", "name": "er_1", "params": [p_value("e1", "u16")], "dtcs": [0x000001]})
    dobjs.append({"t": "ENVDATA", "name": "er_2", "params": [p_value("e2a", "u8"), p_value("e2b", "s8")],
                  "dtcs": [0x012345, 0xC10000]})
    dobjs.append({"t": "ENVDESC", "name": "edd_rec", "param_snref": "code",
                  "envdatas": ["er_all", "er_1", "er_2"]})
    dobjs.append(_struct("st_rec", [p_value("code", "dtc"), p_value("status", "u8"),
                                    p_value("env", "edd_rec")]))
    dobjs.append({"t": "EOPFIELD", "name": "eop_rec", "struct": "st_rec", "min": None, "max": None})
    rq("p_env_records", [sid(), p_value("recs", "eop_rec")], "env-data-in-records")
    rq("p_dtc", [sid(), p_value("code", "dtc"), p_value("st", "u8")], "dtc")
    # 10 environment data
    dobjs.append({"t": "ENVDATA", "name": "ed_all", "params": [p_value("common", "u8")], "dtcs": None})
    dobjs.append({"t": "ENVDATA", "name": "ed_1", "params": [p_value("e1", "u16")], "dtcs": [0x000001]})
    dobjs.append({"t": "ENVDATA", "name": "ed_2", "params": [p_value("e2a", "u8"), p_value("e2b", "s8")],
                  "dtcs": [0x012345, 0xC10000]})
    dobjs.append({"t": "ENVDESC", "name": "edd", "param_snref": "code",
                  "envdatas": ["ed_all", "ed_1", "ed_2"]})
    rq("p_envdata", [sid(), p_value("code", "dtc"), p_value("env", "edd")], "env-data-desc")
    # 11 positions: out of order, bit packed neighbours, overlaps
    rq("p_outoforder", [sid(), p_value("late", "u16", byte=4), p_value("early", "u8", byte=1),
                        p_value("mid", "u16le", byte=2)], "explicit-out-of-order")
    rq("p_bitpacked", [sid(), p_value("hi4", "u4", byte=1, bit=4), p_value("lo3", "u3", byte=1, bit=0),
                       p_value("flag", "u1", byte=1, bit=3), p_value("w12", "u12", byte=2, bit=2)],
       "bit-packed")
    rq("p_overlap_bytes", [sid(), p_value("a", "u16", byte=1), p_value("b", "u8", byte=2)],
       "overlap-bytes")
    rq("p_overlap_bits", [sid(), p_value("a", "u4", byte=1, bit=2), p_value("b", "u3", byte=1, bit=5)],
       "overlap-bits")
    rq("p_adjacent_bits", [sid(), p_value("a", "u4", byte=1, bit=0), p_value("b", "u4", byte=1, bit=4)],
       "adjacent-bits")
    rq("p_overlap_const", [sid(), p_value("a", "u8", byte=0)], "overlap-with-constant")
    # 12 reserved, phys-const, defaults
    rq("p_reserved", [sid(), {"p": "RESERVED", "name": "rsv", "byte": None, "bit": None, "bits": 12},
                      p_value("after", "u8"),
                      {"p": "PHYS-CONST", "name": "pc", "byte": None, "bit": None, "dop": "lin8",
                       "value": 10},
                      p_value("dflt", "u16", default=4660), p_value("last", "mmz")],
       "reserved-physconst-default")
    # SYSTEM parameters: predefined kinds are filled in by the library when omitted, user-defined
    # kinds (also ones that differ from a predefined kind by case only) have to be supplied
    def sysp(name: str, kind: str, dop_name: str) -> J:
        return {"p": "SYSTEM", "name": name, "byte": None, "bit": None, "dop": dop_name,
                "sysparam": kind}
    rq("p_system", [sid(), sysp("hr", "HOUR", "u8"), sysp("hr_user", "Hour", "u8"),
                    sysp("yr", "YEAR", "u16"), sysp("own", "FooBar", "u8"), sysp("d", "day", "u8"),
                    p_value("v", "u8")], "system-parameters")
    # defaults that are empty (a valid default for strings and byte fields)
    rq("p_empty_default", [sid(), p_value("txt", "ll16s", default=""), p_value("blob", "ll8", default=b""),
                           p_value("n", "u8")], "empty-defaults")
    rq("p_minmax_mid", [sid(), p_value("s", "mmz"), p_value("b", "mmf"), p_value("t", "u8")],
       "minmax-followed")
    rq("p_leading", [sid(), p_value("a", "ll8"), p_value("b", "ll16s"), p_value("t", "u8")],
       "leading-length")
    rq("p_mask", [sid(), p_value("m", "u8mask"), p_value("n", "u8")], "bit-mask")
    # responses: request echo + NRC const
    prs.append({"name": "pr_echo", "for": "p_dtc", "shape": "response-echo", "feat": {"shape": "response-echo"},
                "params": [u8const("rsid", 0x71),
                           {"p": "MATCHING-REQUEST-PARAM", "name": "echo", "req_pos": 1, "len": 3},
                           p_value("r", "u16")]})
    # a request echo that straddles the end of the request's constant prefix
    rq("p_sub", [sid(), u8const("sub", 0x01), p_value("rid", "u16")], "sub-function-request")
    prs.append({"name": "pr_straddle", "for": "p_sub", "shape": "response-echo-straddling",
                "feat": {"shape": "response-echo-straddling"},
                "params": [u8const("rsid", 0x71),
                           {"p": "MATCHING-REQUEST-PARAM", "name": "echo", "req_pos": 1, "len": 3},
                           p_value("r", "u8")]})
    ngs.append({"name": "nr_nrc", "for": "p_dtc", "shape": "neg-nrc", "feat": {"shape": "neg-nrc"},
                "params": [u8const("nsid", 0x7F),
                           {"p": "MATCHING-REQUEST-PARAM", "name": "rq_sid", "req_pos": 0, "len": 1},
                           {"p": "NRC-CONST", "name": "nrc", "byte": None, "bit": None,
                            "dct": dct_std("A_UINT32", 8), "values": [0x11, 0x12, 0x31]},
                           p_value("code", "u8", byte=2)]})
    services = [{"name": "svc_" + m["name"], "request": m["name"],
                 "pos": [p["name"] for p in prs if p["for"] == m["name"]],
                 "neg": [n["name"] for n in ngs if n["for"] == m["name"]]} for m in rqs]
    return {"kind": "BASE-VARIANT", "name": "probes", "dobjs": dobjs, "requests": rqs, "pos": prs,
            "neg": ngs, "gneg": [], "services": services}


# ---------------------------------------------------------------------------
# random composition


def compose_layer(idx: int, r: random.Random, n_msgs: int, depth: int) -> J:
    dobjs: List[J] = [dict(d) for d in POOL]
    counter = [0]

    def fresh(prefix: str) -> str:
        counter[0] += 1
        return f"{prefix}{idx}_{counter[0]}"

    def rand_struct(d: int, allow_open: bool) -> str:
        name = fresh("st")
        params: List[J] = []
        n = r.randrange(1, 4)
        for i in range(n):
            last = i == n - 1
            params.append(rand_param(f"q{i}", d, allow_open and last, top=False))
        bs = None
        if n > 1 and r.random() < 0.2 and all(_fixed(p, by()) for p in params):
            # explicit positions in listing order, then the listing is shuffled
            cur = 0
            for p in params:
                p["byte"] = cur
                cur += _psize(p, by()) + r.choice([0, 0, 1])
            r.shuffle(params)
            # where the next object goes after a structure whose last *listed* parameter is not
            # its last *byte* is not settled by the ODX text (odxtools and the reference both
            # continue after the last listed one, i.e. inside the structure): such structures
            # are closed by an explicit BYTE-SIZE
            bs = _size(params, by()) + r.randrange(0, 3)
        elif r.random() < 0.25 and all(_fixed(p, by()) for p in params):
            bs = _size(params, by()) + r.randrange(0, 3)
        dobjs.append(_struct(name, params, bs))
        return name

    def by() -> Dict[str, J]:
        return {o["name"]: o for o in dobjs}

    def rand_param(pname: str, d: int, allow_open: bool, top: bool) -> J:
        x = r.random()
        if d > 0 and x < 0.18:
            return p_value(pname, rand_struct(d - 1, allow_open))
        if d > 0 and x < 0.26:
            st = rand_struct(d - 1, False)
            if _fixed_struct(by()[st], by()):
                sz = _size(by()[st]["params"], by()) if by()[st].get("byte_size") is None else by()[st]["byte_size"]
                nm = fresh("sf")
                dobjs.append({"t": "SFIELD", "name": nm, "struct": st, "n": r.randrange(1, 4),
                              "item_size": sz + r.randrange(0, 2)})
                return p_value(pname, nm)
        if d > 0 and x < 0.34:
            st = rand_struct(d - 1, False)
            nm = fresh("dl")
            dobjs.append({"t": "DLFIELD", "name": nm, "struct": st, "offset": 1, "cnt_dop": "u8",
                          "cnt_byte": 0, "cnt_bit": None})
            return p_value(pname, nm)
        if d > 0 and allow_open and x < 0.40:
            st = rand_struct(d - 1, False)
            if _fixed_struct(by()[st], by()) and _size(by()[st]["params"], by()) > 0:
                nm = fresh("eo")
                dobjs.append({"t": "EOPFIELD", "name": nm, "struct": st, "min": None, "max": None})
                return p_value(pname, nm)
        if d > 0 and x < 0.48:
            nm = fresh("mx")
            cases = []
            k = 1
            for c in range(r.randrange(1, 4)):
                width = r.randrange(0, 3)
                cases.append({"name": f"c{c}", "lo": k, "hi": k + width,
                              "struct": rand_struct(d - 1, False) if r.random() < 0.8 else None})
                k += width + 1 + r.randrange(0, 2)
            dobjs.append({"t": "MUX", "name": nm, "byte_pos": 1,
                          "key": {"byte": 0, "bit": None, "dop": "u8"}, "cases": cases,
                          "default": None})
            return p_value(pname, nm)
        if allow_open and x < 0.58:
            return p_value(pname, r.choice(OPEN_SIMPLE + ["mme"]))
        if x < 0.66:
            return p_value(pname, r.choice(OPEN_SIMPLE))
        if x < 0.72:
            return u8const(pname, r.randrange(256))
        if x < 0.76:
            return {"p": "RESERVED", "name": pname, "byte": None, "bit": r.choice([None, None, 2, 4, 7]),
                    "bits": r.choice([3, 4, 8, 12, 16])}
        if x < 0.80:
            return p_value(pname, "u16", default=r.randrange(65536))
        return p_value(pname, r.choice(FIXED_SIMPLE))

    rqs: List[J] = []
    for m in range(n_msgs):
        params: List[J] = [u8const("sid", 0x10 + (m % 0x60))]
        n = r.randrange(1, 6)
        style = r.choice(["implicit", "implicit", "explicit", "bits"] + (["muxpos"] if m % 8 == 7 else []))
        if style == "muxpos":
            # fixed head, multiplexer at an explicit offset, follower at an explicit position
            head = r.choice(FIXED_SIMPLE)
            params.append(p_value("head", head))
            at = 1 + _psize(params[-1], by()) + r.randrange(0, 2)
            nm = fresh("mp")
            cases, k, widest = [], 1, 0
            for c in range(r.randrange(1, 4)):
                st = None
                if r.random() < 0.6:
                    st = fresh("ms")
                    sp = [p_value(f"q{j}", r.choice(FIXED_SIMPLE)) for j in range(r.randrange(1, 3))]
                    dobjs.append(_struct(st, sp))
                    widest = max(widest, _size(sp, by()))
                cases.append({"name": f"c{c}", "lo": k, "hi": k, "struct": st})
                k += 1
            dflt = {"name": "dflt", "struct": None} if r.random() < 0.5 else None
            dobjs.append({"t": "MUX", "name": nm, "byte_pos": 1,
                          "key": {"byte": 0, "bit": None, "dop": "u8"}, "cases": cases,
                          "default": dflt})
            params.append(p_value("m", nm, byte=at))
            params.append(p_value("after", r.choice(FIXED_SIMPLE), byte=at + 1 + widest + r.randrange(0, 2)))
        elif style == "bits":
            # bit packed fixed-size neighbours at explicit positions + a tail
            pos = 1
            bitcursor = 0
            for i in range(n):
                dn = r.choice(BITS_SIMPLE)
                nb = by()[dn]["dct"]["bits"]
                if bitcursor + nb > 16:
                    pos += 2
                    bitcursor = 0
                bp = bitcursor % 8
                params.append(p_value(f"b{i}", dn, byte=pos + bitcursor // 8, bit=bp))
                bitcursor += nb
            params.append(p_value("tailv", r.choice(FIXED_SIMPLE), byte=pos + 2))
        else:
            for i in range(n):
                last = i == n - 1
                y = r.random()
                if y < 0.07:
                    # length key + PARAM-LENGTH-INFO user (key listed first)
                    kid = f"LK.m{idx}_{m}.lk{i}"
                    base = r.choice(["A_BYTEFIELD", "A_UINT32", "A_ASCIISTRING"])
                    pl = fresh("pl")
                    dobjs.append(dop(pl, dct_paramlen(base, kid)))
                    params.append({"p": "LENGTH-KEY", "name": f"lk{i}", "byte": None, "bit": None,
                                   "dop": r.choice(["u8", "u16"]), "id": kid})
                    params.append(p_value(f"p{i}", pl))
                elif y < 0.14:
                    # table key + table struct
                    tn = fresh("tab")
                    rows = []
                    for k in range(r.randrange(1, 4)):
                        if r.random() < 0.6:
                            rows.append({"name": f"row{k}", "key": k * 3 + 1,
                                         "struct": rand_struct(max(0, depth - 1), False)})
                        else:
                            rows.append({"name": f"row{k}", "key": k * 3 + 1,
                                         "dop": r.choice(FIXED_SIMPLE[:6])})
                    dobjs.append({"t": "TABLE", "name": tn, "key_dop": "u8", "semantic": "S",
                                  "rows": rows})
                    params.append({"p": "TABLE-KEY", "name": f"tk{i}", "byte": None, "bit": None,
                                   "table": tn})
                    params.append({"p": "TABLE-STRUCT", "name": f"p{i}", "byte": None, "bit": None,
                                   "key": f"tk{i}"})
                elif y < 0.18 and not any(p["name"] == "code" for p in params):
                    # DTC + environment data description
                    eda, ed1 = fresh("eda"), fresh("ed")
                    dobjs.append({"t": "ENVDATA", "name": eda, "params": [p_value("common", "u8")],
                                  "dtcs": None})
                    dobjs.append({"t": "ENVDATA", "name": ed1,
                                  "params": [p_value("e1", r.choice(["u16", "s8", "b2"]))],
                                  "dtcs": [0x012345]})
                    edd = fresh("edd")
                    dobjs.append({"t": "ENVDESC", "name": edd, "param_snref": "code",
                                  "envdatas": [eda, ed1]})
                    params.append(p_value("code", "dtc"))
                    params.append(p_value(f"p{i}", edd))
                else:
                    params.append(rand_param(f"p{i}", depth, last, top=True))
            if style == "explicit" and all(_fixed(p, by()) for p in params):
                # assign explicit positions in listing order, then shuffle the listing
                cur = 0
                for p in params:
                    p["byte"] = cur
                    cur += _psize(p, by()) + r.choice([0, 0, 1])
                head, rest = params[:1], params[1:]
                r.shuffle(rest)
                params = head + rest
        rqs.append({"name": f"m{idx}_{m}", "params": params, "shape": "random-" + style,
                    "feat": {"shape": "random-" + style}})
    return {"kind": "BASE-VARIANT", "name": f"compose{idx}", "dobjs": dobjs, "requests": rqs,
            "pos": [], "neg": [], "gneg": [],
            "services": [{"name": "svc_" + m["name"], "request": m["name"], "pos": [], "neg": []}
                         for m in rqs]}


def _dop_fixed_bits(o: J, by: Dict[str, J]) -> Optional[int]:
    t = o["t"]
    if t in ("DOP", "DTCDOP"):
        return o["dct"]["bits"] if o["dct"]["k"] == "STD" else None
    if t == "STRUCT":
        if o.get("byte_size") is not None:
            return 8 * o["byte_size"]
        if all(_fixed(p, by) for p in o["params"]):
            return 8 * _size(o["params"], by)
        return None
    if t == "SFIELD":
        return 8 * o["n"] * o["item_size"]
    return None


def _fixed_struct(o: J, by: Dict[str, J]) -> bool:
    return _dop_fixed_bits(o, by) is not None


def _fixed(p: J, by: Dict[str, J]) -> bool:
    return _pbits(p, by) is not None


def _pbits(p: J, by: Dict[str, J]) -> Optional[int]:
    k = p["p"]
    if k == "CODED-CONST":
        return p["dct"]["bits"] if p["dct"]["k"] == "STD" else None
    if k == "RESERVED":
        return p["bits"]
    if k in ("VALUE", "PHYS-CONST"):
        return _dop_fixed_bits(by[p["dop"]], by)
    return None


def _psize(p: J, by: Dict[str, J]) -> int:
    n = _pbits(p, by)
    assert n is not None
    return (n + (p.get("bit") or 0) + 7) // 8


def _size(params: List[J], by: Dict[str, J]) -> int:
    cur = 0
    tot = 0
    for p in params:
        if p.get("byte") is not None:
            cur = p["byte"]
        cur += _psize(p, by)
        tot = max(tot, cur)
    return tot


def layers(tier: str, seed: int) -> List[J]:
    r = random.Random(seed * 104729 + 5)
    n_layers, n_msgs, depth = (24, 40, 2) if tier == "quick" else (320, 60, 3)
    out = [probe_layer()]
    for i in range(n_layers):
        out.append(compose_layer(i, r, n_msgs, depth if i % 3 else depth + 1))
    return out
