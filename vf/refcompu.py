"""Exact reference semantics of ODX compu methods (ASAM MCD-2 D / ISO 22901-1, 7.3.6.6).

Written from the rule with `fractions.Fraction`; shares no code with odxtools and imports
nothing from it.  Input is the JSON-able compu model of `vf/odxgen.py`:

    {"cat": "LINEAR" | "SCALE-LINEAR" | "RAT-FUNC" | "SCALE-RAT-FUNC" | "TAB-INTP" |
            "TEXTTABLE" | "IDENTICAL" | "COMPUCODE",
     "i2p": {"scales": [{"lo": (value, "CLOSED"|"OPEN"|"INFINITE"|None) | None, "hi": ...,
                         "num": [n0, n1, ..], "den": [d0, ..], "const": {"v"| "vt": ..},
                         "inv": {"v"|"vt": ..}}, ...],
             "default": {"v"|"vt": .., "inv": {...}}},
     "p2i": {... same shape, domain = physical values ...}}

    ref = Compu(model, internal_type, physical_type)     # ODX base type names
    ref.valid_internal(v) -> bool
    ref.valid_physical(p) -> True | False | None          (None: the rule does not say)
    ref.i2p_exact(v) -> Fraction | str        raises Invalid (Undefined at a pole)
    ref.p2i_exact(p) -> Fraction | str        raises Invalid | NotInvertible
    ref.injective() -> bool ; ref.monotone_continuous() -> bool ; ref.is_tie(exact, "i2p")
    accept_numeric(observed, exact, target_type, magnitude) -> bool

Numbers in the description are doubles (xsd:double) or integers; a python float is taken at
its exact binary value.  All results are exact rationals; rounding is left to the caller
(`accept_numeric`), which accepts either tie direction for integral targets.

Readings.  The rule "a COMPU-SCALE without UPPER-LIMIT applies to exactly the LOWER-LIMIT
value" is stated for scales in general, while LINEAR / RAT-FUNC call their limits optional.
`Compu.readings(...)` therefore returns one reference per defensible reading of one-sided
scales ("point" and "open") for the numeric categories; a caller judges a value only
where all readings agree.  TEXTTABLE uses "point" only.
"""
from __future__ import annotations

import math
import struct
from fractions import Fraction
from typing import Any, Dict, List, Optional, Sequence, Tuple, Union

INT_TYPES = ("A_INT32", "A_UINT32")
FLOAT_TYPES = ("A_FLOAT32", "A_FLOAT64")
STR_TYPES = ("A_UNICODE2STRING", "A_ASCIISTRING", "A_UTF8STRING")
NUMERIC_CATS = ("LINEAR", "SCALE-LINEAR", "RAT-FUNC", "SCALE-RAT-FUNC", "TAB-INTP")

Exact = Union[Fraction, str]


class Invalid(Exception):
    """The value is outside the domain of the conversion."""


class Undefined(Invalid):
    """Inside the limits, but the formula has no value there (pole of a rational function)."""


class NotInvertible(Exception):
    """The rule does not determine a unique inverse (no COMPU-PHYS-TO-INTERNAL, several
    pre-images, slope 0 without COMPU-INVERSE-VALUE ...)."""


# ---------------------------------------------------------------------------
# values


def frac(v: Any) -> Fraction:
    """Exact rational value of a number of the description or of a python value."""
    if isinstance(v, bool):
        raise TypeError("bool is not an ODX number")
    if isinstance(v, Fraction):
        return v
    if isinstance(v, int):
        return Fraction(v)
    if isinstance(v, float):
        if v != v or v in (math.inf, -math.inf):
            raise TypeError("non-finite")
        return Fraction(v)
    if isinstance(v, str):
        s = v.strip()
        try:
            return Fraction(int(s, 0))
        except ValueError:
            return Fraction(float(s))
    raise TypeError(type(v).__name__)


def admissible(v: Any, odx_type: str) -> bool:
    """Has `v` a python type that can carry a value of the ODX base type?"""
    if isinstance(v, bool):
        return False
    if odx_type in INT_TYPES:
        return isinstance(v, int)
    if odx_type in FLOAT_TYPES:
        return isinstance(v, (int, float)) and v == v and v not in (math.inf, -math.inf)
    if odx_type in STR_TYPES:
        return isinstance(v, str)
    if odx_type == "A_BYTEFIELD":
        return isinstance(v, (bytes, bytearray))
    return False


def f32(x: float) -> float:
    """Round a double to binary32 (and widen again)."""
    return struct.unpack(">f", struct.pack(">f", x))[0]


def _ulp(x: float) -> float:
    return math.ulp(x) if x == x and abs(x) != math.inf else 0.0


def _ulp32(x: float) -> float:
    if x == 0:
        return 2.0**-149
    e = math.frexp(abs(x))[1]  # x = m * 2**e, 0.5 <= m < 1
    return max(2.0**(e - 24), 2.0**-149)


def accept_numeric(observed: Any, exact: Fraction, target_type: str,
                   magnitude: Union[int, float, Fraction, None] = None) -> bool:
    """Is `observed` an acceptable machine result for the exact value?

    integral target: |observed - exact| <= 1/2 (+ a float-noise allowance that is zero for
    integer arithmetic) - either tie direction passes, truncation does not.
    real target: within 4 ulp / 1e-9 relative of the correctly rounded double (or of the
    correctly rounded binary32 for A_FLOAT32); `magnitude` (largest intermediate term of
    the formula) widens the allowance where the formula cancels.
    """
    if isinstance(observed, bool) or not isinstance(observed, (int, float)):
        return False
    if isinstance(observed, float) and (observed != observed or abs(observed) == math.inf):
        return False
    mag = float(abs(magnitude)) if magnitude is not None else 0.0
    if target_type in INT_TYPES:
        if isinstance(observed, float) and not observed.is_integer():
            return False
        # double arithmetic inside an implementation may move a value across a tie; this
        # allowance is zero whenever the exact value has a small denominator
        noise = Fraction(max(1.0, mag, abs(float(exact)))) * Fraction(1, 10**9) \
            if _has_float_noise(exact) else Fraction(0)
        top = max(mag, abs(float(exact)))
        if top >= 2.0 ** 40:
            # an implementation that computes in doubles is only exact to a few units in the
            # last place of its largest intermediate; near 2^53 that is a whole unit (below
            # 2^40 the allowance would be < 0.001 and is not granted at all)
            noise += Fraction(top) * Fraction(4, 2 ** 52)
        return abs(Fraction(observed) - exact) <= Fraction(1, 2) + noise
    try:
        rd = float(exact)
    except OverflowError:
        return False
    obs = float(observed)
    tol = max(4 * _ulp(rd), 1e-9 * abs(rd), 1e-12 * mag)
    if abs(obs - rd) <= tol:
        return True
    if target_type == "A_FLOAT32":
        try:
            r32 = f32(rd)
        except OverflowError:
            return False
        return abs(obs - r32) <= max(4 * _ulp32(r32), 1e-12 * mag)
    return False


def _has_float_noise(exact: Fraction) -> bool:
    """Exact values with a large dyadic / non-trivial denominator can only be approximated by
    double arithmetic; plain halves, quarters ... and integers are computed exactly."""
    d = exact.denominator
    return d > 1024


# ---------------------------------------------------------------------------
# limits and scales


class Lim:
    """One LOWER-/UPPER-LIMIT: value (exact) and interval type."""

    def __init__(self, raw: Any, string_domain: bool = False):
        self.present = raw is not None
        self.value: Any = None
        self.kind = "INFINITE"
        if raw is None:
            return
        val, it = raw
        it = it or "CLOSED"  # INTERVAL-TYPE defaults to CLOSED
        if val is None or it == "INFINITE":
            self.kind = "INFINITE"
            self.value = None if val is None else (val if string_domain else frac(val))
            if it != "INFINITE":
                self.kind = "INFINITE"
            return
        self.kind = it
        self.value = val if string_domain else frac(val)

    @property
    def finite(self) -> bool:
        return self.present and self.kind != "INFINITE" and self.value is not None

    def ok_lower(self, x: Any) -> bool:
        if not self.finite:
            return True
        return x >= self.value if self.kind == "CLOSED" else x > self.value

    def ok_upper(self, x: Any) -> bool:
        if not self.finite:
            return True
        return x <= self.value if self.kind == "CLOSED" else x < self.value


def _const(d: Optional[Dict[str, Any]], numeric: bool) -> Any:
    if d is None:
        return None
    if d.get("v") is not None:
        return frac(d["v"]) if numeric else d["v"]
    if d.get("vt") is not None:
        return d["vt"]
    return None


class Scale:

    def __init__(self, sc: Dict[str, Any], domain_numeric: bool, range_numeric: bool):
        self.lo = Lim(sc.get("lo"), not domain_numeric)
        self.hi = Lim(sc.get("hi"), not domain_numeric)
        self.num = [frac(c) for c in sc["num"]] if sc.get("num") is not None else None
        self.den = [frac(c) for c in (sc.get("den") or [])]
        self.const = _const(sc.get("const"), range_numeric)
        self.inv = _const(sc.get("inv"), domain_numeric)

    @property
    def one_sided(self) -> bool:
        return self.lo.present != self.hi.present

    def contains(self, x: Any, one_sided: str) -> bool:
        """one_sided: 'point' (the single given limit is the only admitted value) or 'open'
        (the missing side is unbounded)."""
        if not self.lo.present and not self.hi.present:
            return True
        if self.one_sided and one_sided == "point":
            only = self.lo if self.lo.present else self.hi
            return only.value is not None and x == only.value
        return self.lo.ok_lower(x) and self.hi.ok_upper(x)

    def near_limit(self, x: Fraction) -> bool:
        for l in (self.lo, self.hi):
            if l.finite and abs(x - l.value) <= Fraction(1, 10**9) * max(1, abs(l.value)):
                return True
        return False

    # linear view ---------------------------------------------------------
    @property
    def n0(self) -> Fraction:
        return self.num[0] if self.num else Fraction(0)

    @property
    def n1(self) -> Fraction:
        return self.num[1] if self.num and len(self.num) > 1 else Fraction(0)

    @property
    def d0(self) -> Fraction:
        return self.den[0] if self.den else Fraction(1)

    @property
    def slope(self) -> Fraction:
        return self.n1 / self.d0

    def linear(self, x: Fraction) -> Fraction:
        return (self.n0 + self.n1 * x) / self.d0

    def rational(self, x: Fraction) -> Fraction:
        n = Fraction(0)
        for c in reversed(self.num or []):
            n = n * x + c
        if not self.den:
            return n
        d = Fraction(0)
        for c in reversed(self.den):
            d = d * x + c
        if d == 0:
            raise Undefined("denominator is zero")
        return n / d

    def rational_magnitude(self, x: Fraction) -> float:
        ax = abs(x)
        n = sum((abs(c) * ax**k for k, c in enumerate(self.num or [])), Fraction(0))
        if not self.den:
            return float(n)
        d = Fraction(0)
        for c in reversed(self.den):
            d = d * x + c
        dm = sum((abs(c) * ax**k for k, c in enumerate(self.den)), Fraction(0))
        if d == 0:
            return math.inf
        # (the numerator sum itself is an intermediate of every implementation, too)
        return float(max(n, n / abs(d) * (dm / abs(d))))

    @property
    def affine(self) -> bool:
        return self.num is not None and len(self.num) <= 2 and len(self.den) <= 1 and \
            self.d0 != 0


def _floor(x: Fraction) -> int:
    return x.numerator // x.denominator


# ---------------------------------------------------------------------------


class Compu:

    def __init__(self, model: Dict[str, Any], internal_type: str, physical_type: str,
                 one_sided: Optional[str] = None):
        self.model = model
        self.cat: str = model["cat"]
        self.itype = internal_type
        self.ptype = physical_type
        self.int_internal = internal_type in INT_TYPES
        self.int_physical = physical_type in INT_TYPES
        inum = internal_type in INT_TYPES + FLOAT_TYPES
        pnum = physical_type in INT_TYPES + FLOAT_TYPES
        i2p = model.get("i2p") or {}
        p2i = model.get("p2i")
        self.scales = [Scale(s, inum, pnum) for s in i2p.get("scales", [])]
        self.has_p2i = p2i is not None
        self.inv_scales = [Scale(s, pnum, inum) for s in (p2i or {}).get("scales", [])]
        self.phys_default = _const(i2p.get("default"), pnum)
        self.phys_default_inverse = _const((i2p.get("default") or {}).get("inv"), pnum)
        self.int_default = _const((p2i or {}).get("default"), inum)
        if one_sided is None:
            one_sided = "point" if self.cat in ("TEXTTABLE", "SCALE-LINEAR",
                                                "SCALE-RAT-FUNC") else "open"
        self.one_sided = one_sided
        if self.cat == "TAB-INTP":
            self.points: List[Tuple[Fraction, Fraction]] = [
                (s.lo.value, s.const) for s in self.scales
            ]

    # -- readings ----------------------------------------------------------
    @staticmethod
    def readings(model: Dict[str, Any], internal_type: str, physical_type: str) -> List["Compu"]:
        base = Compu(model, internal_type, physical_type)
        if base.cat in ("LINEAR", "SCALE-LINEAR", "RAT-FUNC", "SCALE-RAT-FUNC") and \
                any(s.one_sided for s in base.scales + base.inv_scales):
            return [Compu(model, internal_type, physical_type, "point"),
                    Compu(model, internal_type, physical_type, "open")]
        return [base]

    # -- helpers -----------------------------------------------------------
    def _ival(self, v: Any) -> Any:
        if not admissible(v, self.itype):
            raise Invalid(f"{type(v).__name__} is not admissible for {self.itype}")
        return v if isinstance(v, str) else frac(v)

    def _pval(self, p: Any) -> Any:
        if not admissible(p, self.ptype):
            raise Invalid(f"{type(p).__name__} is not admissible for {self.ptype}")
        return p if isinstance(p, str) else frac(p)

    def _first(self, scales: Sequence[Scale], x: Any) -> Optional[Scale]:
        for s in scales:
            if s.contains(x, self.one_sided):
                return s
        return None

    def matching_scales(self, v: Any) -> int:
        """number of COMPU-INTERNAL-TO-PHYS scales whose limits contain v"""
        try:
            x = self._ival(v)
        except Invalid:
            return 0
        return sum(1 for s in self.scales if s.contains(x, self.one_sided))

    # -- validity ----------------------------------------------------------
    def valid_internal(self, v: Any) -> bool:
        if not admissible(v, self.itype):
            return False
        if self.cat == "IDENTICAL":
            return True
        if self.cat == "COMPUCODE":
            return False
        x = v if isinstance(v, str) else frac(v)
        if self.cat == "TAB-INTP":
            xs = [p[0] for p in self.points]
            return bool(xs) and min(xs) <= x <= max(xs)
        return self._first(self.scales, x) is not None

    def internal_default_applies(self, v: Any) -> bool:
        """TEXTTABLE: v is outside all scales but COMPU-DEFAULT-VALUE gives it a text."""
        return self.cat == "TEXTTABLE" and admissible(v, self.itype) and \
            self.phys_default is not None and not self.valid_internal(v)

    def valid_physical(self, p: Any) -> Optional[bool]:
        if self.cat == "COMPUCODE":
            return False
        if not admissible(p, self.ptype):
            return False
        if self.cat == "IDENTICAL":
            return True
        if self.cat == "TEXTTABLE":
            if any(s.const == p for s in self.scales):
                return True
            return None if (self.int_default is not None or p == self.phys_default) else False
        try:
            x = self.p2i_exact(p)
        except NotInvertible:
            return None
        except Invalid:
            # not the exact image of a point of the domain; for an integral internal type the
            # neighbouring integers may still be valid - the rule does not say
            return None if self.int_internal or self.int_physical else False
        if self.int_internal and isinstance(x, Fraction) and x.denominator != 1:
            return None
        return True

    # -- internal -> physical ---------------------------------------------
    def i2p_exact(self, v: Any) -> Exact:
        x = self._ival(v)
        cat = self.cat
        if cat == "IDENTICAL":
            return x
        if cat == "COMPUCODE":
            raise Invalid("COMPUCODE cannot be evaluated")
        if cat in ("LINEAR", "SCALE-LINEAR"):
            s = self._first(self.scales, x)
            if s is None:
                raise Invalid("outside all scales")
            if s.d0 == 0:
                raise Undefined("denominator 0")
            return s.linear(x)
        if cat in ("RAT-FUNC", "SCALE-RAT-FUNC"):
            s = self._first(self.scales, x)
            if s is None:
                raise Invalid("outside all scales")
            return s.rational(x)
        if cat == "TAB-INTP":
            return self._interpolate(x, [p[0] for p in self.points], [p[1] for p in self.points])
        if cat == "TEXTTABLE":
            s = self._first(self.scales, x)
            if s is None:
                if self.phys_default is not None:
                    return self.phys_default
                raise Invalid("outside all scales, no default")
            if s.const is None:
                raise Invalid("scale without COMPU-CONST")
            return s.const
        raise ValueError(cat)

    def i2p_magnitude(self, v: Any) -> float:
        """Upper bound of the intermediate terms of the formula (conditioning of float results)."""
        try:
            x = self._ival(v)
        except Invalid:
            return 0.0
        if isinstance(x, str):
            return 0.0
        if self.cat in ("LINEAR", "SCALE-LINEAR", "RAT-FUNC", "SCALE-RAT-FUNC"):
            s = self._first(self.scales, x)
            return s.rational_magnitude(x) if s is not None and s.num is not None else 0.0
        if self.cat == "TAB-INTP":
            return float(max([abs(p[1]) for p in self.points] + [abs(x)]))
        return float(abs(x))

    @staticmethod
    def _interpolate(x: Fraction, xs: List[Fraction], ys: List[Fraction]) -> Fraction:
        if not xs or x < min(xs) or x > max(xs):
            raise Invalid("outside the table")
        for i in range(len(xs) - 1):
            if xs[i] <= x <= xs[i + 1]:
                if xs[i] == xs[i + 1]:
                    return ys[i]
                return ys[i] + (x - xs[i]) * (ys[i + 1] - ys[i]) / (xs[i + 1] - xs[i])
        if len(xs) == 1 and x == xs[0]:
            return ys[0]
        raise Invalid("outside the table")

    # -- physical -> internal ---------------------------------------------
    def p2i_exact(self, p: Any) -> Exact:
        y = self._pval(p)
        cat = self.cat
        if cat == "IDENTICAL":
            return y
        if cat == "COMPUCODE":
            raise Invalid("COMPUCODE cannot be evaluated")
        if cat in ("LINEAR", "SCALE-LINEAR"):
            cands: List[Fraction] = []
            flat_hit = False
            partial = False  # pre-image between a valid and an invalid integer: undetermined
            for s in self.scales:
                if s.d0 == 0:
                    continue
                if s.n1 == 0:
                    c = s.n0 / s.d0
                    hit = abs(y - c) <= Fraction(1, 2) if self.int_physical else y == c
                    if hit:
                        if s.inv is None:
                            flat_hit = True
                        elif s.inv not in cands:
                            cands.append(s.inv)
                    continue
                x = (y * s.d0 - s.n0) / s.n1
                if _has_float_noise(x) and s.near_limit(x):
                    partial = True  # a double cannot tell on which side of the limit this is
                    continue
                if not s.contains(x, self.one_sided):
                    continue
                if self.int_internal and x.denominator != 1:
                    lo = Fraction(_floor(x))
                    if not (s.contains(lo, self.one_sided) and s.contains(lo + 1, self.one_sided)):
                        partial = True
                        continue
                if x not in cands:
                    cands.append(x)
            if flat_hit or partial or len(cands) > 1:
                raise NotInvertible("several pre-images / slope 0 without inverse value / "
                                    "pre-image next to an excluded integer")
            if not cands:
                raise Invalid("no scale has a pre-image")
            return cands[0]
        if cat in ("RAT-FUNC", "SCALE-RAT-FUNC"):
            if not self.has_p2i or not self.inv_scales:
                raise NotInvertible("no COMPU-PHYS-TO-INTERNAL")
            s = self._first(self.inv_scales, y)
            if s is None:
                raise Invalid("outside all COMPU-PHYS-TO-INTERNAL scales")
            return s.rational(y)
        if cat == "TAB-INTP":
            xs = [q[0] for q in self.points]
            ys = [q[1] for q in self.points]
            sols: List[Fraction] = []
            for i in range(len(xs) - 1):
                lo, hi = min(ys[i], ys[i + 1]), max(ys[i], ys[i + 1])
                if lo <= y <= hi:
                    if ys[i] == ys[i + 1]:
                        raise NotInvertible("flat table segment")
                    x = xs[i] + (y - ys[i]) * (xs[i + 1] - xs[i]) / (ys[i + 1] - ys[i])
                    if x not in sols:
                        sols.append(x)
            if len(xs) == 1 and y == ys[0]:
                sols.append(xs[0])
            if len(sols) > 1:
                raise NotInvertible("table is not monotone")
            if not sols:
                raise Invalid("outside the table")
            return sols[0]
        if cat == "TEXTTABLE":
            hits = [s for s in self.scales if s.const == y]
            if len(hits) > 1:
                raise NotInvertible("text occurs in several scales")
            if not hits:
                if self.int_default is not None:
                    return self.int_default
                raise Invalid("unknown text")
            s = hits[0]
            if s.inv is not None:
                return s.inv
            if s.lo.value is not None:
                return s.lo.value
            if s.hi.value is not None:
                return s.hi.value
            raise NotInvertible("scale has neither inverse value nor limit value")
        raise ValueError(cat)

    def linear_preimages(self, p: Any) -> List[Fraction]:
        """f_k^-1(p) of every LINEAR / SCALE-LINEAR scale with a slope, limits ignored"""
        try:
            y = self._pval(p)
        except Invalid:
            return []
        if self.cat not in ("LINEAR", "SCALE-LINEAR") or isinstance(y, str):
            return []
        return [(y * s.d0 - s.n0) / s.n1 for s in self.scales if s.n1 != 0 and s.d0 != 0]

    def p2i_magnitude(self, p: Any) -> float:
        try:
            y = self._pval(p)
        except Invalid:
            return 0.0
        if isinstance(y, str):
            return 0.0
        if self.cat in ("LINEAR", "SCALE-LINEAR"):
            m = 0.0
            for s in self.scales:
                if s.n1 != 0:
                    m = max(m, float((abs(y * s.d0) + abs(s.n0)) / abs(s.n1)))
            return m
        if self.cat in ("RAT-FUNC", "SCALE-RAT-FUNC"):
            s = self._first(self.inv_scales, y)
            return s.rational_magnitude(y) if s is not None and s.num is not None else 0.0
        if self.cat == "TAB-INTP":
            return float(max([abs(q[0]) for q in self.points] + [abs(y)]))
        return float(abs(y))

    # -- structure ---------------------------------------------------------
    def is_tie(self, exact: Any, direction: str = "i2p", magnitude: float = 0.0) -> bool:
        """exact value of the form k+1/2 (or indistinguishable from one in double arithmetic)
        when the target type of the direction is integral"""
        target_int = self.int_physical if direction == "i2p" else self.int_internal
        if not target_int or not isinstance(exact, Fraction):
            return False
        fr = exact - _floor(exact)
        d = abs(fr - Fraction(1, 2))
        if d == 0:
            return True
        if _has_float_noise(exact):
            return d <= Fraction(max(1.0, magnitude, abs(float(exact)))) * Fraction(1, 10**8)
        return False

    def _image_hull(self, s: Scale) -> Optional[Tuple[Fraction, Fraction]]:
        """closed hull of the image of an affine scale, widened by 1/2 for integral results;
        None if unbounded"""
        if not (s.lo.finite and s.hi.finite):
            if s.one_sided and self.one_sided == "point":
                only = s.lo if s.lo.present else s.hi
                if only.value is None:
                    return None
                a = b = s.linear(only.value)
            else:
                return None
        else:
            a, b = s.linear(s.lo.value), s.linear(s.hi.value)
        lo, hi = min(a, b), max(a, b)
        if self.int_physical:
            lo, hi = lo - Fraction(1, 2), hi + Fraction(1, 2)
        return lo, hi

    def injective(self) -> bool:
        """Distinct valid internal values have distinct physical values, and the inverse the
        rule prescribes returns the original value."""
        cat = self.cat
        if cat == "IDENTICAL":
            return True
        if cat == "COMPUCODE":
            return False
        if self.int_physical and not self.int_internal and cat != "TEXTTABLE":
            return False  # rounding to integers merges neighbouring reals
        if cat in ("LINEAR", "SCALE-LINEAR"):
            if not self.scales or any(s.d0 == 0 for s in self.scales):
                return False
            for s in self.scales:
                if s.n1 == 0 or (self.int_physical and abs(s.slope) < 1):
                    return False
            if len(self.scales) == 1:
                return True
            if self.monotone_continuous(strict=True):
                return True
            hulls = [self._image_hull(s) for s in self.scales]
            if any(h is None for h in hulls):
                return False
            hs = sorted(hulls)  # type: ignore
            return all(hs[i][1] < hs[i + 1][0] for i in range(len(hs) - 1))
        if cat == "RAT-FUNC":
            if not self.has_p2i or len(self.scales) != 1 or len(self.inv_scales) != 1:
                return False
            f, g = self.scales[0], self.inv_scales[0]
            if f.num is not None and g.num is not None and len(f.num) == 2 and len(f.den) == 2 \
                    and len(g.num) == 2 and len(g.den) == 2 and not self.int_physical:
                # Moebius map y = (n0 + n1 x)/(d0 + d1 x): injective wherever it is defined if
                # its determinant does not vanish; its inverse is x = (n0 - d0 y)/(-n1 + d1 y),
                # and g is that map iff its coefficients are proportional to it
                n0, n1, d0, d1 = f.num[0], f.num[1], f.den[0], f.den[1]
                if n1 * d0 - n0 * d1 == 0:
                    return False
                want = [n0, -d0, -n1, d1]
                have = [g.num[0], g.num[1], g.den[0], g.den[1]]
                k = next((h / w for h, w in zip(have, want) if w != 0), None)
                return k is not None and k != 0 and all(h == k * w for h, w in zip(have, want))
            if not (f.affine and g.affine) or f.n1 == 0 or g.n1 == 0:
                return False
            if self.int_physical and abs(f.slope) < 1:
                return False
            # g(f(x)) == x  <=>  g.slope * f.slope == 1 and g(f(0)) == 0
            return g.slope * f.slope == 1 and g.linear(f.linear(Fraction(0))) == 0
        if cat == "SCALE-RAT-FUNC":
            # only the simplest form: one affine scale with its exact affine inverse
            if not self.has_p2i or len(self.scales) != 1 or len(self.inv_scales) != 1:
                return False
            f, g = self.scales[0], self.inv_scales[0]
            if not (f.affine and g.affine) or f.n1 == 0 or g.n1 == 0:
                return False
            if self.int_physical and abs(f.slope) < 1:
                return False
            return g.slope * f.slope == 1 and g.linear(f.linear(Fraction(0))) == 0
        if cat == "TAB-INTP":
            if len(self.points) < 2:
                return False
            xs = [q[0] for q in self.points]
            ys = [q[1] for q in self.points]
            if any(xs[i] >= xs[i + 1] for i in range(len(xs) - 1)):
                return False
            up = all(ys[i] < ys[i + 1] for i in range(len(ys) - 1))
            down = all(ys[i] > ys[i + 1] for i in range(len(ys) - 1))
            if not (up or down):
                return False
            if self.int_physical:
                return all(abs((ys[i + 1] - ys[i]) / (xs[i + 1] - xs[i])) >= 1
                           for i in range(len(xs) - 1))
            return True
        if cat == "TEXTTABLE":
            texts = [s.const for s in self.scales]
            if len(set(texts)) != len(texts) or any(t is None for t in texts):
                return False
            if self.phys_default is not None:
                return False
            for s in self.scales:
                if s.one_sided:
                    pt = (s.lo if s.lo.present else s.hi).value
                elif s.lo.finite and s.hi.finite and s.lo.value == s.hi.value and \
                        s.lo.kind == s.hi.kind == "CLOSED":
                    pt = s.lo.value
                else:
                    return False
                if pt is None or (s.inv is not None and s.inv != pt):
                    return False
            pts = [(s.lo if s.lo.present else s.hi).value for s in self.scales]
            return len(set(pts)) == len(pts)
        return False

    def monotone_continuous(self, strict: bool = False) -> bool:
        """ODX invertibility condition of a piecewise linear method: scales in ascending order
        without gaps, equal values at the junctions, all slopes of one sign or 0 (a scale of
        slope 0 needs a COMPU-INVERSE-VALUE; `strict` forbids slope 0)."""
        if self.cat not in ("LINEAR", "SCALE-LINEAR") or not self.scales:
            return False
        ss = self.scales
        if any(s.d0 == 0 or s.num is None for s in ss):
            return False
        slopes = [s.slope for s in ss if s.n1 != 0]
        if not slopes or not (all(x > 0 for x in slopes) or all(x < 0 for x in slopes)):
            return False
        if any(s.n1 == 0 and (strict or s.inv is None) for s in ss):
            return False
        if any(s.one_sided for s in ss) and len(ss) > 1:
            return False
        for a, b in zip(ss, ss[1:]):
            if not (a.hi.finite and b.lo.finite) or a.hi.value != b.lo.value:
                return False
            if a.hi.kind == "OPEN" and b.lo.kind == "OPEN":
                return False  # the junction itself is excluded
            if a.lo.finite and a.lo.value > a.hi.value:
                return False
            ya, yb = a.linear(a.hi.value), b.linear(b.lo.value)
            if ya != yb:
                # coefficients are xsd:double: two segments written with decimal fractions
                # (0.1 x and -2.8 + 0.5 x at x = 7) meet up to the rounding of their literals;
                # that is continuity as far as a description in doubles can express it
                if abs(ya - yb) > Fraction(1, 10**12) * max(1, abs(ya), abs(yb)):
                    return False
        return True
