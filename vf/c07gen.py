"""Generator of compu-method cases for C07 (pure data, no odxtools, no reference).

A case is a JSON-able dict

    {"cat": .., "itype": .., "ptype": .., "bits": 8|16|32|64, "compu": <odxgen compu model>,
     "variant": "<how it was built>", "lk": [limit kinds used], "risky": None | "<reason>"}

`systematic()` enumerates the grid category x type pair x limit kinds x scale counts with the
coefficient alphabet rotated through it; `randomized(rng, n)` draws further cases from the
same alphabets.  Everything is deterministic in its arguments.
"""
from __future__ import annotations

import itertools
import random
from fractions import Fraction
from typing import Any, Dict, Iterator, List, Optional, Sequence, Tuple

J = Dict[str, Any]

ITYPES = ["A_INT32", "A_UINT32", "A_FLOAT32", "A_FLOAT64"]
PTYPES_NUM = ["A_INT32", "A_UINT32", "A_FLOAT64"]
INTS = ("A_INT32", "A_UINT32")
LIMIT_KINDS = ["closed", "open", "infinite", "missing", "nointerval"]

# (n1, d0): slope n1/d0 - the alphabet {0, +-1, +-2, +-3, 1/2, 1/10, large}
SLOPES: List[Tuple[int, int]] = [(1, 1), (-1, 1), (2, 1), (-2, 1), (3, 1), (-3, 1), (1, 2),
                                 (1, 10), (1000000, 1), (0, 1), (-1, 2), (3, 10), (-3, 2),
                                 (7, 2)]
OFFSETS = [0, 1, -1, 2, -3, 5, 7, 100, -1000000, 3]
FLOAT_SLOPES = [0.5, 0.1, 2.5, -0.1, -0.5, 1000000.5, 0.3]
FLOAT_OFFSETS = [0.25, -0.1, 0.3, 0.0, 12.5]


def cls(t: str) -> str:
    return "int" if t in INTS else ("str" if "STRING" in t else "float")


def type_pair(itype: str, ptype: str) -> str:
    return f"{cls(itype)}->{cls(ptype)}"


def bits_for(itype: str, k: int) -> int:
    if itype == "A_FLOAT32":
        return 32
    if itype == "A_FLOAT64":
        return 64
    return 8 if k % 3 else 16


def domain(itype: str, bits: int) -> Tuple[int, int]:
    if itype == "A_UINT32":
        return 0, (1 << bits) - 1
    if itype == "A_INT32":
        return -(1 << (bits - 1)), (1 << (bits - 1)) - 1
    return -100, 300


def lim(value: Any, kind: str, flip: bool = False) -> Any:
    if kind == "closed":
        return (value, "CLOSED")
    if kind == "open":
        return (value, "OPEN")
    if kind == "nointerval":
        return (value, None)
    if kind == "infinite":
        return (value, "INFINITE") if flip else (None, "INFINITE")
    if kind == "missing":
        return None
    raise ValueError(kind)


def breakpoints(r: random.Random, itype: str, bits: int, n: int, integral: bool) -> List[Any]:
    lo, hi = domain(itype, bits)
    span = hi - lo
    a, b = lo + span // 10, hi - span // 10
    if bits == 16:  # keep the interesting region small enough to be hit by boundary probes
        a, b = (lo + span // 3, lo + span // 3 + 400)
    pts = sorted(r.sample(range(a, b), n))
    if itype not in INTS and not integral:
        pts = [p + r.choice([0, 0.5, 0.25, 0.75, 0]) for p in pts]
        pts = sorted(set(pts))
        while len(pts) < n:
            pts.append(pts[-1] + 1.5)
    return pts


def _coef(r: random.Random, range_type: str, k: int) -> Tuple[List[Any], List[Any]]:
    """numerator / denominator of a linear scale, rotating through the alphabet"""
    n1, d0 = SLOPES[k % len(SLOPES)]
    n0 = OFFSETS[(k // len(SLOPES) + k) % len(OFFSETS)]
    if range_type not in INTS and k % 5 == 4:
        return [FLOAT_OFFSETS[k % len(FLOAT_OFFSETS)], FLOAT_SLOPES[k % len(FLOAT_SLOPES)]], \
            ([] if k % 2 else [2])
    den: List[Any] = [d0] if (d0 != 1 or k % 3 == 0) else []
    return [n0, n1], den


def case(cat: str, itype: str, ptype: str, bits: int, compu: J, variant: str,
         lk: Sequence[str], risky: Optional[str] = None) -> J:
    return {"cat": cat, "itype": itype, "ptype": ptype, "bits": bits, "compu": compu,
            "variant": variant, "lk": sorted(set(lk)), "risky": risky}


def _scale_limits_kinds(sc: J) -> List[str]:
    res = []
    for key in ("lo", "hi"):
        v = sc.get(key)
        if v is None:
            res.append("missing")
        elif v[1] == "INFINITE" or v[0] is None:
            res.append("infinite")
        elif v[1] is None:
            res.append("nointerval")
        else:
            res.append(v[1].lower())
    return res


def kinds_of(compu: J) -> List[str]:
    res: List[str] = []
    for d in ("i2p", "p2i"):
        for sc in (compu.get(d) or {}).get("scales", []):
            res += _scale_limits_kinds(sc)
    return res


# ---------------------------------------------------------------------------
# per-category builders


def linear(r: random.Random, itype: str, ptype: str, k: int, lok: str, hik: str) -> J:
    bits = bits_for(itype, k)
    b = breakpoints(r, itype, bits, 2, integral=(k % 2 == 0))
    num, den = _coef(r, ptype, k)
    sc: J = {"lo": lim(b[0], lok, k % 2 == 1), "hi": lim(b[1], hik, k % 2 == 0), "num": num,
             "den": den}
    if num[1] == 0 or k % 7 == 0:
        mid = b[0] + (b[1] - b[0]) // 2 if itype in INTS else float(b[0] + (b[1] - b[0]) / 2)
        sc["inv"] = {"v": mid}
    if len(num) == 2 and num[1] == 0 and k % 2:
        sc["num"] = [num[0]]  # slope omitted altogether
    m = {"cat": "LINEAR", "i2p": {"scales": [sc]}}
    return case("LINEAR", itype, ptype, bits, m, "single", kinds_of(m))


def linear_risky(itype: str, ptype: str, k: int) -> J:
    """float literal coefficient although the range type is integral (V is xsd:double)"""
    bits = bits_for(itype, k)
    lo, hi = domain(itype, bits)
    sc = {"lo": (max(lo, 0), "CLOSED"), "hi": (min(hi, 200), "CLOSED"),
          "num": [0, [0.5, 2.5, 0.1][k % 3]], "den": []}
    m = {"cat": "LINEAR", "i2p": {"scales": [sc]}}
    return case("LINEAR", itype, ptype, bits, m, "float-literal-coefficient", kinds_of(m),
                risky="float-coefficient/int-range-type")


def _inv_affine(n0: int, n1: int, d0: int) -> Tuple[List[int], List[int]]:
    # f(x) = (n0 + n1 x)/d0  =>  x = (-n0 + d0 y)/n1
    return [-n0, d0], [n1]


def ratfunc(r: random.Random, itype: str, ptype: str, k: int, lok: str, hik: str) -> J:
    bits = bits_for(itype, k)
    b = breakpoints(r, itype, bits, 2, integral=(k % 2 == 0))
    form = k % 9
    lo_l, hi_l = lim(b[0], lok, k % 2 == 1), lim(b[1], hik, k % 2 == 0)
    sc: J = {"lo": lo_l, "hi": hi_l}
    m: J = {"cat": "RAT-FUNC", "i2p": {"scales": [sc]}}
    variant = ["affine+inverse", "quadratic", "linear/linear", "no-denominator", "affine-no-p2i",
               "affine+inverse", "moebius+inverse", "reciprocal", "denominator-of-higher-degree"][form]
    if form in (0, 4, 5):
        n1, d0 = [(2, 1), (1, 1), (-3, 1), (1, 2), (3, 1), (-1, 1), (5, 2), (1, 10)][(k // 6) % 8]
        n0 = OFFSETS[(k // 6) % len(OFFSETS)]
        sc["num"], sc["den"] = [n0, n1], [d0]
        if form != 4:
            inum, iden = _inv_affine(n0, n1, d0)
            isc: J = {"num": inum, "den": iden}
            if ptype not in INTS or k % 4 == 0:
                pass  # unlimited inverse scale
            m["p2i"] = {"scales": [isc]}
    elif form == 1:
        sc["num"] = [OFFSETS[k % len(OFFSETS)], [1, -2, 3][k % 3], [1, -1, 2][(k // 3) % 3]]
        sc["den"] = [[1], [2], [10]][(k // 6) % 3]
        m["p2i"] = {"scales": [{"num": [1, 1, 1], "den": [2]}]}
    elif form == 6:
        # y = (n0 + n1 x)/(d0 + d1 x), pole outside of the domain, with its exact inverse
        # x = (n0 - d0 y)/(-n1 + d1 y): numerator AND denominator have two coefficients
        lo, hi = domain(itype, bits)
        n0, n1 = [(100, 3), (7, -2), (-40, 5)][(k // 7) % 3]
        d0, d1 = (hi + 4 + (k % 3), 1) if k % 2 else (-(lo - 6), 1)
        if n1 * d0 - n0 * d1 == 0:
            n0 += 1
        sc["num"], sc["den"] = [n0, n1], [d0, d1]
        # the inverse has a pole at y = n1/d1 (the asymptote, never an image): its scale is
        # limited to the images of the internal domain, as a describer would do
        ya, yb = Fraction(n0 + n1 * lo, d0 + d1 * lo), Fraction(n0 + n1 * hi, d0 + d1 * hi)
        ylo, yhi = (ya, yb) if ya <= yb else (yb, ya)
        if ptype in INTS:
            pl, ph = int(ylo) - 1, int(yhi) + 1
            if pl <= Fraction(n1, d1) <= ph:   # keep the pole outside
                pl, ph = (int(Fraction(n1, d1)) + 1, ph) if ya > Fraction(n1, d1) else (pl, int(Fraction(n1, d1)) - 1)
        else:
            pl, ph = float(ylo), float(yhi)
        m["p2i"] = {"scales": [{"lo": (pl, "CLOSED"), "hi": (ph, "CLOSED"),
                                "num": [n0, -d0], "den": [-n1, d1]}]}
    elif form == 7:
        # n0 / (d0 + d1 x): the denominator has MORE coefficients than the numerator
        lo, hi = domain(itype, bits)
        sc["num"] = [[1000, -360, 7][k % 3]]
        sc["den"] = [hi + 3 + (k % 4), 1] if k % 2 else [-(lo - 5), 1]
    elif form == 8:
        # (n0 + n1 x) / (d0 + d1 x + d2 x^2) with a denominator without real roots
        sc["num"] = [[250, -40, 1][k % 3], [0, 4, -3][(k // 3) % 3]]
        sc["den"] = [[1, 0, 1], [2, 1, 1], [5, -2, 1]][(k // 9) % 3]
    elif form == 2:
        # (n0 + n1 x) / (d0 + d1 x) with a pole outside of the sampled domain
        lo, hi = domain(itype, bits)
        sc["num"] = [3, [2, -1, 5][k % 3]]
        sc["den"] = [hi + 7 + (k % 5), 1] if k % 2 else [-(lo - 9), 1]
        m["p2i"] = {"scales": [{"lo": (1, "CLOSED"), "hi": (100, "OPEN"),
                                "num": [1, 2], "den": [1, 1]}]}
    else:
        sc["num"] = [OFFSETS[k % len(OFFSETS)], [2, -1, 3][k % 3]]
        # COMPU-DENOMINATOR omitted: denominator 1
        m["p2i"] = {"scales": [{"num": [0, 1]}]}
    return case("RAT-FUNC", itype, ptype, bits, m, variant, kinds_of(m))


def _mid(a: Any, b: Any, itype: str) -> Any:
    return a + (b - a) // 2 if itype in INTS else float(a + (b - a) / 2)


SL_VARIANTS = ["cont-inc", "cont-dec", "disjoint-images", "discontinuous", "mixed-sign", "gaps",
               "overlap", "cont-inc-flat", "cont-dec-flat", "cont-dec-flat-first"]
JUNCTIONS = [("closed", "closed"), ("open", "closed"), ("closed", "open"), ("nointerval", "open"),
             ("open", "nointerval")]


def scalelinear(r: random.Random, itype: str, ptype: str, k: int, nsc: int, variant: str,
                outer: Tuple[str, str] = ("closed", "closed")) -> J:
    bits = bits_for(itype, k)
    integral_bp = ptype in INTS or k % 2 == 0
    b = breakpoints(r, itype, bits, nsc + 1, integral=integral_bp)
    scales: List[J] = []
    d = [1, 1, 2, 1, 10][k % 5] if variant.startswith("cont") else 1
    prev: Optional[Tuple[int, int]] = None
    for i in range(nsc):
        jl = JUNCTIONS[(k + i) % len(JUNCTIONS)]
        lo_kind = outer[0] if i == 0 else jl[1]
        hi_kind = outer[1] if i == nsc - 1 else JUNCTIONS[(k + i + 1) % len(JUNCTIONS)][0]
        lo_v, hi_v = b[i], b[i + 1]
        if variant == "gaps" and i > 0:
            lo_v = b[i] + (1 if itype in INTS else 0.5)
            lo_v = min(lo_v, hi_v)
        if variant == "overlap" and i > 0:
            lo_v = b[i] - (2 if itype in INTS else 1.5)
        sc: J = {"lo": lim(lo_v, lo_kind, i % 2 == 0), "hi": lim(hi_v, hi_kind, i % 2 == 1)}
        if variant in ("cont-inc", "cont-dec", "cont-inc-flat", "cont-dec-flat",
                       "cont-dec-flat-first"):
            sign = -1 if variant.startswith("cont-dec") else 1
            n1 = sign * [1, 2, 3, 1, 5, 2][(k + i) % 6]
            if variant in ("cont-inc-flat", "cont-dec-flat") and i == 1:
                n1 = 0
            if variant == "cont-dec-flat-first" and i == 0:
                n1 = 0
            if prev is None:
                n0 = OFFSETS[k % len(OFFSETS)]
            else:
                # continuity at b[i]:  n0 + n1 b = n0' + n1' b
                n0 = prev[0] + (prev[1] - n1) * b[i]
            prev = (n0, n1)
            if isinstance(n0, float) and n0.is_integer():
                n0 = int(n0)
            sc["num"], sc["den"] = [n0, n1], ([d] if d != 1 or k % 2 else [])
            if n1 == 0:
                sc["inv"] = {"v": _mid(b[i], b[i + 1], itype)}
        elif variant == "disjoint-images":
            n1 = [1, 2, 3][k % 3] * (-1 if k % 4 == 3 else 1)
            sc["num"], sc["den"] = [i * 10000000 + OFFSETS[k % len(OFFSETS)], n1], []
        elif variant == "mixed-sign":
            n1 = [2, -1, 3, -2][(k + i) % 4]
            sc["num"], sc["den"] = [OFFSETS[(k + i) % len(OFFSETS)], n1], []
        else:
            num, den = _coef(r, ptype, k * 7 + i * 3 + 1)
            sc["num"], sc["den"] = num, den
            if num[1] == 0:
                sc["inv"] = {"v": _mid(b[i], b[i + 1], itype)}
        scales.append(sc)
    m = {"cat": "SCALE-LINEAR", "i2p": {"scales": scales}}
    return case("SCALE-LINEAR", itype, ptype, bits, m, f"{variant}/{nsc}", kinds_of(m))


def scaleratfunc(r: random.Random, itype: str, ptype: str, k: int, nsc: int) -> J:
    bits = bits_for(itype, k)
    b = breakpoints(r, itype, bits, nsc + 1, integral=(k % 2 == 0))
    scales: List[J] = []
    for i in range(nsc):
        jl = JUNCTIONS[(k + i) % len(JUNCTIONS)]
        lo_kind = ["closed", "infinite", "open", "nointerval"][k % 4] if i == 0 else jl[1]
        hi_kind = ["closed", "open", "infinite", "missing"][(k // 4) % 4] if i == nsc - 1 \
            else JUNCTIONS[(k + i + 1) % len(JUNCTIONS)][0]
        sc: J = {"lo": lim(b[i], lo_kind), "hi": lim(b[i + 1], hi_kind)}
        f = (k + i) % 5
        if f == 4:
            # a segment whose denominator is of higher degree than its numerator
            sc["num"], sc["den"] = [[90, -17][k % 2]], [[1, 0, 1], [3, 1, 1]][(k // 2) % 2]
        elif f == 0:
            sc["num"], sc["den"] = [OFFSETS[(k + i) % len(OFFSETS)], 1, 1], [[1], [2], [10]][k % 3]
        elif f == 1:
            sc["num"], sc["den"] = [i, [2, -3, 1][k % 3]], [1]
        elif f == 2:
            lo, hi = domain(itype, bits)
            sc["num"], sc["den"] = [1, 1], [hi + 11, 1]
        else:
            sc["num"], sc["den"] = [5 * i, 3], [2]
        scales.append(sc)
    m: J = {"cat": "SCALE-RAT-FUNC", "i2p": {"scales": scales}}
    pv = k % 3
    if pv == 0:
        m["p2i"] = {"scales": [{"lo": (0, "CLOSED"), "hi": (50, "OPEN"), "num": [1, 2], "den": [1]},
                               {"lo": (50, "CLOSED"), "hi": (1000, "CLOSED"),
                                "num": [0, 1, 1], "den": [4]}]}
    elif pv == 1:
        m["p2i"] = {"scales": [{"num": [0, 1], "den": [2]}]}
    return case("SCALE-RAT-FUNC", itype, ptype, bits, m, f"rat/{nsc}/p2i{pv}", kinds_of(m))


TAB_SHAPES = ["inc", "dec", "zigzag", "flat", "steep-inc", "steep-dec"]


def tabintp(r: random.Random, itype: str, ptype: str, k: int, npts: int, shape: str) -> J:
    bits = bits_for(itype, k)
    xs = breakpoints(r, itype, bits, npts, integral=(k % 2 == 0))
    ys: List[Any] = []
    y: Any = [0, -50, 7, 1000][k % 4]
    for i in range(npts):
        if i:
            dx = xs[i] - xs[i - 1]
            step = {"inc": r.choice([1, 2, 7, 17]), "dec": -r.choice([1, 3, 7, 17]),
                    "zigzag": (r.choice([5, 9]) if i % 2 else -r.choice([4, 7])),
                    "flat": (0 if i == 1 else r.choice([3, 8])),
                    "steep-inc": int(dx * r.choice([1, 2, 3])) + r.choice([0, 1, 5]),
                    "steep-dec": -int(dx * r.choice([1, 2, 3])) - r.choice([0, 1, 5])}[shape]
            y = y + step
        ys.append(y)
    if ptype == "A_UINT32":
        off = -min(ys) + (k % 3) if min(ys) < 0 else 0
        ys = [v + off for v in ys]
    if ptype not in INTS and k % 3 == 1:
        ys = [v + 0.5 for v in ys]
    kind = [("CLOSED"), None, "CLOSED"][k % 3]
    scales = [{"lo": (x, kind), "const": {"v": yv}} for x, yv in zip(xs, ys)]
    m = {"cat": "TAB-INTP", "i2p": {"scales": scales}}
    return case("TAB-INTP", itype, ptype, bits, m, f"{shape}/{npts}",
                ["closed" if kind else "nointerval"])


TT_VARIANTS = ["points", "lower-only", "ranges", "ranges+inv", "phys-default", "int-default",
               "both-defaults", "dup-text", "default+inv", "ranges-gaps", "points+inv"]


def texttable(r: random.Random, itype: str, k: int, nsc: int, variant: str) -> J:
    bits = bits_for(itype, k)
    ptype = "A_UNICODE2STRING"
    b = breakpoints(r, itype, bits, nsc + 1, integral=(k % 2 == 0))
    scales: List[J] = []
    texts = [f"t{i}" for i in range(nsc)]
    if variant == "dup-text" and nsc > 1:
        texts[-1] = texts[0]
    for i in range(nsc):
        sc: J = {"const": {"vt": texts[i]}}
        if variant == "points" or (variant in ("phys-default", "int-default") and k % 2):
            sc["lo"], sc["hi"] = (b[i], "CLOSED"), (b[i], ["CLOSED", None][i % 2])
        elif variant == "points+inv":
            # single values with an explicit COMPU-INVERSE-VALUE (an injective table whose
            # inverse values are read from the description)
            sc["lo"], sc["hi"] = (b[i], "CLOSED"), (b[i], "CLOSED")
            sc["inv"] = {"v": b[i]}
        elif variant == "lower-only":
            sc["lo"] = (b[i], ["CLOSED", None][(k + i) % 2])
        else:
            jl = JUNCTIONS[(k + i) % len(JUNCTIONS)]
            jh = JUNCTIONS[(k + i + 1) % len(JUNCTIONS)]
            lo_kind = ["closed", "open", "infinite", "nointerval"][k % 4] if i == 0 else jl[1]
            hi_kind = ["closed", "open", "infinite"][(k // 4) % 3] if i == nsc - 1 else jh[0]
            lo_v, hi_v = b[i], b[i + 1]
            if variant == "ranges-gaps" and i:
                lo_v = min(lo_v + (2 if itype in INTS else 0.5), hi_v)
            # (an INFINITE limit is written with or without a - meaningless - value)
            sc["lo"], sc["hi"] = lim(lo_v, lo_kind, (k // 2) % 2 == 0), lim(hi_v, hi_kind, (k // 3) % 2 == 0)
            if sc["lo"][0] is None and (sc["hi"] is None or sc["hi"][0] is None):
                # (no value anywhere: nothing the text could be converted back to)
                sc["lo"] = lim(lo_v, lo_kind, True)
            if variant in ("ranges+inv", "default+inv") or (variant == "dup-text" and k % 2):
                mid = b[i] + (b[i + 1] - b[i]) // 2 if itype in INTS else (b[i] + b[i + 1]) / 2
                sc["inv"] = {"v": mid}
        scales.append(sc)
    m: J = {"cat": "TEXTTABLE", "i2p": {"scales": scales}}
    if variant in ("phys-default", "both-defaults", "default+inv"):
        m["i2p"]["default"] = {"vt": "undefined"}
        if variant == "default+inv":
            m["i2p"]["default"]["inv"] = {"vt": "undefined"}
    if variant in ("int-default", "both-defaults"):
        m["p2i"] = {"scales": [], "default": {"v": b[0] if itype in INTS else float(b[0])}}
    return case("TEXTTABLE", itype, ptype, bits, m, f"{variant}/{nsc}", kinds_of(m))


def identical(itype: str, k: int) -> J:
    return case("IDENTICAL", itype, itype, bits_for(itype, k), {"cat": "IDENTICAL"}, "identical",
                ["missing"])


def compucode(itype: str, ptype: str, k: int) -> J:
    m = {"cat": "COMPUCODE",
         "i2p": {"scales": [], "prog_code": {"file": "c07code.jar", "syntax": "JAR"}},
         "p2i": {"scales": [], "prog_code": {"file": "c07code.jar", "syntax": "JAR"}}}
    return case("COMPUCODE", itype, ptype, bits_for(itype, k), m, "compucode", ["missing"])


# ---------------------------------------------------------------------------


def systematic(seed: int) -> List[J]:
    """the grid; identical for every worker of one run"""
    r = random.Random(seed * 7919 + 7)
    out: List[J] = []
    k = 0
    pairs = [(i, p) for i in ITYPES for p in PTYPES_NUM]
    # LINEAR: every type pair x every (lower kind, upper kind)
    for (it, pt) in pairs:
        for lok, hik in itertools.product(LIMIT_KINDS, LIMIT_KINDS):
            out.append(linear(r, it, pt, k, lok, hik))
            k += 1
    for j, (it, pt) in enumerate(pairs):
        if pt in INTS:
            out.append(linear_risky(it, pt, j))
    # RAT-FUNC
    rk = [("closed", "closed"), ("open", "open"), ("infinite", "closed"), ("closed", "missing"),
          ("missing", "missing"), ("nointerval", "open"), ("open", "infinite"),
          ("missing", "closed"), ("closed", "nointerval"), ("infinite", "infinite"),
          ("open", "closed"), ("closed", "open")]
    for (it, pt) in pairs:
        for lok, hik in rk:
            out.append(ratfunc(r, it, pt, k, lok, hik))
            k += 1
    # SCALE-LINEAR
    outers = [("closed", "closed"), ("open", "open"), ("infinite", "closed"), ("closed", "infinite"),
              ("nointerval", "closed"), ("closed", "missing"), ("open", "closed")]
    for (it, pt) in pairs:
        for nsc in (1, 2, 3, 4):
            for v in SL_VARIANTS:
                if nsc == 1 and v not in ("cont-inc", "cont-dec", "discontinuous"):
                    continue
                outer = outers[k % len(outers)] if v not in ("cont-inc", "cont-dec") or k % 3 == 0 \
                    else ("closed", "closed")
                out.append(scalelinear(r, it, pt, k, nsc, v, outer))
                k += 1
    # SCALE-RAT-FUNC
    for (it, pt) in pairs:
        for nsc in (1, 2, 3, 4):
            for _ in range(2):
                out.append(scaleratfunc(r, it, pt, k, nsc))
                k += 1
    # TAB-INTP
    for (it, pt) in pairs:
        for npts in (2, 3, 4, 5):
            for sh in TAB_SHAPES:
                out.append(tabintp(r, it, pt, k, npts, sh))
                k += 1
    # TEXTTABLE
    for it in ITYPES:
        for nsc in (1, 2, 3, 4):
            for v in TT_VARIANTS:
                out.append(texttable(r, it, k, nsc, v))
                k += 1
    # cases that make rare mechanisms certain: OPEN outer limits on an injective piecewise method
    # with integral internal type; a text table whose only scale is unbounded on both sides
    for it in ("A_INT32", "A_UINT32"):
        for pt in PTYPES_NUM:
            for kk in (2, 5, 14):
                out.append(scalelinear(r, it, pt, kk, 2 + kk % 2, "disjoint-images",
                                       ("open", "open")))
    for it in ITYPES:
        out.append(texttable(r, it, 10, 1, "ranges"))
    # ... and range scales whose explicit inverse value is a falsy one (0, 0.0) that differs from
    # the lower limit: a value like any other
    for it in ITYPES:
        if it == "A_UINT32":
            continue  # (0 can only be the lower limit there)
        z: Any = 0 if it in INTS else 0.0
        lo, hi = (-3, 4) if it in INTS else (-2.5, 4.0)
        for nsc in (1, 2):
            scales = [{"const": {"vt": "t0"}, "lo": (lo, "CLOSED"), "hi": (hi, "CLOSED"), "inv": {"v": z}}]
            if nsc == 2:
                scales.append({"const": {"vt": "t1"}, "lo": (hi + 1, "CLOSED"), "hi": (hi + 6, "CLOSED"),
                               "inv": {"v": hi + 2}})
            m = {"cat": "TEXTTABLE", "i2p": {"scales": scales}}
            out.append(case("TEXTTABLE", it, "A_UNICODE2STRING", bits_for(it, 1), m,
                            f"ranges+inv-zero/{nsc}", kinds_of(m)))
    # continuous, strictly monotone piecewise-linear methods with decimal coefficients: the two
    # segments' values at a common boundary differ by rounding noise only
    for it in ("A_UINT32", "A_INT32"):
        for pt in ("A_FLOAT64", "A_FLOAT32"):
            for f1, f2, bnd in ((0.1, 0.5, 7), (0.3, 0.7, 11), (0.7, 0.1, 3), (0.1, 0.3, 9)):
                n0 = float(Fraction(str(f1)) * bnd - Fraction(str(f2)) * bnd)
                m = {"cat": "SCALE-LINEAR", "i2p": {"scales": [
                    {"lo": (0, "CLOSED"), "hi": (bnd, "CLOSED"), "num": [0, f1], "den": []},
                    {"lo": (bnd, "CLOSED"), "hi": (100, "CLOSED"), "num": [n0, f2], "den": []}]}}
                out.append(case("SCALE-LINEAR", it, pt, 8, m, "cont-inc-decimal/2", kinds_of(m)))
    # single-scale SCALE-RAT-FUNC with its exact (affine) inverse
    for it in ("A_UINT32", "A_INT32"):
        for pt in PTYPES_NUM:
            for n0, n1, d0 in ((3, 2, 1), (-10, 4, 2), (0, 1, 1)):
                m = {"cat": "SCALE-RAT-FUNC",
                     "i2p": {"scales": [{"lo": (0, "CLOSED"), "hi": (100, "CLOSED"),
                                         "num": [n0, n1], "den": [d0]}]},
                     "p2i": {"scales": [{"num": [-n0, d0], "den": [n1]}]}}
                out.append(case("SCALE-RAT-FUNC", it, pt, 8, m, "affine+inverse/1", kinds_of(m)))
    for j, it in enumerate(ITYPES):
        out.append(identical(it, j))
        out.append(identical(it, j + 1))
        for pt in PTYPES_NUM[:2]:
            out.append(compucode(it, pt, j))
    return out


def sibling(c: J, how: int) -> Optional[J]:
    """A method that differs from c in one respect only and lives in the same process, so that
    anything remembered from c (memoised segments, class-level tables) shows up as a wrong
    answer of the sibling.  how 0: interval types of the limits swapped CLOSED<->OPEN (values
    kept); how 1: offsets shifted by one (limits kept)."""
    import copy
    if c["cat"] not in ("LINEAR", "SCALE-LINEAR") or c.get("risky"):
        return None
    s = copy.deepcopy(c)
    changed = False
    for sc in s["compu"]["i2p"]["scales"]:
        if how == 0:
            for key in ("lo", "hi"):
                v = sc.get(key)
                if v is not None and v[0] is not None and v[1] in ("CLOSED", "OPEN", None):
                    sc[key] = (v[0], "OPEN" if v[1] in ("CLOSED", None) else "CLOSED")
                    changed = True
        elif sc.get("num"):
            sc["num"] = [sc["num"][0] + 1] + list(sc["num"][1:])
            if "inv" in sc:
                continue
            changed = True
    if not changed:
        return None
    s["variant"] = c["variant"] + ("/sibling-intervals" if how == 0 else "/sibling-offset")
    s["lk"] = sorted(set(kinds_of(s["compu"])))
    return s


def randomized(r: random.Random, n: int) -> Iterator[J]:
    for _ in range(n):
        k = r.randrange(1 << 20)
        it = r.choice(ITYPES)
        pt = r.choice(PTYPES_NUM)
        x = r.random()
        if x < 0.25:
            yield linear(r, it, pt, k, r.choice(LIMIT_KINDS), r.choice(LIMIT_KINDS))
        elif x < 0.40:
            yield ratfunc(r, it, pt, k, r.choice(LIMIT_KINDS), r.choice(LIMIT_KINDS))
        elif x < 0.65:
            v = r.choice(SL_VARIANTS)
            nsc = r.choice([1, 2, 3, 4]) if v in ("cont-inc", "cont-dec", "discontinuous") \
                else r.choice([2, 3, 4])
            outer = (r.choice(LIMIT_KINDS), r.choice(LIMIT_KINDS))
            yield scalelinear(r, it, pt, k, nsc, v, outer)
        elif x < 0.72:
            yield scaleratfunc(r, it, pt, k, r.choice([1, 2, 3, 4]))
        elif x < 0.87:
            yield tabintp(r, it, pt, k, r.choice([2, 3, 4, 5]), r.choice(TAB_SHAPES))
        else:
            yield texttable(r, it, k, r.choice([1, 2, 3, 4]), r.choice(TT_VARIANTS))
