"""C15 workload: description model of communication parameter set-ups -> ODX XML documents.

A model is a plain JSON-able dict (so that a failing one can be stored in a replay file):

    {"bare_ids": bool,
     "subsets": [{"name": "CS_CAN",
                  "simple":  [{"name": "CP_Baudrate", "id": .., "default": "500000"}, ..],
                  "complex": [{"name": "CP_UniqueRespIdTable", "id": .., "cpdv": bool,
                               "subs": [{"name": .., "id": .., "default": ..}, ..]}]}, ..],
     "stacks":  [{"name": "PS_CAN", "subsets": ["CS_CAN"]}, ..],
     "layers":  [{"kind": "PROTOCOL", "name": "P1", "parents": [], "stack": "PS_CAN",
                  "refs": [{"subset": "CS_CAN", "id": .., "name": .., "proto": None | "P1",
                            "complex": bool,
                            "value": None            # value element omitted
                                   | "123" | ""      # SIMPLE-VALUE (possibly empty)
                                   | ["a", "", ..]   # COMPLEX-VALUE; may be shorter than the
                                                     # sub-parameter list (omitted sub-values)
                            }, ..]}, ..]}

Nothing in here imports odxtools.
"""
from __future__ import annotations

import random
from typing import Any, Dict, List, Optional, Tuple
from xml.sax.saxutils import escape, quoteattr

from . import odxgen

J = Dict[str, Any]

RANK = {"PROTOCOL": 1, "FUNCTIONAL-GROUP": 2, "BASE-VARIANT": 3, "ECU-VARIANT": 4}
REF_TYPE = {"PROTOCOL": "PROTOCOL-REF", "FUNCTIONAL-GROUP": "FUNCTIONAL-GROUP-REF",
            "BASE-VARIANT": "BASE-VARIANT-REF", "ECU-VARIANT": "ECU-VARIANT-REF",
            "ECU-SHARED-DATA": "ECU-SHARED-DATA-REF"}
CONTAINER = "c15dlc"
SPEC_NAME = "c15spec"

# the comparams the typed accessors read (names as in ISO 22900-2 / the accessors' docstrings)
CAN_SIMPLE = ["CP_Baudrate", "CP_CANFDBaudrate", "CP_CANFDTxMaxDataLength", "CP_CanFuncReqId",
              "CP_TesterPresentTime"]
CAN_TABLE_SUBS = ["CP_CanPhysReqFormat", "CP_CanPhysReqId", "CP_CanPhysReqExtAddr",
                  "CP_CanRespUSDTFormat", "CP_CanRespUSDTId", "CP_CanRespUSDTExtAddr"]
DOIP_SIMPLE = ["CP_DoIPLogicalGatewayAddress", "CP_DoIPLogicalTesterAddress",
               "CP_DoIPLogicalFunctionalAddress", "CP_DoIPRoutingActivationTimeout",
               "CP_DoIPRoutingActivationType", "CP_TesterPresentTime"]
DOIP_TABLE_SUBS = ["CP_DoIPLogicalEcuAddress", "CP_DoIPSecondaryLogicalECUResponseAddress",
                   "CP_DoIPEcuName"]
TABLE = "CP_UniqueRespIdTable"
TEXT_SUBS = {"CP_CanPhysReqFormat", "CP_CanRespUSDTFormat", "CP_DoIPEcuName"}
TXDL_VALUES = [("CAN 2.0 TX_DL = 8", 8), ("CANFD TX_DL=8", 8), ("CANFD TX_DL=12", 12),
               ("CANFD TX_DL=16", 16), ("CANFD TX_DL=20", 20), ("CANFD TX_DL=24", 24),
               ("CANFD TX_DL=32", 32), ("CANFD TX_DL=48", 48), ("CANFD TX_DL=64", 64),
               ("CANFD TX_DL = 64", 64)]


class Numbers:
    """Hands out numbers that are unique inside one model, so that a value names its origin."""

    def __init__(self, r: random.Random):
        self.r = r
        self.used: set = set()

    def num(self, lo: int = 1, hi: int = 0x1FFFFFFF) -> str:
        while True:
            v = self.r.randrange(lo, hi)
            if v not in self.used:
                self.used.add(v)
                # numbers are sometimes written zero-padded ("0512"): still the number 512
                return str(v) if self.r.random() > 0.15 else "0" * self.r.randrange(1, 3) + str(v)

    def content(self, name: str) -> str:
        """A well-formed content for the (sub-)parameter of that name."""
        if name == "CP_CANFDTxMaxDataLength":
            return self.r.choice(TXDL_VALUES)[0]
        if name in TEXT_SUBS:
            return self.r.choice(["normal segmented 11-bit", "extended 29-bit", "text"]) + \
                " " + self.num(1, 100000)
        if name.endswith("Timeout") or name == "CP_TesterPresentTime":
            return self.num(1000, 60000000)  # microseconds
        if name == "CP_DoIPRoutingActivationType":
            return self.num(0, 256)
        if "DoIP" in name:
            return self.num(1, 0x10000)
        return self.num()


def make_subsets(r: random.Random, nums: Numbers, bare_ids: bool) -> List[J]:

    def cid(subset: str, name: str) -> str:
        return name if bare_ids else f"{subset}.{name}"

    res = []
    for sname, simple, subs in (("CS_CAN", CAN_SIMPLE, CAN_TABLE_SUBS),
                                ("CS_DOIP", DOIP_SIMPLE, DOIP_TABLE_SUBS)):
        res.append({
            "name": sname,
            "simple": [{"name": n, "id": cid(sname, n), "default": nums.content(n)}
                       for n in simple],
            "complex": [{"name": TABLE, "id": cid(sname, TABLE), "cpdv": r.random() < 0.3,
                         "subs": [{"name": n, "id": f"{sname}.{TABLE}.{n}",
                                   "default": nums.content(n)} for n in subs]}],
        })
        if r.random() < 0.4:
            # a sub-parameter that is complex itself, somewhere in front of simple ones: the
            # positions of the sub-values are those of the specification in document order
            subs_ = res[-1]["complex"][0]["subs"]
            subs_.insert(r.randrange(0, len(subs_)), {
                "name": "CP_AuxFilter", "id": f"{sname}.{TABLE}.CP_AuxFilter", "default": "",
                "nested": [{"name": n, "id": f"{sname}.{TABLE}.CP_AuxFilter.{n}",
                            "default": nums.num()} for n in ("CP_AuxMask", "CP_AuxPattern")]})
    return res


def spec_of(model: J, subset: str, cid: str) -> Tuple[J, bool]:
    for s in model["subsets"]:
        if s["name"] != subset:
            continue
        for c in s["simple"]:
            if c["id"] == cid:
                return c, False
        for c in s["complex"]:
            if c["id"] == cid:
                return c, True
    raise KeyError((subset, cid))


def ancestors(model: J, name: str) -> List[str]:
    by = {l["name"]: l for l in model["layers"]}
    seen: List[str] = []
    todo = list(by[name]["parents"])
    while todo:
        p = todo.pop()
        if p in seen or p not in by:
            continue
        seen.append(p)
        todo += by[p]["parents"]
    return seen


def protocols_of(model: J, name: str) -> List[str]:
    by = {l["name"]: l for l in model["layers"]}
    names = [name] + ancestors(model, name)
    return sorted(n for n in names if by[n]["kind"] == "PROTOCOL")


def gen_value(r: random.Random, nums: Numbers, spec: J, is_complex: bool,
              allow_omitted: bool) -> Any:
    if not is_complex:
        x = r.random()
        if x < 0.62:
            return nums.content(spec["name"])
        if x < 0.88 or not allow_omitted:
            return ""
        return None
    n = len(spec["subs"])
    full = [nums.content(s["name"]) if "nested" not in s else [nums.num() for _ in s["nested"]]
            for s in spec["subs"]]
    x = r.random()
    if x < 0.35:
        return full
    if x < 0.65:  # some sub-values empty
        for i in range(n):
            if r.random() < 0.4:
                full[i] = ""
        if "" not in full:
            full[r.randrange(n)] = ""
        return full
    if x < 0.85:  # trailing sub-values omitted (possibly all), maybe with empties
        k = r.randrange(0, n)
        full = full[:k]
        for i in range(len(full)):
            if r.random() < 0.2:
                full[i] = ""
        return full
    if x < 0.93 or not allow_omitted:
        return []  # <COMPLEX-VALUE/>
    return None


def gen_model(r: random.Random) -> J:
    nums = Numbers(r)
    bare_ids = r.random() < 0.12
    allow_omitted = r.random() < 0.2
    subsets = make_subsets(r, nums, bare_ids)
    stacks = [{"name": "PS_CAN", "subsets": ["CS_CAN"]},
              {"name": "PS_DOIP", "subsets": ["CS_DOIP"]},
              {"name": "PS_BOTH", "subsets": ["CS_CAN", "CS_DOIP"]}]
    # ---- hierarchy
    layers: List[J] = [{"kind": "PROTOCOL", "name": "P1", "parents": [],
                        "stack": r.choice(["PS_CAN", "PS_BOTH", None])}]
    if r.random() < 0.5:
        layers.append({"kind": "PROTOCOL", "name": "P2", "parents": [],
                       "stack": r.choice(["PS_DOIP", "PS_BOTH", None])})
    for kind, name, prob in (("FUNCTIONAL-GROUP", "FG", 0.5), ("BASE-VARIANT", "BV", 0.85),
                             ("ECU-VARIANT", "EV", 0.6)):
        if r.random() >= prob:
            continue
        lower = [l["name"] for l in layers]
        parents = [lower[-1]] if r.random() < 0.8 else []
        for n in lower:
            if n not in parents and r.random() < 0.45:
                parents.append(n)
        if not parents:
            parents = [r.choice(lower)]
        r.shuffle(parents)
        layers.append({"kind": kind, "name": name, "parents": parents})
    if r.random() < 0.1:  # a parent that is not a hierarchy element
        layers.append({"kind": "ECU-SHARED-DATA", "name": "ESD", "parents": []})
        r.choice([l for l in layers if RANK.get(l["kind"], 0) > 1] or
                 [{"parents": []}])["parents"].append("ESD")
    model: J = {"bare_ids": bare_ids, "subsets": subsets, "stacks": stacks, "layers": layers}
    # ---- placements
    pool: List[Tuple[str, J, bool]] = []
    for s in subsets:
        pool += [(s["name"], c, False) for c in s["simple"]]
        pool += [(s["name"], c, True) for c in s["complex"]]
    focus = set(r.sample(range(len(pool)), r.randrange(2, 6)))
    for layer in layers:
        layer["refs"] = []
        if layer["kind"] == "ECU-SHARED-DATA":
            continue
        prots = protocols_of(model, layer["name"])
        for i, (sname, spec, is_complex) in enumerate(pool):
            if r.random() >= (0.65 if i in focus else 0.18):
                continue
            quals: List[Optional[str]] = [r.choice([None] + prots + prots)]
            if r.random() < 0.3:  # the same parameter for several qualifiers in one layer
                quals = [None] + prots
                r.shuffle(quals)
                quals = quals[:r.randrange(2, len(quals) + 1)]
            for q in quals:
                layer["refs"].append({
                    "subset": sname, "id": spec["id"], "name": spec["name"], "proto": q,
                    "complex": is_complex,
                    "value": gen_value(r, nums, spec, is_complex, allow_omitted)})
        r.shuffle(layer["refs"])
    return model


def directed_models() -> List[J]:
    """Small hand-made set-ups; every clause of the statement is hit by at least one."""
    r = random.Random(15)
    res: List[J] = []

    def base(layers: List[J]) -> J:
        nums = Numbers(random.Random(1))
        return {"bare_ids": False, "subsets": make_subsets(r, nums, False),
                "stacks": [{"name": "PS_CAN", "subsets": ["CS_CAN"]},
                           {"name": "PS_DOIP", "subsets": ["CS_DOIP"]}],
                "layers": layers}

    def ref(subset: str, name: str, proto: Optional[str], value: Any) -> J:
        return {"subset": subset, "id": f"{subset}.{name}", "name": name, "proto": proto,
                "complex": name == TABLE, "value": value}

    can_full = ["fmt 1", "1601", "0", "fmt 2", "1602", "0"]
    # 1: chain, generic and specific definitions in both orders, overrides by closer layers
    for order in (0, 1):
        both = [ref("CS_CAN", "CP_Baudrate", None, "250000"),
                ref("CS_CAN", "CP_Baudrate", "P1", "500001"),
                ref("CS_CAN", TABLE, None, can_full),
                ref("CS_CAN", TABLE, "P1", ["fmt 3", "1603", "0", "fmt 4", "1604", "0"]),
                ref("CS_CAN", "CP_TesterPresentTime", None, "2000000"),
                ref("CS_CAN", "CP_TesterPresentTime", "P1", "3000000"),
                ref("CS_CAN", "CP_CANFDTxMaxDataLength", None, "CANFD TX_DL=64"),
                ref("CS_CAN", "CP_CANFDBaudrate", None, "2000001"),
                ref("CS_CAN", "CP_CanFuncReqId", "P1", "2015")]
        if order:
            both.reverse()
        res.append(base([
            {"kind": "PROTOCOL", "name": "P1", "parents": [], "stack": "PS_CAN", "refs": both},
            {"kind": "BASE-VARIANT", "name": "BV", "parents": ["P1"], "refs": [
                ref("CS_CAN", "CP_Baudrate", "P1", "125000"),
                ref("CS_CAN", "CP_TesterPresentTime", None, "")]},
            {"kind": "ECU-VARIANT", "name": "EV", "parents": ["BV"], "refs": [
                ref("CS_CAN", TABLE, "P1", ["", "1605", "", "", "", ""]),
                ref("CS_CAN", "CP_Baudrate", None, "")]}]))
    # 2: two protocols (CAN + DoIP), parents of different rank carrying the same key
    res.append(base([
        {"kind": "PROTOCOL", "name": "P1", "parents": [], "stack": "PS_CAN", "refs": [
            ref("CS_CAN", TABLE, "P1", can_full),
            ref("CS_CAN", "CP_Baudrate", None, "500002"),
            ref("CS_CAN", "CP_TesterPresentTime", "P1", "2000002")]},
        {"kind": "PROTOCOL", "name": "P2", "parents": [], "stack": "PS_DOIP", "refs": [
            ref("CS_DOIP", TABLE, "P2", ["4097", "4098", "ecu"]),
            ref("CS_DOIP", "CP_DoIPLogicalGatewayAddress", "P2", "4099"),
            ref("CS_DOIP", "CP_DoIPLogicalTesterAddress", None, "3584"),
            ref("CS_DOIP", "CP_DoIPLogicalFunctionalAddress", None, ""),
            ref("CS_DOIP", "CP_DoIPRoutingActivationTimeout", "P2", "30000000"),
            ref("CS_DOIP", "CP_DoIPRoutingActivationType", None, "1"),
            ref("CS_DOIP", "CP_TesterPresentTime", "P2", "2500000")]},
        {"kind": "FUNCTIONAL-GROUP", "name": "FG", "parents": ["P1"], "refs": [
            ref("CS_CAN", "CP_Baudrate", None, "500003")]},
        {"kind": "BASE-VARIANT", "name": "BV", "parents": ["FG", "P1", "P2"], "refs": [
            ref("CS_DOIP", TABLE, "P2", ["4100"]),
            ref("CS_DOIP", "CP_DoIPLogicalGatewayAddress", None, "4101")]},
        {"kind": "ECU-VARIANT", "name": "EV", "parents": ["BV"], "refs": [
            ref("CS_CAN", TABLE, "P1", []),
            ref("CS_DOIP", "CP_DoIPRoutingActivationTimeout", "P2", "")]}]))
    # 3: omitted value elements
    res.append(base([
        {"kind": "PROTOCOL", "name": "P1", "parents": [], "stack": "PS_CAN", "refs": [
            ref("CS_CAN", "CP_Baudrate", None, None),
            ref("CS_CAN", TABLE, None, None),
            ref("CS_CAN", "CP_CanFuncReqId", None, None)]},
        {"kind": "BASE-VARIANT", "name": "BV", "parents": ["P1"], "refs": []}]))
    return res


# ---------------------------------------------------------------------------
# XML


def _simple_comparam(c: J, dop_id: str, indent: str = "") -> str:
    return (f'<COMPARAM ID={quoteattr(c["id"])} PARAM-CLASS="COM" CPTYPE="STANDARD" '
            f'CPUSAGE="ECU-COMM"><SHORT-NAME>{c["name"]}</SHORT-NAME>'
            f'<PHYSICAL-DEFAULT-VALUE>{escape(c["default"])}</PHYSICAL-DEFAULT-VALUE>'
            f'<DATA-OBJECT-PROP-REF ID-REF={quoteattr(dop_id)}/></COMPARAM>')


def emit_subset(s: J) -> str:
    dop_id = s["name"] + ".DOP_any"
    x = ('<?xml version="1.0" encoding="UTF-8" standalone="no" ?>\n'
         '<ODX MODEL-VERSION="2.2.0" xmlns:xsi="http://www.w3.org/2001/XMLSchema-instance" '
         'xsi:noNamespaceSchemaLocation="odx.xsd">')
    x += f'<COMPARAM-SUBSET ID={quoteattr(s["name"])} CATEGORY="TRANS">' \
        f'<SHORT-NAME>{s["name"]}</SHORT-NAME>'
    x += "<COMPARAMS>" + "".join(_simple_comparam(c, dop_id) for c in s["simple"]) + \
        "</COMPARAMS>"
    x += "<COMPLEX-COMPARAMS>"
    for c in s["complex"]:
        x += (f'<COMPLEX-COMPARAM ID={quoteattr(c["id"])} PARAM-CLASS="UNIQUE_ID" '
              f'CPTYPE="STANDARD" CPUSAGE="ECU-COMM" ALLOW-MULTIPLE-VALUES="true">'
              f'<SHORT-NAME>{c["name"]}</SHORT-NAME>')
        for sub in c["subs"]:
            if "nested" in sub:
                x += (f'<COMPLEX-COMPARAM ID={quoteattr(sub["id"])} PARAM-CLASS="UNIQUE_ID" '
                      f'CPTYPE="STANDARD" CPUSAGE="ECU-COMM"><SHORT-NAME>{sub["name"]}</SHORT-NAME>' +
                      "".join(_simple_comparam(s2, dop_id) for s2 in sub["nested"]) +
                      "</COMPLEX-COMPARAM>")
            else:
                x += _simple_comparam(sub, dop_id)
        if c.get("cpdv"):  # agrees with the sub-parameters' own defaults
            x += "<COMPLEX-PHYSICAL-DEFAULT-VALUE>" + "".join(
                f'<SIMPLE-VALUE>{escape(sub["default"])}</SIMPLE-VALUE>' if "nested" not in sub else
                "<COMPLEX-VALUE>" + "".join(f'<SIMPLE-VALUE>{escape(s2["default"])}</SIMPLE-VALUE>'
                                            for s2 in sub["nested"]) + "</COMPLEX-VALUE>"
                for sub in c["subs"]) + "</COMPLEX-PHYSICAL-DEFAULT-VALUE>"
        x += "</COMPLEX-COMPARAM>"
    x += "</COMPLEX-COMPARAMS>"
    x += (f'<DATA-OBJECT-PROPS><DATA-OBJECT-PROP ID={quoteattr(dop_id)}>'
          '<SHORT-NAME>DOP_any</SHORT-NAME><COMPU-METHOD><CATEGORY>IDENTICAL</CATEGORY>'
          '</COMPU-METHOD><DIAG-CODED-TYPE BASE-DATA-TYPE="A_UNICODE2STRING" '
          'TERMINATION="END-OF-PDU" xsi:type="MIN-MAX-LENGTH-TYPE"><MIN-LENGTH>0</MIN-LENGTH>'
          '</DIAG-CODED-TYPE><PHYSICAL-TYPE BASE-DATA-TYPE="A_UNICODE2STRING"/>'
          '</DATA-OBJECT-PROP></DATA-OBJECT-PROPS>')
    return x + "</COMPARAM-SUBSET></ODX>"


def emit_spec(model: J) -> str:
    x = ('<?xml version="1.0" encoding="UTF-8" standalone="no" ?>\n'
         '<ODX MODEL-VERSION="2.2.0" xmlns:xsi="http://www.w3.org/2001/XMLSchema-instance" '
         'xsi:noNamespaceSchemaLocation="odx.xsd">')
    x += f'<COMPARAM-SPEC ID="{SPEC_NAME}"><SHORT-NAME>{SPEC_NAME}</SHORT-NAME><PROT-STACKS>'
    for ps in model["stacks"]:
        x += (f'<PROT-STACK ID={quoteattr(ps["name"])}><SHORT-NAME>{ps["name"]}</SHORT-NAME>'
              '<PDU-PROTOCOL-TYPE>ISO_15765_3_on_ISO_15765_2</PDU-PROTOCOL-TYPE>'
              '<PHYSICAL-LINK-TYPE>ISO_11898_2_DWCAN</PHYSICAL-LINK-TYPE><COMPARAM-SUBSET-REFS>')
        x += "".join(f'<COMPARAM-SUBSET-REF ID-REF="{n}" DOCREF="{n}" DOCTYPE="COMPARAM-SUBSET"/>'
                     for n in ps["subsets"])
        x += "</COMPARAM-SUBSET-REFS></PROT-STACK>"
    return x + "</PROT-STACKS></COMPARAM-SPEC></ODX>"


def emit_ref(ref: J, omitted_as_empty: bool = False, stack: Optional[str] = None) -> str:
    x = (f'<COMPARAM-REF ID-REF={quoteattr(ref["id"])} DOCREF={quoteattr(ref["subset"])} '
         'DOCTYPE="COMPARAM-SUBSET">')
    v = ref["value"]
    if v is None and omitted_as_empty:
        v = [] if ref["complex"] else ""
    if v is None:
        pass
    elif isinstance(v, str):
        x += f"<SIMPLE-VALUE>{escape(v)}</SIMPLE-VALUE>" if v else "<SIMPLE-VALUE/>"
    else:
        x += "<COMPLEX-VALUE>" + "".join(
            "<COMPLEX-VALUE>" + "".join(f"<SIMPLE-VALUE>{escape(s2)}</SIMPLE-VALUE>" for s2 in s) +
            "</COMPLEX-VALUE>" if isinstance(s, list) else
            f"<SIMPLE-VALUE>{escape(s)}</SIMPLE-VALUE>" if s else "<SIMPLE-VALUE/>"
            for s in v) + "</COMPLEX-VALUE>"
    if ref["proto"] is not None:
        x += f'<PROTOCOL-SNREF SHORT-NAME={quoteattr(ref["proto"])}/>'
        if stack is not None:
            # naming the protocol stack as well does not change which protocol the value is for
            x += f'<PROT-STACK-SNREF SHORT-NAME={quoteattr(stack)}/>'
    return x + "</COMPARAM-REF>"


def emit_layers(model: J, omitted_as_empty: bool = False, split: bool = False) -> Any:
    """one container document - or, with split, two: the ECU and base variants in a container
    whose document comes FIRST, their parents in a second one (what a layer inherits must not
    depend on the order in which the documents were added)"""
    kinds = {l["name"]: l["kind"] for l in model["layers"]}
    cont_of = {l["name"]: (CONTAINER + "_a_children" if split and l["kind"] in ("ECU-VARIANT", "BASE-VARIANT")
                           else CONTAINER) for l in model["layers"]}
    out = []
    stack_of = {l["name"]: l.get("stack") for l in model["layers"] if l["kind"] == "PROTOCOL"}
    for l in model["layers"]:
        tail = ""
        if l.get("refs"):
            tail += "<COMPARAM-REFS>" + "".join(
                emit_ref(x, omitted_as_empty,
                         stack_of.get(x["proto"]) if (n + len(l["name"])) % 2 else None)
                for n, x in enumerate(l["refs"])) + "</COMPARAM-REFS>"
        if l["kind"] == "PROTOCOL":
            tail += (f'<COMPARAM-SPEC-REF ID-REF="{SPEC_NAME}" DOCREF="{SPEC_NAME}" '
                     'DOCTYPE="COMPARAM-SPEC"/>')
            if l.get("stack"):
                tail += f'<PROT-STACK-SNREF SHORT-NAME={quoteattr(l["stack"])}/>'
        if l["parents"]:
            tail += "<PARENT-REFS>" + "".join(
                f'<PARENT-REF ID-REF={quoteattr(p)} DOCREF="{cont_of[p]}" DOCTYPE="CONTAINER" '
                f'xsi:type="{REF_TYPE[kinds[p]]}"/>' for p in l["parents"]) + "</PARENT-REFS>"
        out.append({"kind": l["kind"], "name": l["name"], "xml_tail": tail})
    if not split or len(set(cont_of.values())) < 2:
        return odxgen.emit_container({"name": CONTAINER, "id": CONTAINER, "layers": out})
    docs = []
    for cname in (CONTAINER + "_a_children", CONTAINER):
        docs.append(odxgen.emit_container({"name": cname, "id": cname,
                                           "layers": [o for o in out if cont_of[o["name"]] == cname]}))
    return docs


def emit_all(model: J, omitted_as_empty: bool = False, split: bool = False) -> List[str]:
    layers = emit_layers(model, omitted_as_empty, split)
    docs = layers if isinstance(layers, list) else [layers]
    if split:
        # the children's container first, the comparam documents last
        return docs + [emit_subset(s) for s in model["subsets"]] + [emit_spec(model)]
    return [emit_subset(s) for s in model["subsets"]] + [emit_spec(model)] + docs


def has_omitted(model: J) -> bool:
    return any(x["value"] is None for l in model["layers"] for x in l.get("refs", []))
