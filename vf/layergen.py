"""Layer-hierarchy description model -> ODX XML documents -> odxtools Database.

Used by C09 (value inheritance); kept free of any oracle so that other checks (C15) can reuse
it.  Nothing here imports odxtools except `load()`.

Model (plain JSON-able dicts, storable in a replay file)
--------------------------------------------------------
hier = {
  "containers": ["C0", "C1"],                 # DIAG-LAYER-CONTAINER short names
  "layers": [                                  # in any order; names unique in the database
    {"name": "L2", "index": 2, "kind": "BASE-VARIANT", "container": 0,
     "parents": [                              # PARENT-REFs in document order
        {"layer": "L0",
         "docref": True,                       # emit DOCREF/DOCTYPE (forced when cross-container)
         "ni": {"diag_comms": ["a"], "dops": [], "tables": [], "gnrs": [], "variables": []}}],
     "objects": [                              # locally defined objects
        {"cat": "service", "name": "a", "twin": False}, ...]}]}

* kinds: KINDS; a layer may reference parents of strictly lower RANK (PROTOCOL <
  FUNCTIONAL-GROUP < BASE-VARIANT < ECU-VARIANT) plus any ECU-SHARED-DATA (which has no
  parents): `allowed_parent(child_kind, parent_kind)`.
* categories: CATS maps the category key to (namespace, exclusion class or None).  Objects of
  one *namespace* override each other by short name (services and jobs share "diag_comms").
  Exclusion classes are the keys of a parent ref's "ni" dict (NOT-INHERITED-DIAG-COMMS / -DOPS
  / -TABLES / -GLOBAL-NEG-RESPONSES / -VARIABLES).
* every object carries the marker `marker(layer_name, obj)` in its LONG-NAME:
  "<layer>/<cat>/<name>", or "twin/<cat>/<name>" for objects flagged "twin" (identical content
  in every layer that defines them, only the ODX ID differs).
* field / mux objects reference (by ID) a helper structure / DOP that must be defined in the
  same layer; `add_helpers(hier)` inserts them as ordinary objects named HELPER_STRUCT /
  HELPER_DOP + layer name (so they take part in inheritance like everything else and are
  never the subject of a name clash).  DIAG-VARIABLEs are emitted without VARIABLE-GROUP-REF.
* DEFAULT_CATS = CATS minus UNLOADABLE_CATS ("variable_group": the tree under test raises
  TypeError in VariableGroup.from_et for any VARIABLE-GROUP element; C09 probes this and only
  then uses the category).
* names of the DOP-BASE categories (dop, dtc_dop, structure, the fields, mux, env_data,
  env_data_desc) must be disjoint within a layer: they share the ID scheme <layer>.DOP.<name>.
* a service "a" defined in the layer with "index" i (default: position in hier["layers"]) has the request
  `request_bytes(hier, layer_name, obj)`: 3 constant bytes unique per (layer, name).

API
---
KINDS, RANK, CATS, DEFAULT_CATS, NAMESPACES, EXCLUSION_CLASSES, VIEWS
allowed_parent(child_kind, parent_kind) -> bool
marker(layer_name, obj) -> str
request_bytes(hier, layer_name, obj) -> bytes
add_helpers(hier) -> hier                 (in place; idempotent)
shapes(n) -> iterator of [(kind, [parent indices])]   every hierarchy shape with n layers
shape_to_hier(shape, containers=1) -> hier            (no objects, no exclusions)
descendants(hier, layer_name) -> set of names;  prune(hier, names_to_remove) -> new hier
emit(hier) -> list of XML document strings  (comparam subset, comparam spec, containers)
load(hier) -> odxtools Database (refresh() done); raises whatever odxtools raises
observe(db, hier) -> {layer: {view: sorted [(short_name, long_name marker)]}}  public API only
"""
from __future__ import annotations

import copy
import io
import itertools
from typing import Any, Dict, Iterable, Iterator, List, Optional, Sequence, Set, Tuple
from xml.sax.saxutils import escape, quoteattr

from . import odxgen

J = Dict[str, Any]

KINDS = ["PROTOCOL", "FUNCTIONAL-GROUP", "BASE-VARIANT", "ECU-VARIANT", "ECU-SHARED-DATA"]
ESD = "ECU-SHARED-DATA"
RANK = {"PROTOCOL": 0, "FUNCTIONAL-GROUP": 1, "BASE-VARIANT": 2, "ECU-VARIANT": 3}

# category -> (namespace, exclusion class)
CATS: Dict[str, Tuple[str, Optional[str]]] = {
    "service": ("diag_comms", "diag_comms"),
    "job": ("diag_comms", "diag_comms"),
    "dop": ("dops", "dops"),
    "dtc_dop": ("dtc_dops", "dops"),
    "structure": ("structures", "dops"),
    "static_field": ("static_fields", "dops"),
    "dyn_length_field": ("dynamic_length_fields", "dops"),
    "dyn_endmarker_field": ("dynamic_endmarker_fields", "dops"),
    "eopdu_field": ("end_of_pdu_fields", "dops"),
    "mux": ("muxs", "dops"),
    "env_data": ("env_datas", "dops"),
    "env_data_desc": ("env_data_descs", "dops"),
    "table": ("tables", "tables"),
    "gnr": ("global_negative_responses", "gnrs"),
    "funct_class": ("functional_classes", None),
    "state_chart": ("state_charts", None),
    "audience": ("additional_audiences", None),
    "unit_group": ("unit_groups", None),
    "diag_variable": ("diag_variables", "variables"),
    "variable_group": ("variable_groups", None),
}
NAMESPACES = sorted(set(ns for ns, _ in CATS.values()))
EXCLUSION_CLASSES = ["diag_comms", "dops", "tables", "gnrs", "variables"]
NS_EXCLUSION = {ns: ex for ns, ex in CATS.values()}
# categories that a PROTOCOL layer cannot hold (no DIAG-VARIABLES / VARIABLE-GROUPS element)
NOT_IN_PROTOCOL = {"diag_variable", "variable_group"}

HELPER_STRUCT = "hst_"
HELPER_DOP = "hdop_"
HELPER_VG = "hvg_"
NEEDS_STRUCT = {"static_field", "dyn_length_field", "dyn_endmarker_field", "eopdu_field", "mux"}
NEEDS_DOP = {"dyn_length_field", "dyn_endmarker_field", "mux"}
NEEDS_VG: Set[str] = set()  # DIAG-VARIABLEs are emitted without VARIABLE-GROUP-REF (see below)
# VARIABLE-GROUP elements cannot be loaded by the tree under test at all
# (VariableGroup.from_et builds an IdentifiableElement from NamedElement fields -> TypeError),
# so the category exists in the model/emitter but is not part of the default alphabet.
UNLOADABLE_CATS = {"variable_group"}
DEFAULT_CATS = [c for c in CATS if c not in UNLOADABLE_CATS]

CPS_DOC = "C09_CPS"
CPSUB_DOC = "C09_CPSUB"
AUX_FILE = "c09job.jar"


def allowed_parent(child_kind: str, parent_kind: str) -> bool:
    if child_kind == ESD:
        return False
    if parent_kind == ESD:
        return True
    return RANK[parent_kind] < RANK[child_kind]


def marker(layer_name: str, obj: J) -> str:
    if obj.get("twin"):
        return f"twin/{obj['cat']}/{obj['name']}"
    if obj.get("ref"):
        # a DIAG-COMM-REF: the object of the layer named there, local to this layer as well
        return f"{obj['ref']}/{obj['cat']}/{obj['name']}"
    return f"{layer_name}/{obj['cat']}/{obj['name']}"


def drop_dangling_refs(hier: J) -> None:
    """DIAG-COMM-REFs whose target (layer or object) is gone go as well."""
    have = {(l["name"], o["cat"], o["name"]) for l in hier["layers"] for o in l["objects"]
            if not o.get("ref") and not o.get("twin")}
    for l in hier["layers"]:
        l["objects"] = [o for o in l["objects"]
                        if not o.get("ref") or (o["ref"], o["cat"], o["name"]) in have]


def _layer_index(hier: J, layer_name: str) -> int:
    # "index" (set by shape_to_hier, preserved by prune) wins over the position
    for i, l in enumerate(hier["layers"]):
        if l["name"] == layer_name:
            return int(l.get("index", i))
    raise KeyError(layer_name)


def _name_code(name: str) -> int:
    # stable, collision free for the short alphabets used ("a".."h")
    return sum((ord(c) & 0x3F) * (i * 7 + 1) for i, c in enumerate(name)) & 0xFF


def request_bytes(hier: J, layer_name: str, obj: J) -> bytes:
    if obj.get("twin"):
        return bytes([0x1F, _name_code(obj["name"]), 0x01])
    return bytes([0x20 + _layer_index(hier, layer_name), _name_code(obj["name"]), 0x00])


def add_helpers(hier: J) -> J:
    for l in hier["layers"]:
        cats = {o["cat"] for o in l["objects"]}
        have = {(o["cat"], o["name"]) for o in l["objects"]}
        for need, cat, pre in ((NEEDS_STRUCT, "structure", HELPER_STRUCT),
                               (NEEDS_DOP, "dop", HELPER_DOP),
                               (NEEDS_VG, "variable_group", HELPER_VG)):
            if cats & need and (cat, pre + l["name"]) not in have:
                l["objects"].append({"cat": cat, "name": pre + l["name"], "twin": False})
    return hier


# ---------------------------------------------------------------------------
# shapes


def shapes(n: int) -> Iterator[List[Tuple[str, List[int]]]]:
    """Every hierarchy with n layers: kinds as a sorted multiset (layer order is irrelevant),
    every assignment of a parent subset per layer that respects allowed_parent()."""
    for kinds in itertools.combinations_with_replacement(KINDS, n):
        options: List[List[Tuple[int, ...]]] = []
        for i, k in enumerate(kinds):
            cand = [j for j, pk in enumerate(kinds) if j != i and allowed_parent(k, pk)]
            subs: List[Tuple[int, ...]] = []
            for r in range(len(cand) + 1):
                subs.extend(itertools.combinations(cand, r))
            options.append(subs)
        for choice in itertools.product(*options):
            yield [(kinds[i], list(choice[i])) for i in range(n)]


def shape_to_hier(shape: Sequence[Tuple[str, Sequence[int]]], containers: int = 1) -> J:
    layers = []
    for i, (kind, parents) in enumerate(shape):
        layers.append({
            "name": f"L{i}", "index": i, "kind": kind, "container": i % containers,
            "parents": [{"layer": f"L{j}", "docref": False,
                         "ni": {c: [] for c in EXCLUSION_CLASSES}} for j in parents],
            "objects": []})
    return {"containers": [f"C{i}" for i in range(containers)], "layers": layers}


def descendants(hier: J, layer_name: str) -> Set[str]:
    res: Set[str] = set()
    changed = True
    while changed:
        changed = False
        for l in hier["layers"]:
            if l["name"] in res:
                continue
            if any(p["layer"] == layer_name or p["layer"] in res for p in l["parents"]):
                res.add(l["name"])
                changed = True
    return res


def prune(hier: J, remove: Iterable[str]) -> J:
    """Copy of hier without the named layers (which must be closed under 'descendant')."""
    rm = set(remove)
    h = copy.deepcopy(hier)
    # request bytes depend on the layer index: remember the original one
    h["layers"] = [dict(l, index=l.get("index", i)) for i, l in enumerate(h["layers"])
                   if l["name"] not in rm]
    for l in h["layers"]:
        assert not any(p["layer"] in rm for p in l["parents"]), "remove set not closed"
    drop_dangling_refs(h)
    return h


# ---------------------------------------------------------------------------
# XML

_HEAD = ('<?xml version="1.0" encoding="UTF-8" standalone="no" ?>\n'
         '<ODX MODEL-VERSION="2.2.0" xmlns:xsi="http://www.w3.org/2001/XMLSchema-instance" '
         'xsi:noNamespaceSchemaLocation="odx.xsd">')

_U8 = ('<DIAG-CODED-TYPE BASE-DATA-TYPE="A_UINT32" xsi:type="STANDARD-LENGTH-TYPE">'
       '<BIT-LENGTH>8</BIT-LENGTH></DIAG-CODED-TYPE>')


def _names(name: str, long_name: str) -> str:
    return f"<SHORT-NAME>{escape(name)}</SHORT-NAME><LONG-NAME>{escape(long_name)}</LONG-NAME>"


def _const(name: str, value: int, bits: int = 8, byte: int = 0) -> str:
    return (f'<PARAM xsi:type="CODED-CONST"><SHORT-NAME>{name}</SHORT-NAME>'
            f'<BYTE-POSITION>{byte}</BYTE-POSITION><CODED-VALUE>{value}</CODED-VALUE>'
            f'<DIAG-CODED-TYPE BASE-DATA-TYPE="A_UINT32" xsi:type="STANDARD-LENGTH-TYPE">'
            f'<BIT-LENGTH>{bits}</BIT-LENGTH></DIAG-CODED-TYPE></PARAM>')


def comparam_docs() -> List[str]:
    sub = (_HEAD + f'<COMPARAM-SUBSET ID="{CPSUB_DOC}" CATEGORY="PHYS">'
           f'<SHORT-NAME>{CPSUB_DOC}</SHORT-NAME></COMPARAM-SUBSET></ODX>')
    spec = (_HEAD + f'<COMPARAM-SPEC ID="{CPS_DOC}"><SHORT-NAME>{CPS_DOC}</SHORT-NAME>'
            f'<PROT-STACKS><PROT-STACK ID="{CPS_DOC}.PS"><SHORT-NAME>PS</SHORT-NAME>'
            '<PDU-PROTOCOL-TYPE>ISO_15765_3</PDU-PROTOCOL-TYPE>'
            '<PHYSICAL-LINK-TYPE>ISO_11898_2_DWCAN</PHYSICAL-LINK-TYPE>'
            f'<COMPARAM-SUBSET-REFS><COMPARAM-SUBSET-REF ID-REF="{CPSUB_DOC}" '
            f'DOCREF="{CPSUB_DOC}" DOCTYPE="COMPARAM-SUBSET"/></COMPARAM-SUBSET-REFS>'
            '</PROT-STACK></PROT-STACKS></COMPARAM-SPEC></ODX>')
    return [sub, spec]


def _dobj_model(layer: J, o: J, mk: str) -> J:
    """odxgen description of a DIAG-DATA-DICTIONARY-SPEC member."""
    cat, name = o["cat"], o["name"]
    hs, hd = HELPER_STRUCT + layer["name"], HELPER_DOP + layer["name"]
    base: J = {"name": name, "long_name": mk}
    if cat == "dop":
        return dict(odxgen.dop(name, odxgen.dct_std("A_UINT32", 8)), long_name=mk)
    if cat == "dtc_dop":
        return dict(base, t="DTCDOP", dct=odxgen.dct_std("A_UINT32", 24), ptype="A_UINT32",
                    compu=odxgen.compu_identical(),
                    dtcs=[{"name": "dtc0", "code": 1, "text": "t"}])
    if cat == "structure":
        return dict(base, t="STRUCT", params=[odxgen.u8const("c", 0x5A, 0)])
    if cat == "static_field":
        return dict(base, t="SFIELD", struct=hs, n=2, item_size=1)
    if cat == "dyn_length_field":
        return dict(base, t="DLFIELD", struct=hs, offset=1, cnt_byte=0, cnt_dop=hd)
    if cat == "dyn_endmarker_field":
        return dict(base, t="EMFIELD", struct=hs, term_dop=hd, term_value=255)
    if cat == "eopdu_field":
        return dict(base, t="EOPFIELD", struct=hs)
    if cat == "mux":
        return dict(base, t="MUX", byte_pos=1, key={"byte": 0, "dop": hd},
                    cases=[{"name": "c0", "struct": hs, "lo": 0, "hi": 9}])
    if cat == "env_data":
        return dict(base, t="ENVDATA", params=[odxgen.u8const("c", 0x11, 0)])
    if cat == "env_data_desc":
        return dict(base, t="ENVDESC", param_snref="dtc", envdatas=[])
    if cat == "table":
        return dict(base, t="TABLE", rows=[])
    raise ValueError(cat)


def emit_parent_ref(hier: J, child: J, pref: J) -> str:
    by_name = {l["name"]: l for l in hier["layers"]}
    parent = by_name[pref["layer"]]
    cross = parent["container"] != child["container"]
    x = f'<PARENT-REF ID-REF={quoteattr(parent["name"])}'
    if cross or pref.get("docref"):
        x += f' DOCREF={quoteattr(hier["containers"][parent["container"]])} DOCTYPE="CONTAINER"'
    x += f' xsi:type="{parent["kind"]}-REF">'
    ni = pref.get("ni", {})
    for key, outer, inner, ref in (
            ("diag_comms", "NOT-INHERITED-DIAG-COMMS", "NOT-INHERITED-DIAG-COMM", "DIAG-COMM-SNREF"),
            ("variables", "NOT-INHERITED-VARIABLES", "NOT-INHERITED-VARIABLE",
             "DIAG-VARIABLE-SNREF"),
            ("dops", "NOT-INHERITED-DOPS", "NOT-INHERITED-DOP", "DOP-BASE-SNREF"),
            ("tables", "NOT-INHERITED-TABLES", "NOT-INHERITED-TABLE", "TABLE-SNREF"),
            ("gnrs", "NOT-INHERITED-GLOBAL-NEG-RESPONSES", "NOT-INHERITED-GLOBAL-NEG-RESPONSE",
             "GLOBAL-NEG-RESPONSE-SNREF")):
        if ni.get(key):
            x += f"<{outer}>" + "".join(
                f"<{inner}><{ref} SHORT-NAME={quoteattr(n)}/></{inner}>" for n in ni[key]) + \
                f"</{outer}>"
    return x + "</PARENT-REF>"


def emit_layer(hier: J, layer: J) -> str:
    kind, lname = layer["kind"], layer["name"]
    by_cat: Dict[str, List[J]] = {}
    for o in layer["objects"]:
        by_cat.setdefault(o["cat"], []).append(o)

    def oid(tag: str, name: str) -> str:
        return f"{lname}.{tag}.{name}"

    x = f"<{kind} ID={quoteattr(lname)}>" + _names(lname, "layer " + lname)
    if by_cat.get("funct_class"):
        x += "<FUNCT-CLASSS>" + "".join(
            f'<FUNCT-CLASS ID={quoteattr(oid("FNC", o["name"]))}>' +
            _names(o["name"], marker(lname, o)) + "</FUNCT-CLASS>"
            for o in by_cat["funct_class"]) + "</FUNCT-CLASSS>"
    # data dictionary
    ids = odxgen.Ids(lname)
    sections: Dict[str, List[str]] = {}
    for o in layer["objects"]:
        if CATS[o["cat"]][1] in ("dops", "tables"):
            sec, xml = odxgen.emit_dobj(_dobj_model(layer, o, marker(lname, o)), ids)
            sections.setdefault(sec, []).append(xml)
    if by_cat.get("unit_group"):
        sections["UNIT-SPEC"] = ["<UNIT-SPEC><UNIT-GROUPS>" + "".join(
            "<UNIT-GROUP>" + _names(o["name"], marker(lname, o)) +
            "<CATEGORY>COUNTRY</CATEGORY></UNIT-GROUP>" for o in by_cat["unit_group"]) +
            "</UNIT-GROUPS></UNIT-SPEC>"]
    if sections:
        x += "<DIAG-DATA-DICTIONARY-SPEC>"
        for sec in odxgen._DDDS_ORDER:
            if sec in sections:
                x += sections[sec][0] if sec == "UNIT-SPEC" else \
                    f"<{sec}>" + "".join(sections[sec]) + f"</{sec}>"
        x += "</DIAG-DATA-DICTIONARY-SPEC>"
    # diag comms
    dcs = [o for o in layer["objects"] if o["cat"] in ("service", "job")]
    if dcs:
        x += "<DIAG-COMMS>"
        for o in dcs:
            if o.get("ref"):
                x += (f'<DIAG-COMM-REF ID-REF={quoteattr(o["ref"] + ".JOB." + o["name"])} '
                      f'DOCREF={quoteattr(o["ref"])} DOCTYPE="LAYER"/>')
            elif o["cat"] == "service":
                x += f'<DIAG-SERVICE ID={quoteattr(oid("SVC", o["name"]))}>' + \
                    _names(o["name"], marker(lname, o)) + \
                    f'<REQUEST-REF ID-REF={quoteattr(oid("RQ", o["name"]))}/></DIAG-SERVICE>'
            else:
                x += f'<SINGLE-ECU-JOB ID={quoteattr(oid("JOB", o["name"]))}>' + \
                    _names(o["name"], marker(lname, o)) + \
                    f"<PROG-CODES><PROG-CODE><CODE-FILE>{AUX_FILE}</CODE-FILE>" \
                    "<SYNTAX>JAR</SYNTAX><REVISION>1</REVISION></PROG-CODE></PROG-CODES>" \
                    "</SINGLE-ECU-JOB>"
        x += "</DIAG-COMMS>"
    svcs = by_cat.get("service", [])
    if svcs:
        x += "<REQUESTS>"
        for o in svcs:
            rb = request_bytes(hier, lname, o)
            x += f'<REQUEST ID={quoteattr(oid("RQ", o["name"]))}>' + \
                _names("rq_" + o["name"], "request of " + marker(lname, o)) + "<PARAMS>" + \
                _const("sid", int.from_bytes(rb, "big"), 24) + "</PARAMS></REQUEST>"
        x += "</REQUESTS>"
    if by_cat.get("gnr"):
        x += "<GLOBAL-NEG-RESPONSES>" + "".join(
            f'<GLOBAL-NEG-RESPONSE ID={quoteattr(oid("GNR", o["name"]))}>' +
            _names(o["name"], marker(lname, o)) + "<PARAMS>" + _const("sid", 0x7F) +
            _const("nrc", _name_code(o["name"]), 8, 1) + "</PARAMS></GLOBAL-NEG-RESPONSE>"
            for o in by_cat["gnr"]) + "</GLOBAL-NEG-RESPONSES>"
    if by_cat.get("state_chart"):
        x += "<STATE-CHARTS>" + "".join(
            f'<STATE-CHART ID={quoteattr(oid("SC", o["name"]))}>' +
            _names(o["name"], marker(lname, o)) + "<SEMANTIC>SESSION</SEMANTIC>"
            '<START-STATE-SNREF SHORT-NAME="s0"/><STATES>'
            f'<STATE ID={quoteattr(oid("SC", o["name"]) + ".s0")}><SHORT-NAME>s0</SHORT-NAME>'
            "</STATE></STATES></STATE-CHART>" for o in by_cat["state_chart"]) + "</STATE-CHARTS>"
    if by_cat.get("audience"):
        x += "<ADDITIONAL-AUDIENCES>" + "".join(
            f'<ADDITIONAL-AUDIENCE ID={quoteattr(oid("AUD", o["name"]))}>' +
            _names(o["name"], marker(lname, o)) + "</ADDITIONAL-AUDIENCE>"
            for o in by_cat["audience"]) + "</ADDITIONAL-AUDIENCES>"
    if kind == "PROTOCOL":
        x += f'<COMPARAM-SPEC-REF ID-REF="{CPS_DOC}" DOCREF="{CPS_DOC}" DOCTYPE="COMPARAM-SPEC"/>'
        x += '<PROT-STACK-SNREF SHORT-NAME="PS"/>'
    if by_cat.get("diag_variable"):
        x += "<DIAG-VARIABLES>" + "".join(
            f'<DIAG-VARIABLE ID={quoteattr(oid("DV", o["name"]))}>' +
            _names(o["name"], marker(lname, o)) +
            "</DIAG-VARIABLE>" for o in by_cat["diag_variable"]) + "</DIAG-VARIABLES>"
    if by_cat.get("variable_group"):
        x += "<VARIABLE-GROUPS>" + "".join(
            f'<VARIABLE-GROUP ID={quoteattr(oid("VG", o["name"]))}>' +
            _names(o["name"], marker(lname, o)) + "</VARIABLE-GROUP>"
            for o in by_cat["variable_group"]) + "</VARIABLE-GROUPS>"
    if layer["parents"]:
        x += "<PARENT-REFS>" + "".join(emit_parent_ref(hier, layer, p)
                                       for p in layer["parents"]) + "</PARENT-REFS>"
    return x + f"</{kind}>"


_GROUPS = [("PROTOCOL", "PROTOCOLS"), ("FUNCTIONAL-GROUP", "FUNCTIONAL-GROUPS"),
           ("ECU-SHARED-DATA", "ECU-SHARED-DATAS"), ("BASE-VARIANT", "BASE-VARIANTS"),
           ("ECU-VARIANT", "ECU-VARIANTS")]


def emit(hier: J) -> List[str]:
    docs = comparam_docs()
    for ci, cname in enumerate(hier["containers"]):
        mine = [l for l in hier["layers"] if l["container"] == ci]
        if not mine:
            continue
        x = _HEAD + f'<DIAG-LAYER-CONTAINER ID={quoteattr("DLC." + cname)}>' + \
            _names(cname, "container " + cname)
        for kind, group in _GROUPS:
            ls = [l for l in mine if l["kind"] == kind]
            if ls:
                x += f"<{group}>" + "".join(emit_layer(hier, l) for l in ls) + f"</{group}>"
        docs.append(x + "</DIAG-LAYER-CONTAINER></ODX>")
    return docs


def load(hier: J) -> Any:
    """Feed the documents to a fresh odxtools Database and finalise it."""
    import os
    import tempfile
    from xml.etree import ElementTree

    from odxtools.database import Database
    db = Database()
    db.auxiliary_files[AUX_FILE] = io.BytesIO(b"PK")
    for xml in emit(hier):
        if hasattr(db, "_process_xml_tree"):
            db._process_xml_tree(ElementTree.fromstring(xml))
        else:  # survive a refactoring of the private entry point
            with tempfile.NamedTemporaryFile("w", suffix=".odx-d", delete=False) as f:
                f.write(xml)
            try:
                db.add_odx_file(f.name)
            finally:
                os.unlink(f.name)
    db.refresh()
    return db


# ---------------------------------------------------------------------------
# observation at the public API

# view name -> how to reach it from a layer; every view is a list of named objects
VIEWS: Dict[str, Tuple[str, ...]] = {
    "diag_comms": ("diag_comms",),
    "services": ("services",),
    "diag_services": ("diag_services",),
    "single_ecu_jobs": ("single_ecu_jobs",),
    "dops": ("diag_data_dictionary_spec", "data_object_props"),
    "dtc_dops": ("diag_data_dictionary_spec", "dtc_dops"),
    "structures": ("diag_data_dictionary_spec", "structures"),
    "static_fields": ("diag_data_dictionary_spec", "static_fields"),
    "dynamic_length_fields": ("diag_data_dictionary_spec", "dynamic_length_fields"),
    "dynamic_endmarker_fields": ("diag_data_dictionary_spec", "dynamic_endmarker_fields"),
    "end_of_pdu_fields": ("diag_data_dictionary_spec", "end_of_pdu_fields"),
    "muxs": ("diag_data_dictionary_spec", "muxs"),
    "env_datas": ("diag_data_dictionary_spec", "env_datas"),
    "env_data_descs": ("diag_data_dictionary_spec", "env_data_descs"),
    "tables": ("diag_data_dictionary_spec", "tables"),
    "unit_groups": ("diag_data_dictionary_spec", "unit_spec", "unit_groups"),
    "global_negative_responses": ("global_negative_responses",),
    "functional_classes": ("functional_classes",),
    "state_charts": ("state_charts",),
    "additional_audiences": ("additional_audiences",),
    "diag_variables": ("diag_variables",),
    "variable_groups": ("variable_groups",),
}


class ViewUnavailable(Exception):
    pass


def read_view(layer_obj: Any, view: str) -> List[Tuple[str, str]]:
    """[(short_name, long_name)] of one view; ViewUnavailable if the attribute is missing."""
    cur = layer_obj
    path = VIEWS[view]
    for i, attr in enumerate(path):
        if cur is None and attr == "unit_groups":
            return []  # no unit spec at all: nothing visible
        try:
            cur = getattr(cur, attr)
        except AttributeError as e:
            raise ViewUnavailable(f"{type(layer_obj).__name__}.{'.'.join(path[:i + 1])}: {e}")
    if cur is None:
        return []
    return sorted((str(x.short_name), str(x.long_name)) for x in cur)


def observe(db: Any, hier: J, views: Optional[Sequence[str]] = None) -> J:
    res: J = {}
    for l in hier["layers"]:
        lo = db.diag_layers[l["name"]]
        res[l["name"]] = {}
        for v in (views or VIEWS):
            try:
                res[l["name"]][v] = [list(t) for t in read_view(lo, v)]
            except ViewUnavailable as e:
                res[l["name"]][v] = {"unavailable": str(e)}
    return res
